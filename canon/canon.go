// Package canon gives canonical (map-order independent) text dumps and
// reflective deep copies of arbitrary Go values. It is deliberately independent
// of encoding/gob so that checks about gob persistence do not rely on it.
package canon

import (
	"fmt"
	"math/big"
	"reflect"
	"sort"
	"strconv"
	"strings"
	"time"
	"unsafe"
)

// Options controls Dump.
type Options struct {
	// Skip lists "TypeName.FieldName" struct fields to leave out.
	Skip map[string]bool
	// NilEqualsEmpty renders nil and empty maps/slices identically.
	NilEqualsEmpty bool
}

var (
	bigIntType = reflect.TypeOf(big.Int{})
	timeType   = reflect.TypeOf(time.Time{})
)

// Dump renders v canonically.
func Dump(v any, o *Options) string {
	var sb strings.Builder
	if o == nil {
		o = &Options{}
	}
	dump(&sb, reflect.ValueOf(v), o, 0)
	return sb.String()
}

const hexdigits = "0123456789abcdef"

func writeHex(sb *strings.Builder, b []byte) {
	for _, c := range b {
		sb.WriteByte(hexdigits[c>>4])
		sb.WriteByte(hexdigits[c&15])
	}
}

func dump(sb *strings.Builder, v reflect.Value, o *Options, depth int) {
	if depth > 64 {
		sb.WriteString("<deep>")
		return
	}
	if !v.IsValid() {
		sb.WriteString("nil")
		return
	}
	switch v.Kind() {
	case reflect.Ptr:
		if v.IsNil() {
			sb.WriteString("nil")
			return
		}
		sb.WriteString("&")
		dump(sb, v.Elem(), o, depth+1)
	case reflect.Interface:
		if v.IsNil() {
			sb.WriteString("nil")
			return
		}
		fmt.Fprintf(sb, "(%s)", v.Elem().Type())
		dump(sb, v.Elem(), o, depth+1)
	case reflect.Struct:
		t := v.Type()
		if t == bigIntType {
			if v.CanAddr() {
				sb.WriteString(v.Addr().Interface().(*big.Int).String())
			} else {
				c := reflect.New(t).Elem()
				c.Set(v)
				sb.WriteString(c.Addr().Interface().(*big.Int).String())
			}
			return
		}
		if t == timeType {
			sb.WriteString("<time>")
			return
		}
		sb.WriteString(t.Name())
		sb.WriteString("{")
		for i := 0; i < t.NumField(); i++ {
			f := t.Field(i)
			if o.Skip[t.Name()+"."+f.Name] {
				continue
			}
			sb.WriteString(f.Name)
			sb.WriteString(":")
			dump(sb, v.Field(i), o, depth+1)
			sb.WriteString(";")
		}
		sb.WriteString("}")
	case reflect.Map:
		if v.IsNil() && !o.NilEqualsEmpty {
			sb.WriteString("nilmap")
			return
		}
		entries := make([]string, 0, v.Len())
		it := v.MapRange()
		for it.Next() {
			var e strings.Builder
			dump(&e, it.Key(), o, depth+1)
			e.WriteString("=>")
			dump(&e, it.Value(), o, depth+1)
			entries = append(entries, e.String())
		}
		sort.Strings(entries)
		sb.WriteString("map[")
		sb.WriteString(strings.Join(entries, ","))
		sb.WriteString("]")
	case reflect.Slice:
		if v.IsNil() && !o.NilEqualsEmpty {
			sb.WriteString("nilslice")
			return
		}
		if v.Type().Elem().Kind() == reflect.Uint8 {
			sb.WriteByte('x')
			writeHex(sb, v.Bytes())
			return
		}
		fallthrough
	case reflect.Array:
		if v.Type().Elem().Kind() == reflect.Uint8 {
			sb.WriteByte('x')
			n := v.Len()
			if v.CanAddr() {
				writeHex(sb, v.Slice(0, n).Bytes())
				return
			}
			tmp := make([]byte, n)
			reflect.Copy(reflect.ValueOf(tmp), v)
			writeHex(sb, tmp)
			return
		}
		sb.WriteString("[")
		for i := 0; i < v.Len(); i++ {
			if i > 0 {
				sb.WriteString(",")
			}
			dump(sb, v.Index(i), o, depth+1)
		}
		sb.WriteString("]")
	case reflect.String:
		sb.WriteString(strconv.Quote(v.String()))
	case reflect.Bool:
		sb.WriteString(strconv.FormatBool(v.Bool()))
	case reflect.Int, reflect.Int8, reflect.Int16, reflect.Int32, reflect.Int64:
		sb.WriteString(strconv.FormatInt(v.Int(), 10))
	case reflect.Uint, reflect.Uint8, reflect.Uint16, reflect.Uint32, reflect.Uint64, reflect.Uintptr:
		sb.WriteString(strconv.FormatUint(v.Uint(), 10))
	case reflect.Float32, reflect.Float64:
		fmt.Fprintf(sb, "%g", v.Float())
	case reflect.Func, reflect.Chan, reflect.UnsafePointer:
		sb.WriteString("<" + v.Kind().String() + ">")
	default:
		fmt.Fprintf(sb, "<%s>", v.Kind())
	}
}

// DeepCopy returns a deep copy of v (pointers, maps, slices, structs with
// exported or unexported fields reachable through exported ones). Shared
// pointers inside v stay shared inside the copy.
func DeepCopy[T any](v T) T {
	seen := map[uintptr]reflect.Value{}
	out := deepCopy(reflect.ValueOf(v), seen)
	if !out.IsValid() {
		var zero T
		return zero
	}
	return out.Interface().(T)
}

func deepCopy(v reflect.Value, seen map[uintptr]reflect.Value) reflect.Value {
	if !v.IsValid() {
		return v
	}
	switch v.Kind() {
	case reflect.Ptr:
		if v.IsNil() {
			return reflect.Zero(v.Type())
		}
		if c, ok := seen[v.Pointer()]; ok && c.Type() == v.Type() {
			return c
		}
		if v.Type().Elem() == bigIntType {
			n := new(big.Int).Set(v.Interface().(*big.Int))
			return reflect.ValueOf(n)
		}
		n := reflect.New(v.Type().Elem())
		seen[v.Pointer()] = n
		n.Elem().Set(deepCopy(v.Elem(), seen))
		return n
	case reflect.Interface:
		if v.IsNil() {
			return reflect.Zero(v.Type())
		}
		c := deepCopy(v.Elem(), seen)
		n := reflect.New(v.Type()).Elem()
		n.Set(c)
		return n
	case reflect.Struct:
		t := v.Type()
		if t == timeType {
			return v
		}
		n := reflect.New(t).Elem()
		n.Set(v) // copies unexported fields shallowly
		for i := 0; i < t.NumField(); i++ {
			if t.Field(i).PkgPath != "" {
				// unexported field (a cache, a memo): deep-copied as well, through an
				// unsafe alias of the copy's own field, so that two copies never share a
				// map or slice. Synchronisation primitives keep their shallow copy.
				ft := t.Field(i).Type
				if pp := ft.PkgPath(); pp == "sync" || pp == "sync/atomic" {
					continue
				}
				switch ft.Kind() {
				case reflect.Map, reflect.Slice, reflect.Ptr, reflect.Struct, reflect.Interface, reflect.Array:
					fv := reflect.NewAt(ft, unsafe.Pointer(n.Field(i).UnsafeAddr())).Elem()
					fv.Set(deepCopy(fv, seen))
				}
				continue
			}
			n.Field(i).Set(deepCopy(v.Field(i), seen))
		}
		return n
	case reflect.Map:
		if v.IsNil() {
			return reflect.Zero(v.Type())
		}
		n := reflect.MakeMapWithSize(v.Type(), v.Len())
		it := v.MapRange()
		for it.Next() {
			n.SetMapIndex(deepCopy(it.Key(), seen), deepCopy(it.Value(), seen))
		}
		return n
	case reflect.Slice:
		if v.IsNil() {
			return reflect.Zero(v.Type())
		}
		n := reflect.MakeSlice(v.Type(), v.Len(), v.Len())
		if isPlain(v.Type().Elem()) {
			reflect.Copy(n, v)
			return n
		}
		for i := 0; i < v.Len(); i++ {
			n.Index(i).Set(deepCopy(v.Index(i), seen))
		}
		return n
	case reflect.Array:
		n := reflect.New(v.Type()).Elem()
		if isPlain(v.Type().Elem()) {
			n.Set(v)
			return n
		}
		for i := 0; i < v.Len(); i++ {
			n.Index(i).Set(deepCopy(v.Index(i), seen))
		}
		return n
	default:
		return v
	}
}

func isPlain(t reflect.Type) bool {
	switch t.Kind() {
	case reflect.Bool, reflect.Int, reflect.Int8, reflect.Int16, reflect.Int32, reflect.Int64,
		reflect.Uint, reflect.Uint8, reflect.Uint16, reflect.Uint32, reflect.Uint64, reflect.Uintptr,
		reflect.Float32, reflect.Float64, reflect.String:
		return true
	}
	return false
}
