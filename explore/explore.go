// Package explore is the hand-written explorer used by every check.
//
// Two modes share one choice API:
//
//   - Stateless, deviation-bounded DFS (DFS): the body is executed from scratch
//     for every explored choice list. The first len(prefix) choice points replay
//     the prefix (a prefix entry that is out of range for the point reached is a
//     hard ReplayDivergence error); every later point answers 0. The explorer
//     recurses into every alternative whose accumulated deviation cost stays
//     within the bound. With Bound<0 the whole choice tree is enumerated.
//   - Explicit-state search (BFS, see bfs.go) over canonical state keys.
//
// Nothing here samples: every alternative inside the bound is visited.
package explore

import (
	"fmt"
	"runtime/debug"
	"strings"
	"sync/atomic"
	"time"
)

// Point is one choice point met during an execution.
type Point struct {
	N     int    // number of alternatives
	Cost  int    // deviation cost of taking a non-zero alternative
	Label string // what is being chosen (for replay files and samples)
}

// Run is one execution of a body under the explorer.
type Run struct {
	prefix  []int
	Choices []int
	Points  []Point
	failure *Failure
	Notes   []string // free-form observations the body wants to keep (outcome classes)
}

// Failure describes a property violation found in one execution.
type Failure struct {
	Signature string // stable class of the failure (used for known findings)
	Message   string
	Choices   []int
	Labels    []string
}

// ReplayDivergence is panicked when a prefix cannot be replayed: the harness is
// nondeterministic and nothing it reports can be trusted.
type ReplayDivergence struct{ Msg string }

func (d ReplayDivergence) Error() string { return "replay divergence: " + d.Msg }

// Choose returns a choice in [0,n). Alternative 0 is the default answer; any
// other alternative costs one deviation.
func (r *Run) Choose(n int, label string) int { return r.ChooseCost(n, 1, label) }

// ChooseFree is a choice whose alternatives cost nothing (alphabet choices that
// must always be enumerated completely).
func (r *Run) ChooseFree(n int, label string) int { return r.ChooseCost(n, 0, label) }

// ChooseCost is the general form.
func (r *Run) ChooseCost(n, cost int, label string) int {
	if n <= 0 {
		panic(fmt.Sprintf("explore: Choose with n=%d (%s)", n, label))
	}
	i := len(r.Choices)
	c := 0
	if i < len(r.prefix) {
		c = r.prefix[i]
		if c < 0 || c >= n {
			panic(ReplayDivergence{fmt.Sprintf("choice %d of prefix is %d but point %q has %d alternatives", i, c, label, n)})
		}
	}
	r.Choices = append(r.Choices, c)
	r.Points = append(r.Points, Point{N: n, Cost: cost, Label: label})
	return c
}

// Failf records a violation for this execution (the first one wins).
func (r *Run) Failf(signature, format string, args ...any) {
	if r.failure != nil {
		return
	}
	r.failure = &Failure{Signature: signature, Message: fmt.Sprintf(format, args...)}
}

// Failure returns the recorded failure (nil if none).
func (r *Run) Failure() *Failure { return r.failure }

// Failed reports whether a failure was recorded.
func (r *Run) Failed() bool { return r.failure != nil }

// Note records an outcome class for vacuity accounting.
func (r *Run) Note(s string) { r.Notes = append(r.Notes, s) }

func (r *Run) labels() []string {
	out := make([]string, len(r.Points))
	for i, p := range r.Points {
		out[i] = fmt.Sprintf("%s=%d/%d", p.Label, r.Choices[i], p.N)
	}
	return out
}

// DFS is the stateless explorer.
type DFS struct {
	Bound    int          // max accumulated deviation cost; <0 = unbounded
	Body     func(r *Run) // one execution
	Shard    int          // this worker's shard
	NShards  int          // total shards (0/1 = no sharding)
	Deadline time.Time    // zero = none
	MaxExecs int64        // 0 = none
	OnRun    func(r *Run) // called after every execution
	Confirm  int          // re-runs of a failing choice list before it is reported (default 5)

	Execs     int64
	MaxDepth  int
	Capped    string // non-empty when a cap ended the exploration early
	Failures  []*Failure
	StopAfter int // stop after this many failures (default 1)
}

// exec runs the body once with panic capture.
func (e *DFS) exec(prefix []int) (r *Run) {
	r = &Run{prefix: prefix}
	func() {
		defer func() {
			if p := recover(); p != nil {
				if d, ok := p.(ReplayDivergence); ok {
					panic(d)
				}
				r.failure = nil
				r.Failf("panic", "panic: %v\n%s", p, trimStack(debug.Stack()))
			}
		}()
		e.Body(r)
	}()
	if len(r.Choices) < len(prefix) {
		panic(ReplayDivergence{fmt.Sprintf("execution ended after %d choice points but the prefix has %d", len(r.Choices), len(prefix))})
	}
	e.Execs++
	if len(r.Choices) > e.MaxDepth {
		e.MaxDepth = len(r.Choices)
	}
	if r.failure != nil {
		r.failure.Choices = append([]int(nil), r.Choices...)
		r.failure.Labels = r.labels()
	}
	return r
}

func trimStack(b []byte) string {
	lines := strings.Split(string(b), "\n")
	if len(lines) > 40 {
		lines = lines[:40]
	}
	return strings.Join(lines, "\n")
}

// Replay executes one choice list and returns the run.
func (e *DFS) Replay(choices []int) *Run { return e.exec(choices) }

func (e *DFS) confirm(f *Failure) {
	n := e.Confirm
	if n == 0 {
		n = 5
	}
	for i := 0; i < n; i++ {
		r := e.exec(f.Choices)
		e.Execs--
		if r.failure == nil || r.failure.Signature != f.Signature {
			panic(ReplayDivergence{fmt.Sprintf("failure %q did not reproduce on re-run %d of its own choice list", f.Signature, i+1)})
		}
	}
}

// Explore enumerates the choice tree.
func (e *DFS) Explore() {
	stop := e.StopAfter
	if stop == 0 {
		stop = 1
	}
	type item struct {
		prefix []int
		devs   int
	}
	stack := []item{{nil, 0}}
	rootAlt := 0
	for len(stack) > 0 {
		it := stack[len(stack)-1]
		stack = stack[:len(stack)-1]
		if why := Expired(e.Deadline); why != "" {
			e.Capped = why
			return
		}
		if e.MaxExecs > 0 && e.Execs >= e.MaxExecs {
			e.Capped = "max-execs"
			return
		}
		r := e.exec(it.prefix)
		isRoot := len(it.prefix) == 0
		mine := !isRoot || e.NShards <= 1 || e.Shard == 0
		if mine {
			if e.OnRun != nil {
				e.OnRun(r)
			}
			if r.failure != nil {
				e.confirm(r.failure)
				e.Failures = append(e.Failures, r.failure)
				if len(e.Failures) >= stop {
					return
				}
			}
		}
		// children: alternatives at points beyond the prefix, deepest first so
		// that the stack pops the shallowest (shortest counterexample first).
		devs := it.devs
		var kids []item
		for i := len(it.prefix); i < len(r.Points); i++ {
			p := r.Points[i]
			if e.Bound >= 0 && devs+p.Cost > e.Bound {
				continue
			}
			for alt := 1; alt < p.N; alt++ {
				if isRoot && e.NShards > 1 {
					k := rootAlt
					rootAlt++
					if k%e.NShards != e.Shard {
						continue
					}
				}
				np := make([]int, i+1)
				copy(np, r.Choices[:i])
				np[i] = alt
				kids = append(kids, item{np, devs + p.Cost})
			}
		}
		for i := len(kids) - 1; i >= 0; i-- {
			stack = append(stack, kids[i])
		}
	}
}

// MemoryPressure is set by the worker runtime while the process's heap is above
// its share of the machine's memory; searches treat it like an expired deadline
// (they stop and report the cap, never a verdict about what was not explored).
var MemoryPressure atomic.Bool

// Expired tells why a search has to stop now ("" = it does not).
func Expired(deadline time.Time) string {
	if MemoryPressure.Load() {
		return "memory limit"
	}
	if !deadline.IsZero() && time.Now().After(deadline) {
		return "deadline"
	}
	return ""
}
