package explore

import (
	"crypto/sha256"
	"sync"
	"sync/atomic"
	"time"
)

// BFS is an explicit-state breadth-first search with canonical-state
// de-duplication. S is whatever the check needs to rebuild or continue a state
// (a live object that the check clones before stepping, or an operation history).
type BFS[S any] struct {
	// Key returns the canonical form of a state; states with equal keys are
	// merged (each check documents why merged states have equal futures).
	Key func(s S) string
	// Expand enumerates every enabled transition of s. For each it calls
	// emit(label, next). The oracle for transitions is evaluated inside Expand,
	// the oracle for states in OnState.
	Expand func(s S, depth int, path []string, emit func(label string, next S))
	// OnState is called once per distinct state.
	OnState   func(s S, depth int, path []string)
	MaxDepth  int
	Deadline  time.Time
	MaxStates int
	KeepPaths bool // remember the label path to every state (needed for replay files)
	// Parallel > 1 expands the states of one level concurrently on that many
	// goroutines. Key, Expand and OnState must then be safe for concurrent use
	// (emit is). The set of states and transitions explored is the same as in the
	// sequential search; only the order inside a level differs.
	Parallel int

	States      int
	Transitions int
	DepthDone   int    // deepest level whose states were all expanded
	Capped      string // non-empty if a cap ended the search early
	FrontierCut int    // states at MaxDepth that were not expanded
	Stop        bool   // set by the check to end the search (violation found)
}

type bfsNode[S any] struct {
	s    S
	path []string
}

// Run searches from the given initial states.
func (b *BFS[S]) Run(inits []S) {
	seen := map[[32]byte]struct{}{}
	var cur []bfsNode[S]
	var mu sync.Mutex
	add := func(dst *[]bfsNode[S], s S, path []string, depth int) {
		k := sha256.Sum256([]byte(b.Key(s)))
		mu.Lock()
		defer mu.Unlock()
		if _, ok := seen[k]; ok {
			return
		}
		seen[k] = struct{}{}
		b.States++
		if b.OnState != nil {
			b.OnState(s, depth, path)
		}
		*dst = append(*dst, bfsNode[S]{s, path})
	}
	for _, s := range inits {
		add(&cur, s, nil, 0)
	}
	for depth := 0; len(cur) > 0 && !b.Stop; depth++ {
		if depth >= b.MaxDepth {
			b.FrontierCut = len(cur)
			return
		}
		var next []bfsNode[S]
		expand := func(n bfsNode[S]) {
			b.Expand(n.s, depth, n.path, func(label string, ns S) {
				mu.Lock()
				b.Transitions++
				mu.Unlock()
				var p []string
				if b.KeepPaths {
					p = make([]string, len(n.path)+1)
					copy(p, n.path)
					p[len(n.path)] = label
				}
				add(&next, ns, p, depth+1)
			})
		}
		if b.Parallel > 1 {
			var wg sync.WaitGroup
			var idx int64 = -1
			var capped atomic.Value
			for w := 0; w < b.Parallel; w++ {
				wg.Add(1)
				go func() {
					defer wg.Done()
					for {
						i := int(atomic.AddInt64(&idx, 1))
						if i >= len(cur) || b.Stop {
							return
						}
						if why := Expired(b.Deadline); why != "" {
							capped.Store(why)
							return
						}
						expand(cur[i])
					}
				}()
			}
			wg.Wait()
			if b.Stop {
				return
			}
			if c, ok := capped.Load().(string); ok {
				b.Capped = c
				return
			}
			b.DepthDone = depth + 1
			cur = next
			continue
		}
		for _, n := range cur {
			if b.Stop {
				return
			}
			if why := Expired(b.Deadline); why != "" {
				b.Capped = why
				return
			}
			if b.MaxStates > 0 && b.States >= b.MaxStates {
				b.Capped = "max-states"
				return
			}
			expand(n)
		}
		b.DepthDone = depth + 1
		cur = next
	}
}
