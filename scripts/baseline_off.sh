#!/bin/bash
# Runs the repository's baseline test suite with the verif build tag OFF.
cd /repo/rolling-shutter
. /verif/scripts/env.sh
go test -mod=mod -json -vet=off -count=1 -timeout 25m ./...
