#!/usr/bin/env python3
# usage: seedstore.py <ID> <n> <agent out dir> "<verdict>" [extra check ids...]
import json,sys,shutil,glob,os
id,n,out,verdict=sys.argv[1:5]
d='/verif/seeded/%s-%s'%(id,n)
os.makedirs(d,exist_ok=True)
shutil.copy(out+'/patch.diff',d)
for f in glob.glob(out+'/*_test.go')+glob.glob(out+'/*.go'):
    shutil.copy(f,d)
try: m=json.load(open(out+'/meta.json'))
except Exception as e: m={'property':id,'raw_meta_unparseable':str(e)}
m['verif_verdict']=verdict
m['verif_command']="scripts/seedtest.sh %s seeded/%s-%s/patch.diff quick"%(id,id,n)
json.dump(m,open(d+'/meta.json','w'),indent=1)
s=open('/verif/seeded/README.md').read()
s+="| %s-%s | %s | %s | %s |\n"%(id,n,id,str(m.get('needs',''))[:160].replace('\n',' ').replace('|','/'),verdict.split(':')[0])
open('/verif/seeded/README.md','w').write(s)
print('stored',d)
