#!/bin/bash
# Runs every stored seeded change against the check of its property (quick tier) and
# reports whether it is still caught (exit 1 + VIOLATION). usage: seed_regress.sh [log] ; IDS="C01 C02" to restrict
cd /verif
LOG=${1:-/tmp/seed_regress.log}; : > $LOG
for d in seeded/C*-*/; do
  name=$(basename $d); id=${name%-*}
  if [ -n "${IDS:-}" ] && ! echo " $IDS " | grep -q " $id "; then continue; fi
  chk=$id
  # seeds that are, by design, caught by another property's check
  case $name in C07-3|C07-6|C07-7) chk=C08;; esac
  out=$(LINES_OUT=4000 ./scripts/seedtest.sh $chk $d/patch.diff quick 2>&1); rc=$?
  v=$(echo "$out" | grep -c '^VIOLATION')
  verdict=MISSED; [ $rc -eq 1 ] && [ $v -gt 0 ] && verdict=CAUGHT; [ $rc -eq 2 ] && verdict=HARNESS-ERROR
  # changes recorded as outside what the checks can decide (DESIGN 9.5): a miss is the expected verdict
  case $name in C05-9|C07-8|C08-9|C09-10|C18-10) [ "$verdict" = MISSED ] && verdict="MISSED-AS-RECORDED";; esac
  echo "$name by $chk: $verdict (exit $rc, $v violations) $(echo "$out" | grep ' tier=' | tail -1 | cut -c1-120)" >> $LOG
done
echo DONE >> $LOG
