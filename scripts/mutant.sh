#!/bin/bash
# usage: mutant.sh <ID> <tier> <file relative to rolling-shutter> <python-expr-old> <new>   (single replacement)
# Applies one textual replacement in a scratch worktree of /repo and runs the check against it.
set -u
ID=$1; TIER=$2; FILE=$3; OLD=$4; NEW=$5
WT=/tmp/wt-main-$$
git -C /repo worktree add -q --detach $WT HEAD || exit 3
python3 - "$WT/rolling-shutter/$FILE" "$OLD" "$NEW" <<'PY'
import sys
p,old,new=sys.argv[1:4]
s=open(p).read()
if old not in s:
    print("MUTANT-ERROR: pattern not found"); sys.exit(4)
open(p,'w').write(s.replace(old,new,1))
PY
rc=$?
if [ $rc -eq 0 ]; then
  (cd $WT/rolling-shutter && . /verif/scripts/env.sh && go build ./... 2>&1 | tail -3)
  VERIF_REPO=$WT VERIF_OUT=/tmp/out-main-$$ /verif/check.sh $ID $TIER 2>&1 | cut -c1-400 | grep -v "^\s*$" | tail -${LINES_OUT:-4}
fi
git -C /repo worktree remove --force $WT; rm -rf /tmp/out-main-$$ /verif/.gen/*-$(echo -n "$WT" | md5sum | cut -c1-8)* /verif/.bin/*-$(echo -n "$WT" | md5sum | cut -c1-8)
