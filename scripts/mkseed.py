# usage: mkseed.py <round> <ID>: scratch worktree /tmp/seed<round>-<ID>, out dir with property.json and prompt.txt for a seeding sub-agent
import json,sys,glob,subprocess,os
rnd,id=sys.argv[1],sys.argv[2]
wt='/tmp/seed%s-%s'%(rnd,id); out=wt+'-out'
subprocess.check_call(['git','-C','/repo','worktree','add','-q','--detach',wt,'HEAD'])
os.makedirs(out,exist_ok=True)
for l in open('/verif/properties.jsonl'):
    p=json.loads(l)
    if p['id']==id: json.dump(p,open(out+'/property.json','w'),indent=1)
s=open('/verif/docs/seed_prompt_template.txt').read()
s=s.replace('seedR-CXX','seed%s-%s'%(rnd,id)).replace('"CXX"','"%s"'%id)
s=s.replace('and with the change stashed (`git -C %s stash` … `stash pop`) (passes)'%wt,'and without the change (save the diff to a file, `git -C %s apply -R <file>`, run, then `git -C %s apply <file>`; do NOT use git stash, the stash is shared between worktrees) (passes)'%(wt,wt))
prev=[]
for m in sorted(glob.glob('/verif/seeded/%s-*/meta.json'%id)):
    try: prev.append(json.load(open(m)).get('summary',''))
    except Exception: pass
if prev:
    s+='IMPORTANT — diversity: earlier regressions for this property have already been produced; do NOT repeat any of them or a close variant. They were:\n'
    for i,x in enumerate(prev): s+=' (%d) "%s"\n'%(i+1,x)
    s+='Choose a different mechanism, in a different function or file among (or near) the anchored ones, or a different clause of the property statement / a different part of its quantifier (read `quantifier.text`: each item listed there is a dimension in which the breakage may hide). Regressions that only show after a sequence of several operations, in a rarely used configuration, or through the interaction of two components are especially welcome.\n'
s+='You have about 90 minutes; deliver something verified rather than something ambitious.\n'
open(out+'/prompt.txt','w').write(s)
print(out+'/prompt.txt')
