#!/bin/bash
# usage: seedverify_auto.sh <seeded dir>...   (package and test regex are read from meta.json's demo text)
for d in "$@"; do
  read pkg run < <(python3 - "$d" <<'PY'
import json,re,sys
m=json.load(open(sys.argv[1]+'/meta.json'))
t=json.dumps(m)
r=re.search(r'-run[ =]+[\'"\\]*([A-Za-z0-9_^$|.]+)',t)
p=re.search(r'\s\./((?:[a-z0-9_]+/?)+)',t)
print((p.group(1).rstrip('/') if p else '?'),(r.group(1) if r else '?'))
PY
)
  echo "== $d pkg=$pkg run=$run"
  /verif/scripts/seedverify.sh $d $pkg "$run" 2>&1 | tail -1
done
