#!/bin/bash
# usage: seedverify.sh <seeded dir> <package dir relative to rolling-shutter> <go test -run regex>
# Confirms, in a scratch worktree: the patch applies and builds, the repository's test
# suite passes with it, the demonstration FAILS with it and PASSES without it.
set -u
D=$(readlink -f "$1"); PKG=$2; RUN=$3
. /verif/scripts/env.sh
WT=/tmp/wt-sv-$$
git -C /repo worktree add -q --detach $WT HEAD || exit 3
cd $WT/rolling-shutter
cp $D/*_test.go $PKG/ 2>/dev/null
echo "== demo WITHOUT the change (must pass)"
go test ${SEEDTAGS:-} -vet=off -count=1 -run "$RUN" ./$PKG/ 2>&1 | tail -3; A=${PIPESTATUS[0]}
git -C $WT apply $D/patch.diff || { echo "patch does not apply"; exit 4; }
echo "== build with the change"; go build ./... 2>&1 | tail -3
echo "== demo WITH the change (must fail)"
go test ${SEEDTAGS:-} -vet=off -count=1 -run "$RUN" ./$PKG/ 2>&1 | tail -4; B=${PIPESTATUS[0]}
rm -f $PKG/$(basename $(ls $D/*_test.go | head -1)); git -C $WT checkout -- rolling-shutter/go.mod rolling-shutter/go.sum 2>/dev/null
echo "== full test suite WITH the change (must pass)"
go test -vet=off -count=1 ./... 2>&1 | grep -v "no test files" | grep -v "^ok" | head -10; C=${PIPESTATUS[0]}
echo "RESULT $(basename $D): demo_without=$A demo_with=$B suite_with=$C  (want 0, non-zero, 0)"
cd /; git -C /repo worktree remove --force $WT
