#!/bin/bash
# MANIFEST.setup_cmd: build the framework offline and warm the Go build cache.
set -e
cd /verif
. scripts/env.sh
mkdir -p .bin .gen logs evidence replays
go build -o .bin/rewrite ./cmd/rewrite
.bin/rewrite -maporder app,keyper/shutterevents -vos app/app.go -out .gen/overlay-appcheck
go build -tags verif -overlay .gen/overlay-appcheck/overlay.json -o .bin/appcheck ./cmd/appcheck
go build -tags verif -o .bin/kprcheck ./cmd/kprcheck
go build -tags verif -o .bin/netcheck ./cmd/netcheck
go build -tags verif -o .bin/evcheck ./cmd/evcheck
.bin/rewrite -maporder keyper/kproapi -vos "" -yield keyper/kproapi,keyper/kprapi -out .gen/overlay-apicheck
go build -tags verif -overlay .gen/overlay-apicheck/overlay.json -o .bin/apicheck ./cmd/apicheck
go build -tags verif -o .bin/trigcheck ./cmd/trigcheck
go build -tags verif -o .bin/svccheck ./cmd/svccheck
.bin/rewrite -maporder keyperimpl/shutterservice -vos "" -out .gen/overlay-synccheck
go build -tags verif -overlay .gen/overlay-synccheck/overlay.json -o .bin/synccheck ./cmd/synccheck
go build -tags verif -o .bin/dkgcheck ./cmd/dkgcheck
echo setup ok
