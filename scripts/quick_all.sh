#!/bin/bash
# Runs the quick tier of every property once and logs exit code, wall time, exhaustiveness.
cd /verif
LOG=${1:-/tmp/quick_all.log}; : > $LOG
for id in ${IDS:-C01 C02 C03 C04 C05 C06 C07 C08 C09 C10 C11 C12 C13 C14 C15 C16 C17 C18 C19 C20}; do
  s=$(date +%s.%N); ./check.sh $id quick > /tmp/quick-$id.out 2>&1; rc=$?; e=$(date +%s.%N)
  printf "%s exit=%d wall=%.0fs %s\n" $id $rc $(echo "$e - $s" | bc) "$(tail -1 /tmp/quick-$id.out | cut -c1-160)" >> $LOG
done
echo DONE >> $LOG
