#!/bin/bash
# Runs the thorough tier of every claimed property, one after the other, and logs
# exit code and wall time (used to confirm budgets; not registered in MANIFEST).
cd /verif
LOG=${1:-/tmp/thorough_all.log}
: > $LOG
for id in ${IDS:-C01 C02 C03 C04 C05 C06 C07 C08 C09 C10 C11 C12 C13 C14 C15 C16 C17 C18 C19 C20}; do
  s=$(date +%s)
  ./check.sh $id thorough > /tmp/thorough-$id.out 2>&1; rc=$?
  e=$(date +%s)
  echo "$id exit=$rc wall=$((e-s))s $(grep -c '^VIOLATION' /tmp/thorough-$id.out) violations; $(tail -1 /tmp/thorough-$id.out)" >> $LOG
done
echo DONE >> $LOG
