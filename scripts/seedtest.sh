#!/bin/bash
# usage: seedtest.sh <ID> <patch.diff> [tier]
# Applies a seeded property-breaking patch in a scratch worktree of /repo (never in /repo
# itself) and runs the property's check against it. Prints the check's last lines.
set -u
ID=$1; PATCH=$(readlink -f "$2"); TIER=${3:-quick}
WT=/tmp/wt-seed-$$
git -C /repo worktree add -q --detach $WT HEAD || exit 3
if ! git -C $WT apply "$PATCH"; then echo "SEED-ERROR: patch does not apply"; git -C /repo worktree remove --force $WT; exit 4; fi
(cd $WT/rolling-shutter && . /verif/scripts/env.sh && go build ./... 2>&1 | tail -3)
VERIF_REPO=$WT VERIF_OUT=/tmp/out-seed-$$ /verif/check.sh $ID $TIER 2>&1 | cut -c1-600 | grep -v "^\s*$" | tail -${LINES_OUT:-6}
RC=${PIPESTATUS[0]}
TAG=$(echo -n "$WT" | md5sum | cut -c1-8)
git -C /repo worktree remove --force $WT; rm -rf /tmp/out-seed-$$ /verif/.gen/*-$TAG* /verif/.bin/*-$TAG
exit $RC
