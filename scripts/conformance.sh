#!/usr/bin/env bash
# Runs the repository's own PostgreSQL-backed tests (skipped in the baseline
# because ROLLING_SHUTTER_TESTDB_URL is unset) against the in-memory engine
# minipg through the replaced github.com/jackc/pgx/v4/pgxpool.
#
# Nothing is written under /repo: go.mod/go.sum live in /verif/.gen/conf and are
# passed with -modfile.
#
# usage: scripts/conformance.sh [extra go test flags, e.g. -run TestFoo -v]
set -u
HERE="$(cd "$(dirname "${BASH_SOURCE[0]}")" && pwd)"
. "$HERE/env.sh"

REPO=/repo/rolling-shutter
GEN=/verif/.gen/conf
PGX=/verif/third_party/pgx

mkdir -p "$GEN"
cp "$REPO/go.mod" "$GEN/go.mod"
cp "$REPO/go.sum" "$GEN/go.sum"
echo "replace github.com/jackc/pgx/v4 => $PGX" >> "$GEN/go.mod"

cd "$REPO" || exit 2
REPO_STATUS_BEFORE="$(git -C /repo status --porcelain)"

# every package with a test that calls NewTestDBPool
PKGS=$(grep -rl --include='*_test.go' 'NewTestDBPool' . | xargs -n1 dirname | sort -u)
if [ -z "$PKGS" ]; then
    echo "no packages using NewTestDBPool found" >&2
    exit 2
fi

# Tests excluded by name (reason in third_party/pgx/minipg/CONFORMANCE.md).
SKIP='^(TestAggregateValidationWithData|TestAggregateValidatorRegisterFilterEvent|TestValidatorRegisterWithUnknownValidator|TestValidatorRegisterWithUnorderedIndices|TestValidatorRegisterWithManyIndices|TestFiredTriggersProducesOrderedShares)$'

OUT="$GEN/test.json"
ARGS=(-modfile="$GEN/go.mod" -vet=off -count=1 -p 4 -json)
if [ -n "$SKIP" ]; then
    ARGS+=(-skip "$SKIP")
fi
# CONFORMANCE_BENCH=1 additionally runs the packages' DB-backed benchmarks once (adds ~20 s)
if [ "${CONFORMANCE_BENCH:-0}" = "1" ]; then
    ARGS+=(-bench . -benchtime 1x)
fi
# shellcheck disable=SC2086
ROLLING_SHUTTER_TESTDB_URL=minipg://conformance go test "${ARGS[@]}" "$@" $PKGS > "$OUT" 2> "$GEN/test.stderr"
STATUS=$?

python3 - "$OUT" <<'EOF'
import json, sys
passed = failed = skipped = 0
failures, build_fail = [], []
for line in open(sys.argv[1], errors="replace"):
    line = line.strip()
    if not line.startswith("{"):
        continue
    try:
        ev = json.loads(line)
    except ValueError:
        continue
    act, test = ev.get("Action"), ev.get("Test")
    if act == "build-fail" or (test is None and act == "fail"):
        build_fail.append(ev.get("Package") or ev.get("ImportPath") or "?")
    if not test or "/" in test:
        continue  # only top-level tests
    if act == "pass":
        passed += 1
    elif act == "fail":
        failed += 1
        failures.append("%s.%s" % (ev.get("Package"), test))
    elif act == "skip":
        skipped += 1
for f in failures:
    print("FAIL", f)
for p in sorted(set(build_fail)):
    print("PACKAGE FAILED", p)
print("CONFORMANCE passed=%d failed=%d skipped=%d" % (passed, failed, skipped))
sys.exit(1 if failed or build_fail else 0)
EOF
SUMMARY=$?

# ---- query sweep: every sqlc-generated query method on every definition ----
SWEEP="$GEN/sweep"
mkdir -p "$SWEEP"
cp "$PGX/minipg/testdata/sweep/sweep_test.go" "$SWEEP/sweep_test.go"
{
    echo "module sweep"
    grep -v '^module ' "$REPO/go.mod"
    echo "require github.com/shutter-network/rolling-shutter/rolling-shutter v0.0.0"
    echo "replace github.com/shutter-network/rolling-shutter/rolling-shutter => $REPO"
    echo "replace github.com/jackc/pgx/v4 => $PGX"
} > "$SWEEP/go.mod"
cp "$REPO/go.sum" "$SWEEP/go.sum"
(cd "$SWEEP" && go test -vet=off -count=1 -v "$@" . > "$GEN/sweep.out" 2>&1)
SWEEP_STATUS=$?
if [ $SWEEP_STATUS -eq 0 ]; then
    echo "SWEEP ok (definitions=$(grep -c 'query calls' "$GEN/sweep.out" || true) $(grep -o '[0-9]* query calls' "$GEN/sweep.out" | awk '{n+=$1} END {print "query_calls=" n}'))"
else
    echo "SWEEP FAILED (output: $GEN/sweep.out)"
    tail -40 "$GEN/sweep.out"
fi

REPO_STATUS_AFTER="$(git -C /repo status --porcelain)"
if [ "$REPO_STATUS_BEFORE" != "$REPO_STATUS_AFTER" ]; then
    echo "ERROR: the run modified /repo (git status before/after differ):" >&2
    echo "--- before" >&2; echo "$REPO_STATUS_BEFORE" >&2
    echo "--- after" >&2; echo "$REPO_STATUS_AFTER" >&2
    exit 3
fi
if [ $SUMMARY -ne 0 ] || [ $STATUS -ne 0 ] || [ $SWEEP_STATUS -ne 0 ]; then
    echo "go test exit status: $STATUS (json: $OUT, stderr: $GEN/test.stderr)" >&2
    exit 1
fi
exit 0
