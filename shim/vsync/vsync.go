// Package vsync stands in for "sync" in packages instrumented for the
// cooperative scheduler (cmd/rewrite -yield): Mutex, RWMutex and Once block
// through sched.Block while an exploration is active, so that a thread waiting
// for a lock is simply not enabled (and a cycle shows up as a deadlock instead
// of hanging the process). Outside an exploration they behave like the real
// ones. The remaining types are the real ones.
package vsync

import (
	"sync"

	"verif/sched"
)

type (
	WaitGroup = sync.WaitGroup
	Map       = sync.Map
	Pool      = sync.Pool
	Cond      = sync.Cond
	Locker    = sync.Locker
)

func NewCond(l Locker) *Cond { return sync.NewCond(l) }

// Mutex: held is only touched by the thread that runs (one at a time under the
// scheduler) or under real.
type Mutex struct {
	real sync.Mutex
	held bool
}

func (m *Mutex) Lock() {
	if sched.Active() {
		for m.held {
			sched.Block(func() bool { return !m.held })
		}
		m.held = true
		return
	}
	m.real.Lock()
	m.held = true
}

func (m *Mutex) TryLock() bool {
	if sched.Active() {
		if m.held {
			return false
		}
		m.held = true
		return true
	}
	if m.real.TryLock() {
		m.held = true
		return true
	}
	return false
}

func (m *Mutex) Unlock() {
	if sched.Active() {
		if !m.held {
			panic("sync: unlock of unlocked mutex")
		}
		m.held = false
		return
	}
	m.held = false
	m.real.Unlock()
}

type RWMutex struct {
	real    sync.RWMutex
	writer  bool
	readers int
}

func (m *RWMutex) Lock() {
	if sched.Active() {
		for m.writer || m.readers > 0 {
			sched.Block(func() bool { return !m.writer && m.readers == 0 })
		}
		m.writer = true
		return
	}
	m.real.Lock()
}

func (m *RWMutex) Unlock() {
	if sched.Active() {
		m.writer = false
		return
	}
	m.real.Unlock()
}

func (m *RWMutex) RLock() {
	if sched.Active() {
		for m.writer {
			sched.Block(func() bool { return !m.writer })
		}
		m.readers++
		return
	}
	m.real.RLock()
}

func (m *RWMutex) RUnlock() {
	if sched.Active() {
		m.readers--
		return
	}
	m.real.RUnlock()
}

func (m *RWMutex) RLocker() Locker { return (*rlocker)(m) }

type rlocker RWMutex

func (r *rlocker) Lock()   { (*RWMutex)(r).RLock() }
func (r *rlocker) Unlock() { (*RWMutex)(r).RUnlock() }

// Once runs f once; a second caller waits until the first has finished.
type Once struct {
	mu      sync.Mutex
	done    bool
	running bool
}

func (o *Once) Do(f func()) {
	if sched.Active() {
		for o.running {
			sched.Block(func() bool { return !o.running })
		}
		if o.done {
			return
		}
		o.running = true
		defer func() { o.done, o.running = true, false }()
		f()
		return
	}
	o.mu.Lock()
	defer o.mu.Unlock()
	if !o.done {
		defer func() { o.done = true }()
		f()
	}
}

func OnceFunc(f func()) func() {
	var o Once
	return func() { o.Do(f) }
}
