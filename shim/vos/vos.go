// Package vos is an in-memory stand-in for the handful of package os functions
// that app/app.go uses to persist and load the application state. cmd/rewrite
// points app.go's "os" import here. The file system records every write, sync
// and rename so that a check can enumerate every crash point and every
// admissible post-crash state:
//
//   - file content after a crash is any prefix between the last synced length
//     and the written length (page-cache loss; all prefixes are enumerated by
//     the check, not sampled);
//   - a rename is atomic; it is durable in the order issued (directory
//     operations are not reordered across each other).
//
// A crash is injected by panicking with Crash{} from the Hook.
package vos

import (
	"errors"
	"io"
	"io/fs"
	"time"
)

// Crash is the panic value used to simulate a process crash.
type Crash struct{ At int }

// Event describes one file-system operation about to be executed.
type Event struct {
	Seq  int
	Op   string // create, write, sync, close, rename, open
	Path string
	Len  int // bytes for write
}

type node struct {
	data   []byte
	synced int // length known durable
}

// FS is the in-memory file system.
type FS struct {
	files map[string]*node
	Seq   int
	Log   []Event
	// Hook is called before each operation; it may panic(Crash{}). For writes
	// it returns how many bytes of the write reach the file before the crash
	// (-1 = all, no crash).
	Hook func(e Event) (partial int)
	// Dead is set when a crash fired: the process is gone, so operations issued
	// afterwards (deferred calls that run while the panic unwinds) have no effect.
	Dead bool
}

// Cur is the file system all package-level functions operate on.
var Cur = New()

func New() *FS { return &FS{files: map[string]*node{}} }

// Clone copies the file system state (not the hook or log).
func (f *FS) Clone() *FS {
	n := New()
	for k, v := range f.files {
		n.files[k] = &node{data: append([]byte(nil), v.data...), synced: v.synced}
	}
	return n
}

// Paths lists existing files.
func (f *FS) Paths() []string {
	var out []string
	for k := range f.files {
		out = append(out, k)
	}
	return out
}

// Content returns a file's bytes and durable length.
func (f *FS) Content(path string) (data []byte, synced int, ok bool) {
	n, ok := f.files[path]
	if !ok {
		return nil, 0, false
	}
	return n.data, n.synced, true
}

// SetContent force-sets a file (used to build post-crash states).
func (f *FS) SetContent(path string, data []byte) {
	f.files[path] = &node{data: append([]byte(nil), data...), synced: len(data)}
}

// Remove deletes a file.
func (f *FS) Remove(path string) { delete(f.files, path) }

func (f *FS) event(op, path string, n int) int {
	if f.Dead {
		panic(Crash{At: -1})
	}
	e := Event{Seq: f.Seq, Op: op, Path: path, Len: n}
	f.Seq++
	f.Log = append(f.Log, e)
	if f.Hook != nil {
		defer func() {
			if p := recover(); p != nil {
				f.Dead = true
				panic(p)
			}
		}()
		return f.Hook(e)
	}
	return -1
}

// File is an open file.
type File struct {
	fs   *FS
	path string
	n    *node
	pos  int
	wr   bool
	shut bool
}

var ErrNotExist = fs.ErrNotExist

func Open(path string) (*File, error) {
	Cur.event("open", path, 0)
	n, ok := Cur.files[path]
	if !ok {
		return nil, &fs.PathError{Op: "open", Path: path, Err: fs.ErrNotExist}
	}
	return &File{fs: Cur, path: path, n: n}, nil
}

func Create(path string) (*File, error) {
	Cur.event("create", path, 0)
	n := &node{}
	Cur.files[path] = n
	return &File{fs: Cur, path: path, n: n, wr: true}, nil
}

func Rename(oldpath, newpath string) error {
	Cur.event("rename", oldpath+" -> "+newpath, 0)
	n, ok := Cur.files[oldpath]
	if !ok {
		return &fs.PathError{Op: "rename", Path: oldpath, Err: fs.ErrNotExist}
	}
	delete(Cur.files, oldpath)
	Cur.files[newpath] = n
	return nil
}

func IsNotExist(err error) bool { return errors.Is(err, fs.ErrNotExist) }

func (f *File) Write(p []byte) (int, error) {
	if f.shut || !f.wr {
		return 0, fs.ErrClosed
	}
	partial := f.fs.event("write", f.path, len(p))
	if partial >= 0 && partial <= len(p) {
		f.n.data = append(f.n.data, p[:partial]...)
		f.fs.Dead = true
		panic(Crash{At: f.fs.Seq - 1})
	}
	f.n.data = append(f.n.data, p...)
	return len(p), nil
}

func (f *File) Read(p []byte) (int, error) {
	if f.shut {
		return 0, fs.ErrClosed
	}
	if f.pos >= len(f.n.data) {
		return 0, io.EOF
	}
	n := copy(p, f.n.data[f.pos:])
	f.pos += n
	return n, nil
}

func (f *File) Sync() error {
	f.fs.event("sync", f.path, 0)
	f.n.synced = len(f.n.data)
	return nil
}

func (f *File) Close() error {
	f.fs.event("close", f.path, 0)
	f.shut = true
	return nil
}

// ---- further package os functions a changed app.go may reach for ----

// Remove deletes a file; like a rename it is atomic and durable in issue order.
func Remove(path string) error {
	Cur.event("remove", path, 0)
	if _, ok := Cur.files[path]; !ok {
		return &fs.PathError{Op: "remove", Path: path, Err: fs.ErrNotExist}
	}
	delete(Cur.files, path)
	return nil
}

// ReadFile returns the whole content of a file.
func ReadFile(path string) ([]byte, error) {
	f, err := Open(path)
	if err != nil {
		return nil, err
	}
	defer f.Close()
	return append([]byte{}, f.n.data...), nil
}

// WriteFile creates the file and writes data in one write (no sync, as os.WriteFile).
func WriteFile(path string, data []byte, _ fs.FileMode) error {
	f, err := Create(path)
	if err != nil {
		return err
	}
	if _, err := f.Write(data); err != nil {
		return err
	}
	return f.Close()
}

// MkdirAll: directories are implicit.
func MkdirAll(string, fs.FileMode) error { return nil }

type fileInfo struct {
	name string
	size int64
}

func (i fileInfo) Name() string       { return i.name }
func (i fileInfo) Size() int64        { return i.size }
func (i fileInfo) Mode() fs.FileMode  { return 0o644 }
func (i fileInfo) ModTime() time.Time { return time.Time{} }
func (i fileInfo) IsDir() bool        { return false }
func (i fileInfo) Sys() any           { return nil }

// Stat reports name and size of an existing file.
func Stat(path string) (fs.FileInfo, error) {
	Cur.event("stat", path, 0)
	n, ok := Cur.files[path]
	if !ok {
		return nil, &fs.PathError{Op: "stat", Path: path, Err: fs.ErrNotExist}
	}
	return fileInfo{name: path, size: int64(len(n.data))}, nil
}

// FileMode and friends, so that signatures written against package os compile.
type FileMode = fs.FileMode
type FileInfo = fs.FileInfo

var ErrExist = fs.ErrExist
