// Package maporder is the seam through which the explorer owns Go's map
// iteration order. cmd/rewrite turns every `for k, v := range m` over a map in
// the selected repository packages into a loop over maporder.Keys(m).
//
// With no chooser installed the keys come back in canonical sorted order. With a
// chooser, every permutation of the keys can be selected (Lehmer code: one
// choice point per position), which over-approximates whatever order the Go
// runtime could produce.
package maporder

import (
	"fmt"
	"sort"

	"verif/canon"
)

// Chooser, when non-nil, picks alternative [0,n) at a map-order choice point.
var Chooser func(n int, label string) int

// Ranges counts range statements executed over maps with >= 2 keys.
var Ranges int64

// Keys returns the keys of m in the order chosen by the explorer.
func Keys[K comparable, V any](m map[K]V) []K {
	keys := make([]K, 0, len(m))
	for k := range m {
		keys = append(keys, k)
	}
	if len(keys) < 2 {
		return keys
	}
	strs := make(map[any]string, len(keys))
	for _, k := range keys {
		strs[k] = canon.Dump(k, nil)
	}
	sort.Slice(keys, func(i, j int) bool { return strs[keys[i]] < strs[keys[j]] })
	Ranges++
	if Chooser == nil {
		return keys
	}
	out := make([]K, 0, len(keys))
	rest := keys
	for len(rest) > 1 {
		c := Chooser(len(rest), fmt.Sprintf("maporder[%d]", len(out)))
		out = append(out, rest[c])
		nr := make([]K, 0, len(rest)-1)
		nr = append(nr, rest[:c]...)
		nr = append(nr, rest[c+1:]...)
		rest = nr
	}
	return append(out, rest[0])
}
