package kpx

import (
	"github.com/shutter-network/rolling-shutter/rolling-shutter/keyperimpl/gnosis/gnosisssztypes"
	"github.com/shutter-network/rolling-shutter/rolling-shutter/keyperimpl/shutterservice/serviceztypes"
	"github.com/shutter-network/rolling-shutter/rolling-shutter/medley/identitypreimage"
)

// SignGnosis is participant p's slot decryption signature.
func SignGnosis(p int, eon, slot, ptr uint64, ids []identitypreimage.IdentityPreimage) []byte {
	d, err := gnosisssztypes.NewSlotDecryptionSignatureData(InstanceID, eon, slot, ptr, ids)
	must(err)
	s, err := d.ComputeSignature(Key(p))
	must(err)
	return s
}

// SignService is participant p's decryption signature of the service flavour.
func SignService(p int, eon uint64, ids []identitypreimage.IdentityPreimage) []byte {
	d, err := serviceztypes.NewDecryptionSignatureData(InstanceID, eon, ids)
	must(err)
	s, err := d.ComputeSignature(Key(p))
	must(err)
	return s
}
