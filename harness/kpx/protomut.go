package kpx

import (
	"bytes"
	"fmt"
	"math"

	"google.golang.org/protobuf/proto"
	"google.golang.org/protobuf/reflect/protoreflect"
)

// ProtoMutation is one structure-aware mutation of a protobuf message.
type ProtoMutation struct {
	Name  string
	Path  string // the field it touches (two mutations with the same path are not combined)
	Apply func(m proto.Message)
}

// ProtoMutations enumerates, generically by reflection, every single-field
// mutation of m from small pools per field kind: integers {0, +1, -1, 2^31,
// 2^32, 2^63, 2^64-1}; bytes {empty, -1 byte, +1 byte, 0xff.., 64, 65, 66
// bytes, another field's value}; strings {"", "0x", not hex, hex of 1/64/65/66
// bytes}; lists {empty, drop last, duplicate last, swap first two, grow to
// n+1 / n+2 entries}; oneofs {unset, other alternative}; nested messages
// {cleared} and recursion into nested messages and list elements (first and
// last element).
func ProtoMutations(m proto.Message) []ProtoMutation {
	var out []ProtoMutation
	walk(m.ProtoReflect(), nil, "", &out, 0)
	return out
}

type step struct {
	fd  protoreflect.FieldDescriptor
	idx int // list index, -1 if not a list element
}

func resolve(root protoreflect.Message, path []step) protoreflect.Message {
	cur := root
	for _, s := range path {
		if s.idx >= 0 {
			cur = cur.Mutable(s.fd).List().Get(s.idx).Message()
		} else {
			cur = cur.Mutable(s.fd).Message()
		}
	}
	return cur
}

func walk(msg protoreflect.Message, path []step, prefix string, out *[]ProtoMutation, depth int) {
	if depth > 4 {
		return
	}
	fields := msg.Descriptor().Fields()
	for i := 0; i < fields.Len(); i++ {
		fd := fields.Get(i)
		name := prefix + string(fd.Name())
		p := append([]step{}, path...)
		add := func(what string, f func(m protoreflect.Message)) {
			*out = append(*out, ProtoMutation{Name: name + ": " + what, Path: name, Apply: func(pm proto.Message) {
				f(resolve(pm.ProtoReflect(), p))
			}})
		}
		switch {
		case fd.IsList():
			n := msg.Get(fd).List().Len()
			add("list emptied", func(m protoreflect.Message) { m.Clear(fd) })
			if n > 0 {
				add("last element dropped", func(m protoreflect.Message) { l := m.Mutable(fd).List(); l.Truncate(l.Len() - 1) })
				add("last element duplicated", func(m protoreflect.Message) {
					l := m.Mutable(fd).List()
					l.Append(cloneValue(fd, l.Get(l.Len()-1)))
				})
				add("grown by 3 copies of the first element", func(m protoreflect.Message) {
					l := m.Mutable(fd).List()
					for k := 0; k < 3; k++ {
						l.Append(cloneValue(fd, l.Get(0)))
					}
				})
			}
			if n > 1 {
				add("first two swapped", func(m protoreflect.Message) {
					l := m.Mutable(fd).List()
					a, b := cloneValue(fd, l.Get(0)), cloneValue(fd, l.Get(1))
					l.Set(0, b)
					l.Set(1, a)
				})
			}
			if n == 0 {
				add("one default element added", func(m protoreflect.Message) {
					l := m.Mutable(fd).List()
					l.Append(l.NewElement())
				})
			}
			// element mutations (first and last)
			for _, idx := range uniq(0, n-1) {
				if idx < 0 || idx >= n {
					continue
				}
				idx := idx
				el := fmt.Sprintf("%s[%d]", name, idx)
				if fd.Kind() == protoreflect.MessageKind {
					walk(msg.Get(fd).List().Get(idx).Message(), append(p, step{fd, idx}), el+".", out, depth+1)
					continue
				}
				for _, sv := range scalarPool(fd, msg.Get(fd).List().Get(idx)) {
					sv := sv
					*out = append(*out, ProtoMutation{Name: el + ": " + sv.what, Path: el, Apply: func(pm proto.Message) {
						resolve(pm.ProtoReflect(), p).Mutable(fd).List().Set(idx, sv.v)
					}})
				}
			}
		case fd.Kind() == protoreflect.MessageKind:
			if msg.Has(fd) {
				add("cleared", func(m protoreflect.Message) { m.Clear(fd) })
				walk(msg.Get(fd).Message(), append(p, step{fd, -1}), name+".", out, depth+1)
			} else {
				add("set to empty message", func(m protoreflect.Message) { m.Set(fd, m.NewField(fd)) })
			}
		default:
			for _, sv := range scalarPool(fd, msg.Get(fd)) {
				sv := sv
				add(sv.what, func(m protoreflect.Message) { m.Set(fd, sv.v) })
			}
		}
	}
}

func uniq(a, b int) []int {
	if a == b {
		return []int{a}
	}
	return []int{a, b}
}

func cloneValue(fd protoreflect.FieldDescriptor, v protoreflect.Value) protoreflect.Value {
	switch fd.Kind() {
	case protoreflect.MessageKind:
		return protoreflect.ValueOfMessage(proto.Clone(v.Message().Interface()).ProtoReflect())
	case protoreflect.BytesKind:
		return protoreflect.ValueOfBytes(append([]byte{}, v.Bytes()...))
	}
	return v
}

type scalarAlt struct {
	what string
	v    protoreflect.Value
}

func scalarPool(fd protoreflect.FieldDescriptor, cur protoreflect.Value) []scalarAlt {
	var out []scalarAlt
	switch fd.Kind() {
	case protoreflect.Uint64Kind, protoreflect.Fixed64Kind:
		c := cur.Uint()
		for _, x := range []uint64{0, c + 1, c - 1, 1 << 31, 1 << 32, math.MaxInt64, 1 << 63, math.MaxUint64} {
			if x != c {
				out = append(out, scalarAlt{fmt.Sprintf("=%d", x), protoreflect.ValueOfUint64(x)})
			}
		}
	case protoreflect.Int64Kind, protoreflect.Sint64Kind, protoreflect.Sfixed64Kind:
		c := cur.Int()
		for _, x := range []int64{0, c + 1, -1, math.MinInt64, math.MaxInt64, 1 << 32} {
			if x != c {
				out = append(out, scalarAlt{fmt.Sprintf("=%d", x), protoreflect.ValueOfInt64(x)})
			}
		}
	case protoreflect.Uint32Kind, protoreflect.Fixed32Kind:
		c := uint32(cur.Uint())
		for _, x := range []uint32{0, c + 1, math.MaxUint32} {
			if x != c {
				out = append(out, scalarAlt{fmt.Sprintf("=%d", x), protoreflect.ValueOfUint32(x)})
			}
		}
	case protoreflect.Int32Kind, protoreflect.Sint32Kind, protoreflect.Sfixed32Kind, protoreflect.EnumKind:
		// not used by the gossip messages
	case protoreflect.BoolKind:
		out = append(out, scalarAlt{"flipped", protoreflect.ValueOfBool(!cur.Bool())})
	case protoreflect.BytesKind:
		c := cur.Bytes()
		alts := map[string][]byte{
			"empty":            {},
			"0xff same length": bytes.Repeat([]byte{0xff}, len(c)),
			"0x00 same length": make([]byte, len(c)),
			"64 bytes":         bytes.Repeat([]byte{0x11}, 64),
			"65 bytes":         bytes.Repeat([]byte{0x11}, 65),
			"66 bytes":         bytes.Repeat([]byte{0x11}, 66),
			"1 byte":           {0x01},
			"4 KiB":            bytes.Repeat([]byte{0x5a}, 4096),
		}
		if len(c) > 0 {
			alts["last byte dropped"] = append([]byte{}, c[:len(c)-1]...)
			alts["one byte appended"] = append(append([]byte{}, c...), 0)
			flipped := append([]byte{}, c...)
			flipped[0] ^= 0x80
			alts["first bit flipped"] = flipped
			fl := append([]byte{}, c...)
			fl[len(fl)-1] ^= 1
			alts["last bit flipped"] = fl
		}
		for _, k := range sortedKeys(alts) {
			if !bytes.Equal(alts[k], c) {
				out = append(out, scalarAlt{k, protoreflect.ValueOfBytes(alts[k])})
			}
		}
	case protoreflect.StringKind:
		c := cur.String()
		hexOf := func(n int) string { return fmt.Sprintf("0x%x", bytes.Repeat([]byte{0x22}, n)) }
		for _, x := range []string{"", "0x", "zz", "0xzz", hexOf(1), hexOf(32), hexOf(64), hexOf(65), hexOf(66), c + "0", "é"} {
			if x != c {
				out = append(out, scalarAlt{fmt.Sprintf("=%q", trunc(x)), protoreflect.ValueOfString(x)})
			}
		}
		if len(c) > 1 {
			out = append(out, scalarAlt{"last char dropped", protoreflect.ValueOfString(c[:len(c)-1])})
		}
		// every string of length <= 2 over the characters a hex / decimal parser treats
		// specially, and the short prefixes of the current value
		short := map[string]bool{"": true, "0x": true, "zz": true}
		chars := []string{"0", "x", "X", "a", "-", "+", " ", "."}
		var cands []string
		for _, a := range chars {
			cands = append(cands, a)
			for _, b := range chars {
				cands = append(cands, a+b)
			}
		}
		for k := 1; k <= 3 && k < len(c); k++ {
			cands = append(cands, c[:k])
		}
		for _, x := range cands {
			if !short[x] && x != c {
				short[x] = true
				out = append(out, scalarAlt{fmt.Sprintf("=%q", x), protoreflect.ValueOfString(x)})
			}
		}
	}
	return out
}

func trunc(s string) string {
	if len(s) > 12 {
		return s[:12] + "…"
	}
	return s
}

func sortedKeys(m map[string][]byte) []string {
	var ks []string
	for k := range m {
		ks = append(ks, k)
	}
	for i := 1; i < len(ks); i++ {
		for j := i; j > 0 && ks[j] < ks[j-1]; j-- {
			ks[j], ks[j-1] = ks[j-1], ks[j]
		}
	}
	return ks
}
