// Package kpx closes the environment of the keyper-side code for the
// explorers: deterministic randomness, eon key sets with a known master secret,
// keyper databases on minipg with template cloning, and a capturing Messaging.
package kpx

import (
	"context"
	"crypto/ecdsa"
	"crypto/rand"
	"crypto/sha256"
	"database/sql"
	"encoding/binary"
	"fmt"
	"math/big"
	"sync"

	"github.com/ethereum/go-ethereum/common"
	ethcrypto "github.com/ethereum/go-ethereum/crypto"
	"github.com/jackc/pgx/v4/minipg"
	"github.com/jackc/pgx/v4/pgxpool"
	"github.com/rs/zerolog"

	"github.com/shutter-network/shutter/shlib/puredkg"
	"github.com/shutter-network/shutter/shlib/shcrypto"

	obskeyper "github.com/shutter-network/rolling-shutter/rolling-shutter/chainobserver/db/keyper"
	kprdb "github.com/shutter-network/rolling-shutter/rolling-shutter/keyper/database"
	"github.com/shutter-network/rolling-shutter/rolling-shutter/medley/db"
	"github.com/shutter-network/rolling-shutter/rolling-shutter/medley/retry"
	"github.com/shutter-network/rolling-shutter/rolling-shutter/p2p"
	"github.com/shutter-network/rolling-shutter/rolling-shutter/p2pmsg"
	"github.com/shutter-network/rolling-shutter/rolling-shutter/shdb"
)

func init() {
	zerolog.SetGlobalLevel(zerolog.Disabled)
}

// ---------- deterministic randomness ----------

type detReader struct {
	mu   sync.Mutex
	seed [32]byte
	ctr  uint64
	buf  []byte
}

func (d *detReader) Read(p []byte) (int, error) {
	d.mu.Lock()
	defer d.mu.Unlock()
	n := 0
	for n < len(p) {
		if len(d.buf) == 0 {
			var c [8]byte
			binary.BigEndian.PutUint64(c[:], d.ctr)
			d.ctr++
			h := sha256.Sum256(append(d.seed[:], c[:]...))
			d.buf = h[:]
		}
		k := copy(p[n:], d.buf)
		d.buf = d.buf[k:]
		n += k
	}
	return n, nil
}

// SeedRand replaces crypto/rand.Reader by a deterministic stream.
func SeedRand(seed string) {
	rand.Reader = &detReader{seed: sha256.Sum256([]byte(seed))}
}

// NewReader returns an independent deterministic stream.
func NewReader(seed string) *detReader { return &detReader{seed: sha256.Sum256([]byte(seed))} }

// ---------- participants ----------

// Key returns the i-th deterministic ECDSA key.
func Key(i int) *ecdsa.PrivateKey {
	h := sha256.Sum256([]byte(fmt.Sprintf("verif-keyper-key-%d", i)))
	k, err := ethcrypto.ToECDSA(h[:])
	if err != nil {
		panic(err)
	}
	return k
}

func Addr(i int) common.Address { return ethcrypto.PubkeyToAddress(Key(i).PublicKey) }

func Addrs(idx ...int) []common.Address {
	out := make([]common.Address, len(idx))
	for i, x := range idx {
		out[i] = Addr(x)
	}
	return out
}

// ---------- eon key sets ----------

// EonSet is a complete eon key set with known polynomials.
type EonSet struct {
	N, T      int
	Polys     []*shcrypto.Polynomial
	Gammas    []*shcrypto.Gammas
	PublicKey *shcrypto.EonPublicKey
	PubShares []*shcrypto.EonPublicKeyShare
	SecShares []*shcrypto.EonSecretKeyShare
	Master    *big.Int // sum of the constant terms: the eon secret key

	mu         sync.Mutex
	shareCache map[string]*shcrypto.EpochSecretKeyShare
	keyCache   map[string]*shcrypto.EpochSecretKey
}

var (
	eonSetCache = map[string]*EonSet{}
	eonSetMu    sync.Mutex
)

// NewEonSet builds (and caches) the key set for (n, t, seed).
func NewEonSet(n, t int, seed string) *EonSet {
	key := fmt.Sprintf("%d/%d/%s", n, t, seed)
	eonSetMu.Lock()
	defer eonSetMu.Unlock()
	if e, ok := eonSetCache[key]; ok {
		return e
	}
	r := NewReader("eonset-" + key)
	e := &EonSet{N: n, T: t, Master: new(big.Int)}
	for i := 0; i < n; i++ {
		p, err := shcrypto.RandomPolynomial(r, uint64(t-1))
		if err != nil {
			panic(err)
		}
		e.Polys = append(e.Polys, p)
		e.Gammas = append(e.Gammas, p.Gammas())
		e.Master.Add(e.Master, (*p)[0])
	}
	e.Master.Mod(e.Master, order)
	e.PublicKey = shcrypto.ComputeEonPublicKey(e.Gammas)
	for i := 0; i < n; i++ {
		var vs []*big.Int
		for j := 0; j < n; j++ {
			vs = append(vs, e.Polys[j].EvalForKeyper(i))
		}
		e.SecShares = append(e.SecShares, shcrypto.ComputeEonSecretKeyShare(vs))
		e.PubShares = append(e.PubShares, shcrypto.ComputeEonPublicKeyShare(i, e.Gammas))
	}
	eonSetCache[key] = e
	return e
}

var order, _ = new(big.Int).SetString("73eda753299d7d483339d80809a1d80553bda402fffe5bfeffffffff00000001", 16)

// Result is the DKG result keyper k would hold.
func (e *EonSet) Result(eon uint64, k int) *puredkg.Result {
	return &puredkg.Result{
		Eon: eon, NumKeypers: uint64(e.N), Threshold: uint64(e.T), Keyper: uint64(k),
		SecretKeyShare: e.SecShares[k], PublicKey: e.PublicKey, PublicKeyShares: e.PubShares,
	}
}

// Share is keyper k's epoch secret key share for the identity (cached).
func (e *EonSet) Share(k int, id []byte) *shcrypto.EpochSecretKeyShare {
	ck := fmt.Sprintf("%d|%x", k, id)
	e.mu.Lock()
	defer e.mu.Unlock()
	if e.shareCache == nil {
		e.shareCache = map[string]*shcrypto.EpochSecretKeyShare{}
	}
	if s, ok := e.shareCache[ck]; ok {
		return s
	}
	s := shcrypto.ComputeEpochSecretKeyShare(e.SecShares[k], shcrypto.ComputeEpochID(id))
	e.shareCache[ck] = s
	return s
}

// Key is the epoch secret key computed directly from the master secret
// (master * H1(identity)), independent of any share interpolation.
func (e *EonSet) Key(id []byte) *shcrypto.EpochSecretKey {
	e.mu.Lock()
	defer e.mu.Unlock()
	if e.keyCache == nil {
		e.keyCache = map[string]*shcrypto.EpochSecretKey{}
	}
	if k, ok := e.keyCache[string(id)]; ok {
		return k
	}
	k := e.key(id)
	e.keyCache[string(id)] = k
	return k
}

func (e *EonSet) key(id []byte) *shcrypto.EpochSecretKey {
	s := shcrypto.EonSecretKeyShare(*new(big.Int).Set(e.Master))
	sh := shcrypto.ComputeEpochSecretKeyShare(&s, shcrypto.ComputeEpochID(id))
	return (*shcrypto.EpochSecretKey)(sh)
}

// ---------- databases ----------

var (
	tmplMu sync.Mutex
	tmpls  = map[string]*minipg.DB{}
	poolN  int
)

// NewPool returns a pool on a fresh database that has the given definition
// installed with the repository's own db.InitDB (schemas + migrations). The
// initialised database is cached as a template and cloned.
func NewPool(def db.Definition) *pgxpool.Pool {
	tmplMu.Lock()
	defer tmplMu.Unlock()
	t, ok := tmpls[def.Name()]
	if !ok {
		name := "tmpl-" + def.Name()
		minipg.Drop(name)
		pool, err := pgxpool.Connect(context.Background(), "minipg://"+name)
		if err != nil {
			panic(err)
		}
		if err := db.InitDB(context.Background(), pool, def.Name()+"-verif", def); err != nil {
			panic(fmt.Sprintf("InitDB(%s): %v", def.Name(), err))
		}
		t = pool.DB()
		tmpls[def.Name()] = t
	}
	poolN++
	return pgxpool.NewWithDB(fmt.Sprintf("verif-%d", poolN), t.Clone())
}

// EonState is the stage a keyper set's key generation is in, in one database.
type EonState int

const (
	NoConfig         EonState = iota // no batch config row: receiver knows nothing about the set
	ConfigOnly                       // batch config known, no eon started
	Started                          // eon started, no DKG result
	Failed                           // DKG result with success=false
	Success                          // DKG result with success=true
	Restarted                        // a first eon failed, a second eon was started and has no result yet
	RestartedSuccess                 // a first eon failed, the second succeeded
)

func (s EonState) String() string {
	return [...]string{"no-config", "config-only", "started", "failed", "success", "restarted-no-result", "restarted-success"}[s]
}

// InstallEon writes keyper-set `cfgIndex` with the given members/threshold and
// the eon rows for `state` into a keyper database, using the same sqlc queries
// the DKG driver uses. The first eon of the set gets number firstEon, a
// restarted one firstEon+1. result is the DKG result stored for a success.
func InstallEon(pool *pgxpool.Pool, cfgIndex int64, members []common.Address, threshold int, activation int64, firstEon int64, state EonState, result *puredkg.Result) {
	ctx := context.Background()
	q := kprdb.New(pool)
	if state == NoConfig {
		return
	}
	must(q.InsertBatchConfig(ctx, kprdb.InsertBatchConfigParams{
		KeyperConfigIndex: int32(cfgIndex), Height: 1, Keypers: shdb.EncodeAddresses(members), Threshold: int32(threshold),
		Started: true, ActivationBlockNumber: activation,
	}))
	// the chain observer's keyper set table is what flavour handlers consult
	must(obskeyper.New(pool).InsertKeyperSet(ctx, obskeyper.InsertKeyperSetParams{
		KeyperConfigIndex: cfgIndex, ActivationBlockNumber: activation, Keypers: shdb.EncodeAddresses(members), Threshold: int32(threshold),
	}))
	if state == ConfigOnly {
		return
	}
	must(q.InsertEon(ctx, kprdb.InsertEonParams{Eon: firstEon, Height: 2, ActivationBlockNumber: activation, KeyperConfigIndex: cfgIndex}))
	encode := func(eon int64) []byte {
		r := *result
		r.Eon = uint64(eon)
		b, err := shdb.EncodePureDKGResult(&r)
		must(err)
		return b
	}
	switch state {
	case Started:
	case Failed:
		must(q.InsertDKGResult(ctx, kprdb.InsertDKGResultParams{Eon: firstEon, Success: false, Error: sql.NullString{String: "dkg failed", Valid: true}}))
	case Success:
		must(q.InsertDKGResult(ctx, kprdb.InsertDKGResultParams{Eon: firstEon, Success: true, PureResult: encode(firstEon)}))
	case Restarted, RestartedSuccess:
		must(q.InsertDKGResult(ctx, kprdb.InsertDKGResultParams{Eon: firstEon, Success: false, Error: sql.NullString{String: "dkg failed", Valid: true}}))
		must(q.InsertEon(ctx, kprdb.InsertEonParams{Eon: firstEon + 1, Height: 9, ActivationBlockNumber: activation, KeyperConfigIndex: cfgIndex}))
		if state == RestartedSuccess {
			must(q.InsertDKGResult(ctx, kprdb.InsertDKGResultParams{Eon: firstEon + 1, Success: true, PureResult: encode(firstEon + 1)}))
		}
	}
}

func must(err error) {
	if err != nil {
		panic(err)
	}
}

// Must panics on error (harness-side setup only).
func Must(err error) { must(err) }

// ---------- messaging ----------

// Capture is a p2p.Messaging whose registries are the repository's real
// P2PMessaging (validators combined and dispatched by the real code) and whose
// SendMessage records instead of publishing.
type Capture struct {
	*p2p.P2PMessaging
	Sent []p2pmsg.Message
	// FailSend, if set, makes SendMessage return this error (and record nothing).
	FailSend func(p2pmsg.Message) error
}

func NewCapture() *Capture { return &Capture{P2PMessaging: p2p.VerifNewMessaging()} }

func (c *Capture) SendMessage(ctx context.Context, m p2pmsg.Message, _ ...retry.Option) error {
	// like the real publish path, a send with a dead context fails
	if err := ctx.Err(); err != nil {
		return err
	}
	if c.FailSend != nil {
		if err := c.FailSend(m); err != nil {
			return err
		}
	}
	c.Sent = append(c.Sent, m)
	return nil
}

// Drain returns and clears the captured messages.
func (c *Capture) Drain() []p2pmsg.Message {
	out := c.Sent
	c.Sent = nil
	return out
}

// CoreConfig implements epochkghandler.Config.
type CoreConfig struct {
	Address    common.Address
	InstanceID uint64
	MaxKeys    uint64
}

func (c CoreConfig) GetAddress() common.Address      { return c.Address }
func (c CoreConfig) GetInstanceID() uint64           { return c.InstanceID }
func (c CoreConfig) GetMaxNumKeysPerMessage() uint64 { return c.MaxKeys }

// PoolOn returns a pool on an existing database object (no copy).
func PoolOn(db *minipg.DB) *pgxpool.Pool { return pgxpool.NewWithDB("view", db) }
