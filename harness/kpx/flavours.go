package kpx

import (
	"context"
	"fmt"

	"github.com/jackc/pgx/v4/minipg"
	"github.com/jackc/pgx/v4/pgxpool"

	kprdb "github.com/shutter-network/rolling-shutter/rolling-shutter/keyper/database"
	"github.com/shutter-network/rolling-shutter/rolling-shutter/keyper/epochkghandler"
	"github.com/shutter-network/rolling-shutter/rolling-shutter/keyperimpl/gnosis"
	gnosisdb "github.com/shutter-network/rolling-shutter/rolling-shutter/keyperimpl/gnosis/database"
	"github.com/shutter-network/rolling-shutter/rolling-shutter/keyperimpl/shutterservice"
	servicedb "github.com/shutter-network/rolling-shutter/rolling-shutter/keyperimpl/shutterservice/database"
	"github.com/shutter-network/rolling-shutter/rolling-shutter/medley/broker"
	"github.com/shutter-network/rolling-shutter/rolling-shutter/medley/configuration"
	"github.com/shutter-network/rolling-shutter/rolling-shutter/medley/encodeable/keys"
	"github.com/shutter-network/rolling-shutter/rolling-shutter/medley/identitypreimage"
	"github.com/shutter-network/rolling-shutter/rolling-shutter/p2p"
	"github.com/shutter-network/rolling-shutter/rolling-shutter/p2pmsg"
)

const InstanceID = 42

// Node is one keyper of some flavour, wired the way the flavour's Start wires
// it: flavour handlers registered directly on the P2PMessaging, core handlers
// through the flavour's messaging middleware, own messages sent through the
// middleware. Everything the node publishes is captured in Capt.Sent.
type Node struct {
	Flavour     string // core | gnosis | service
	Participant int
	KeyperIndex int
	Pool        *pgxpool.Pool
	Capt        *Capture
	Messaging   p2p.Messaging // middleware (or Capt for the core flavour)
	KSH         *epochkghandler.KeyShareHandler
	Triggers    chan *broker.Event[*epochkghandler.DecryptionTrigger]
	Gnosis      *gnosis.Keyper
	GnosisCfg   *gnosis.Config
	ServiceCfg  *shutterservice.Config
	MaxKeys     uint64
}

// NodeSpec describes the keyper set a node is built for.
type NodeSpec struct {
	Flavour    string
	CfgIndex   int64
	Members    []int // participant indices, position = keyper index
	Threshold  int
	Activation int64
	Eon        int64
	Keys       *EonSet
	MaxKeys    uint64
	State      EonState // usually Success
}

func ethnode(p int) *configuration.EthnodeConfig {
	return &configuration.EthnodeConfig{PrivateKey: &keys.ECDSAPrivate{Key: Key(p)}}
}

// GnosisConfig returns the flavour config with the repository's default gas values.
func GnosisConfig(p int, maxKeys uint64) *gnosis.Config {
	return &gnosis.Config{
		InstanceID: InstanceID,
		Gnosis: &gnosis.GnosisConfig{
			Node: ethnode(p), EncryptedGasLimit: 1_000_000, MinGasPerTransaction: 21_000, MaxTxPointerAge: 2,
			SecondsPerSlot: 5, SlotsPerEpoch: 16, GenesisSlotTimestamp: 1_600_000_000,
		},
		MaxNumKeysPerMessage: maxKeys,
	}
}

func ServiceConfig(p int, maxKeys uint64) *shutterservice.Config {
	return &shutterservice.Config{
		InstanceID:           InstanceID,
		Chain:                &shutterservice.ChainConfig{Node: ethnode(p), Contracts: &shutterservice.ContractsConfig{}},
		MaxNumKeysPerMessage: maxKeys,
	}
}

var nodeTmpl = map[string]*pgxpool.Pool{}

// NewNode builds participant p's node for the given keyper set.
func NewNode(spec NodeSpec, p int) *Node {
	n := &Node{Flavour: spec.Flavour, Participant: p, KeyperIndex: -1, MaxKeys: spec.MaxKeys}
	for i, m := range spec.Members {
		if m == p {
			n.KeyperIndex = i
		}
	}
	def := kprdb.Definition
	switch spec.Flavour {
	case "gnosis":
		def = gnosisdb.Definition
	case "service":
		def = servicedb.Definition
	}
	tk := fmt.Sprintf("%s/%d/%v/%d/%d/%d/%d/%p", spec.Flavour, spec.CfgIndex, spec.Members, spec.Threshold, spec.Eon, spec.State, p, spec.Keys)
	tmpl, ok := nodeTmpl[tk]
	if !ok {
		tmpl = NewPool(def)
		ki := n.KeyperIndex
		if ki < 0 {
			ki = 0
		}
		InstallEon(tmpl, spec.CfgIndex, Addrs(spec.Members...), spec.Threshold, spec.Activation, spec.Eon, spec.State, spec.Keys.Result(uint64(spec.Eon), ki))
		nodeTmpl[tk] = tmpl
	}
	n.Pool = pgxpool.NewWithDB(fmt.Sprintf("node-%d", p), tmpl.DB().Clone())
	n.wire()
	return n
}

// NodeOnDB builds participant p's node on an existing database (already
// containing the keyper set); used to continue from a snapshot.
func NodeOnDB(spec NodeSpec, p int, db *minipg.DB) *Node {
	n := &Node{Flavour: spec.Flavour, Participant: p, KeyperIndex: -1, MaxKeys: spec.MaxKeys}
	for i, m := range spec.Members {
		if m == p {
			n.KeyperIndex = i
		}
	}
	n.Pool = pgxpool.NewWithDB(fmt.Sprintf("node-%d", p), db)
	n.wire()
	return n
}

// Rewire throws away every in-memory object of the node and rebuilds them on
// the same database (a process restart).
func (n *Node) Rewire() { n.wire() }

func (n *Node) wire() {
	n.Capt = NewCapture()
	n.Triggers = make(chan *broker.Event[*epochkghandler.DecryptionTrigger], 64)
	cfg := CoreConfig{Address: Addr(n.Participant), InstanceID: InstanceID, MaxKeys: n.MaxKeys}
	core := []p2p.MessageHandler{
		epochkghandler.NewDecryptionKeyHandler(cfg, n.Pool),
		epochkghandler.NewDecryptionKeyShareHandler(cfg, n.Pool),
		epochkghandler.NewEonPublicKeyHandler(cfg, n.Pool),
	}
	switch n.Flavour {
	case "gnosis":
		n.GnosisCfg = GnosisConfig(n.Participant, n.MaxKeys)
		n.Capt.AddMessageHandler(gnosis.VerifNewHandlers(n.Pool)...)
		mw := gnosis.NewMessagingMiddleware(n.Capt, n.Pool, n.GnosisCfg)
		mw.AddMessageHandler(core...)
		n.Messaging = mw
		n.Gnosis = gnosis.VerifNewKeyper(n.GnosisCfg, n.Pool, n.Triggers)
	case "service":
		n.ServiceCfg = ServiceConfig(n.Participant, n.MaxKeys)
		n.Capt.AddMessageHandler(shutterservice.VerifNewHandlers(n.Pool)...)
		mw := shutterservice.NewMessagingMiddleware(n.Capt, n.Pool, n.ServiceCfg)
		mw.AddMessageHandler(core...)
		n.Messaging = mw
	default:
		n.Capt.AddMessageHandler(core...)
		n.Messaging = n.Capt
	}
	n.KSH = &epochkghandler.KeyShareHandler{
		InstanceID: InstanceID, KeyperAddress: Addr(n.Participant), MaxNumKeysPerMessage: n.MaxKeys,
		DBPool: n.Pool, Messaging: n.Messaging, Trigger: n.Triggers,
	}
}

// Trigger makes the node produce and publish its key shares for the
// identities exactly like KeyShareHandler.handleEvent does (eon lookup by block
// number, ConstructDecryptionKeyShares, SendMessage through the flavour
// middleware). Returns what was published.
func (n *Node) Trigger(block uint64, ids []identitypreimage.IdentityPreimage) ([]p2pmsg.Message, error) {
	ctx := context.Background()
	eon, err := kprdb.New(n.Pool).GetEonForBlockNumber(ctx, int64(block))
	if err != nil {
		return nil, err
	}
	msg, err := n.KSH.ConstructDecryptionKeyShares(ctx, eon, ids)
	if err != nil {
		return nil, err
	}
	if err := n.Messaging.SendMessage(ctx, msg); err != nil {
		return nil, err
	}
	return n.Capt.Drain(), nil
}

// Receive hands raw gossip bytes to the node: combined validator, then Handle;
// handler outputs are published the way P2PMessaging.handle does (SendMessage
// on the P2PMessaging itself, i.e. captured). Returns delivery and what the
// node published as a consequence.
func (n *Node) Receive(topic string, data []byte) (Delivery, []p2pmsg.Message) {
	d := Deliver(n.Capt.P2PMessaging, topic, data)
	var out []p2pmsg.Message
	out = append(out, d.Out...)
	out = append(out, n.Capt.Drain()...)
	return d, out
}
