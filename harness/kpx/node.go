package kpx

import (
	"context"
	"fmt"
	"github.com/shutter-network/rolling-shutter/rolling-shutter/trace"
	"runtime/debug"

	pubsub "github.com/libp2p/go-libp2p-pubsub"
	pubsubpb "github.com/libp2p/go-libp2p-pubsub/pb"
	"github.com/libp2p/go-libp2p/core/peer"

	"github.com/shutter-network/rolling-shutter/rolling-shutter/p2p"
	"github.com/shutter-network/rolling-shutter/rolling-shutter/p2pmsg"
)

// Envelope marshals a message the way P2PMessaging.SendMessage does.
func Envelope(m p2pmsg.Message) []byte {
	b, err := p2pmsg.Marshal(m, nil)
	if err != nil {
		panic(err)
	}
	return b
}

// Delivery is the outcome of handing one gossip message to a node.
type Delivery struct {
	Verdict pubsub.ValidationResult
	Handled bool
	Out     []p2pmsg.Message // messages returned by the handlers
	Err     error            // handler error
	Panic   string           // non-empty if validation or handling panicked
}

func (d Delivery) VerdictString() string {
	switch d.Verdict {
	case pubsub.ValidationAccept:
		return "accept"
	case pubsub.ValidationReject:
		return "reject"
	case pubsub.ValidationIgnore:
		return "ignore"
	}
	return fmt.Sprintf("verdict(%d)", d.Verdict)
}

// Deliver runs the topic's combined validator (the function libp2p would call)
// on the raw bytes and, iff it accepts, decodes and dispatches the message
// through P2PMessaging.Handle exactly like runHandleMessages does.
func Deliver(m *p2p.P2PMessaging, topic string, data []byte) (d Delivery) {
	defer func() {
		if p := recover(); p != nil {
			d.Panic = fmt.Sprintf("%v\n%s", p, debug.Stack())
		}
	}()
	msg := &pubsub.Message{Message: &pubsubpb.Message{Data: data, Topic: &topic}}
	val := m.VerifCombinedValidator(topic)
	d.Verdict = val(context.Background(), peer.ID("verif-peer"), msg)
	if d.Verdict != pubsub.ValidationAccept {
		return d
	}
	pm, tc, err := p2p.UnmarshalPubsubMessage(msg)
	if err != nil {
		d.Err = err
		return d
	}
	ctx := context.Background()
	if trace.IsEnabled() {
		// a node with a P2P layer opens the receive span (which reads the sender's
		// trace context out of the envelope) before it dispatches to the handlers
		var end func()
		ctx, end = p2p.VerifReceiveSpan(ctx, tc, msg, pm)
		defer end()
	}
	d.Handled = true
	d.Out, d.Err = m.Handle(ctx, pm)
	return d
}
