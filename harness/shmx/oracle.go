package shmx

import (
	"bytes"
	"fmt"
	"math/big"
	"regexp"
	"sort"
	"strings"

	"google.golang.org/protobuf/proto"

	"github.com/shutter-network/shutter/shlib/puredkg"
	"github.com/shutter-network/shutter/shlib/shcrypto"

	"github.com/shutter-network/rolling-shutter/rolling-shutter/app"
	"github.com/shutter-network/rolling-shutter/rolling-shutter/shdb"
	"github.com/shutter-network/rolling-shutter/rolling-shutter/shmsg"
)

func protoDet(m proto.Message) ([]byte, error) {
	return proto.MarshalOptions{Deterministic: true}.Marshal(m)
}

// Outcome is what one real keyper recorded for one eon.
type Outcome struct {
	Keyper  int
	HasRow  bool
	Success bool
	Error   string
	Result  *puredkg.Result
	DecErr  string
}

var digitsRe = regexp.MustCompile(`[0-9]+`)

// OutcomeOf reads keyper k's dkg_result row of the eon (directly from the
// engine: no round trip, no hook).
func OutcomeOf(k *Keyper, eon uint64) Outcome {
	o := Outcome{Keyper: k.Idx}
	cols := k.DB().Columns("dkg_result")
	ci := map[string]int{}
	for i, c := range cols {
		ci[c] = i
	}
	for _, r := range k.DB().Rows("dkg_result") {
		if uint64(r[ci["eon"]].(int64)) != eon {
			continue
		}
		o.HasRow = true
		o.Success = r[ci["success"]].(bool)
		if e, ok := r[ci["error"]].(string); ok {
			o.Error = e
		}
		if b, ok := r[ci["pure_result"]].([]byte); ok && len(b) > 0 {
			res, err := shdb.DecodePureDKGResult(b)
			if err != nil {
				o.DecErr = err.Error()
			} else {
				o.Result = res
			}
		}
	}
	return o
}

// Outbox returns the ids and descriptions of the queued shuttermint messages.
func Outbox(k *Keyper) (ids []int64, descs []string, msgs [][]byte) {
	cols := k.DB().Columns("tendermint_outgoing_messages")
	ci := map[string]int{}
	for i, c := range cols {
		ci[c] = i
	}
	rows := k.DB().Rows("tendermint_outgoing_messages")
	sort.Slice(rows, func(i, j int) bool { return rows[i][ci["id"]].(int64) < rows[j][ci["id"]].(int64) })
	for _, r := range rows {
		ids = append(ids, r[ci["id"]].(int64))
		descs = append(descs, r[ci["description"]].(string))
		msgs = append(msgs, r[ci["msg"]].([]byte))
	}
	return
}

// g2 returns g2^x as a one-element Gammas (pairing free).
func g2(x *big.Int) *shcrypto.Gammas {
	p, err := shcrypto.NewPolynomial([]*big.Int{new(big.Int).Set(x)})
	if err != nil {
		panic(err)
	}
	return p.Gammas()
}

// Verdict of the agreement oracle for one eon.
type Verdict struct {
	Signature string // "" = holds
	Message   string
	Class     string // outcome class (who succeeded, qualified dealers, failure reasons)
	Succeeded []int
}

var testIdentity = []byte("shmx test identity \x00\x01\x02")
var testMessage = []byte("a message encrypted to the eon key; longer than one thirty-two byte block")

// Commitments returns, per participant, the first poly commitment the
// application admitted for the eon (what every keyper sees as an event).
func (w *World) Commitments(eon uint64) map[int]*shcrypto.Gammas {
	out := map[int]*shcrypto.Gammas{}
	for _, t := range w.Chain.Txs {
		pc := t.Msg.GetPolyCommitment()
		if pc == nil || pc.Eon != eon || t.Check != 0 || t.Deliver != 0 {
			continue
		}
		i := w.indexOf(t.From)
		if _, ok := out[i]; ok {
			continue
		}
		m, err := app.ParsePolyCommitmentMsg(pc, t.From)
		if err != nil {
			continue
		}
		out[i] = m.Gammas
	}
	return out
}

// CheckAgreement is C07's oracle for one eon: every real keyper that recorded
// success holds the same eon public key and public key shares, its secret share
// matches its public share, every t-subset of their epoch key shares
// interpolates to a key that verifies against / decrypts for the eon key, and
// the DKG result votes on chain match the rows.
func (w *World) CheckAgreement(eon uint64) Verdict {
	s := w.Spec.Setup
	var v Verdict
	var outs []Outcome
	var okOnes []Outcome
	var cls []string
	for _, i := range w.Honest {
		o := OutcomeOf(w.Keypers[i], eon)
		outs = append(outs, o)
		switch {
		case !o.HasRow:
			cls = append(cls, fmt.Sprintf("%d:no-result", i))
		case o.Success:
			cls = append(cls, fmt.Sprintf("%d:success", i))
			okOnes = append(okOnes, o)
			v.Succeeded = append(v.Succeeded, i)
		default:
			cls = append(cls, fmt.Sprintf("%d:failed(%s)", i, digitsRe.ReplaceAllString(o.Error, "N")))
		}
	}
	fail := func(sig, format string, args ...any) Verdict {
		v.Signature = sig
		v.Message = fmt.Sprintf("eon %d: ", eon) + fmt.Sprintf(format, args...)
		return v
	}
	v.Class = strings.Join(cls, " ")
	for _, o := range okOnes {
		r := o.Result
		if r == nil {
			return fail("C07/success-without-result", "keyper %d recorded success but its pure_result does not decode (%s)", o.Keyper, o.DecErr)
		}
		if r.Eon != eon || r.NumKeypers != uint64(s.N) || r.Threshold != uint64(s.T) || r.Keyper != uint64(o.Keyper) {
			return fail("C07/result-header-wrong", "keyper %d stored a result for eon=%d n=%d t=%d index=%d", o.Keyper, r.Eon, r.NumKeypers, r.Threshold, r.Keyper)
		}
		if r.PublicKey == nil || r.SecretKeyShare == nil || len(r.PublicKeyShares) != s.N {
			return fail("C07/result-incomplete", "keyper %d stored an incomplete result (%d public key shares)", o.Keyper, len(r.PublicKeyShares))
		}
	}
	for _, o := range okOnes[min(1, len(okOnes)):] {
		a, b := okOnes[0].Result, o.Result
		if !a.PublicKey.Equal(b.PublicKey) {
			return fail("C07/eon-public-keys-differ", "keypers %d and %d both report success but hold different eon public keys (%x vs %x)", okOnes[0].Keyper, o.Keyper, a.PublicKey.Marshal()[:8], b.PublicKey.Marshal()[:8])
		}
		for j := range a.PublicKeyShares {
			if !a.PublicKeyShares[j].Equal(b.PublicKeyShares[j]) {
				return fail("C07/public-key-shares-differ", "keypers %d and %d both report success but disagree on the public key share of keyper %d", okOnes[0].Keyper, o.Keyper, j)
			}
		}
	}
	for _, o := range okOnes {
		r := o.Result
		mine := (*g2((*big.Int)(r.SecretKeyShare)))[0]
		want := (*shcrypto.EonPublicKeyShare)(mine)
		if !want.Equal(r.PublicKeyShares[o.Keyper]) {
			return fail("C07/secret-share-does-not-match-public-share", "keyper %d: g2^secretShare differs from PublicKeyShares[%d]", o.Keyper, o.Keyper)
		}
	}
	// which dealers were qualified? (vacuity indicator, computed from the chain)
	if len(okOnes) > 0 {
		v.Class += " qualified=" + w.qualified(eon, okOnes[0].Result.PublicKey)
	}
	if len(okOnes) >= s.T {
		epochID := shcrypto.ComputeEpochID(testIdentity)
		shares := map[int]*shcrypto.EpochSecretKeyShare{}
		for _, o := range okOnes {
			sh := shcrypto.ComputeEpochSecretKeyShare(o.Result.SecretKeyShare, epochID)
			if !shcrypto.VerifyEpochSecretKeyShare(sh, o.Result.PublicKeyShares[o.Keyper], epochID) {
				return fail("C07/epoch-share-does-not-verify", "keyper %d's epoch secret key share does not verify against its public key share", o.Keyper)
			}
			shares[o.Keyper] = sh
		}
		pk := okOnes[0].Result.PublicKey
		sigma, err := shcrypto.RandomSigma(&detReader{seed: [32]byte{7}})
		if err != nil {
			panic(err)
		}
		enc := shcrypto.Encrypt(testMessage, pk, epochID, sigma)
		var firstKey *shcrypto.EpochSecretKey
		for _, sub := range subsets(v.Succeeded, s.T) {
			var ss []*shcrypto.EpochSecretKeyShare
			for _, i := range sub {
				ss = append(ss, shares[i])
			}
			key, err := shcrypto.ComputeEpochSecretKey(sub, ss, uint64(s.T))
			if err != nil {
				return fail("C07/interpolation-fails", "ComputeEpochSecretKey(%v): %v", sub, err)
			}
			if firstKey != nil && key.Equal(firstKey) {
				continue // same key as a subset already verified
			}
			ok, err := shcrypto.VerifyEpochSecretKey(key, pk, testIdentity)
			if err != nil || !ok {
				return fail("C07/interpolated-key-does-not-verify", "the key interpolated from the shares of keypers %v fails VerifyEpochSecretKey against the agreed eon key (%v)", sub, err)
			}
			dec, err := enc.Decrypt(key)
			if err != nil || !bytes.Equal(dec, testMessage) {
				return fail("C07/interpolated-key-does-not-decrypt", "the key interpolated from the shares of keypers %v does not decrypt a message encrypted to the eon key (%v)", sub, err)
			}
			if firstKey == nil {
				firstKey = key
			} else {
				return fail("C07/subsets-give-different-keys", "shares of keypers %v interpolate to a different (yet verifying) key", sub)
			}
		}
	}
	// result votes on chain match the rows
	for _, o := range outs {
		if !o.HasRow {
			continue
		}
		var votes []*shmsg.DKGResult
		for _, t := range w.Chain.Txs {
			if d := t.Msg.GetDkgResult(); d != nil && d.Eon == eon && t.From == Addr(o.Keyper) && t.Check == 0 {
				votes = append(votes, d)
			}
		}
		for _, d := range votes {
			if d.Success != o.Success {
				return fail("C07/result-vote-differs-from-row", "keyper %d voted success=%v on chain but recorded success=%v", o.Keyper, d.Success, o.Success)
			}
		}
		_, descs, _ := Outbox(w.Keypers[o.Keyper])
		if len(votes) == 0 && len(descs) == 0 {
			return fail("C07/result-vote-missing", "keyper %d recorded a result (success=%v), its outbox is empty, but the chain never received its DKG result vote", o.Keyper, o.Success)
		}
		// the key handed to publication is the agreed key
		if o.Success && o.Result != nil {
			want, _ := o.Result.PublicKey.GobEncode()
			cols := w.Keypers[o.Keyper].DB().Columns("outgoing_eon_keys")
			found := false
			for _, r := range w.Keypers[o.Keyper].DB().Rows("outgoing_eon_keys") {
				var e int64
				var pkb []byte
				for i, c := range cols {
					switch c {
					case "eon":
						e = r[i].(int64)
					case "eon_public_key":
						pkb, _ = r[i].([]byte)
					}
				}
				if uint64(e) == eon {
					found = true
					if !bytes.Equal(pkb, want) {
						return fail("C07/published-key-differs", "keyper %d queued an eon public key for publication that differs from its DKG result", o.Keyper)
					}
				}
			}
			if !found {
				return fail("C07/published-key-missing", "keyper %d succeeded but queued no eon public key for publication", o.Keyper)
			}
		}
	}
	return v
}

// qualified names the set of dealers whose commitments add up to the key.
func (w *World) qualified(eon uint64, pk *shcrypto.EonPublicKey) string {
	cm := w.Commitments(eon)
	var idx []int
	for i, g := range cm {
		if len(*g) == w.Spec.Setup.T {
			idx = append(idx, i)
		}
	}
	sort.Ints(idx)
	for mask := (1 << len(idx)) - 1; mask > 0; mask-- {
		var gs []*shcrypto.Gammas
		var names []string
		for j, i := range idx {
			if mask&(1<<j) != 0 {
				gs = append(gs, cm[i])
				names = append(names, fmt.Sprint(i))
			}
		}
		if shcrypto.ComputeEonPublicKey(gs).Equal(pk) {
			return "[" + strings.Join(names, ",") + "]"
		}
	}
	return "?"
}

func subsets(items []int, k int) [][]int {
	var out [][]int
	var rec func(start int, cur []int)
	rec = func(start int, cur []int) {
		if len(cur) == k {
			out = append(out, append([]int(nil), cur...))
			return
		}
		for i := start; i < len(items); i++ {
			rec(i+1, append(cur, items[i]))
		}
	}
	rec(0, nil)
	return out
}
