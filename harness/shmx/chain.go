// Package shmx is "fakeshm": shuttermint without Tendermint. One real
// app.ShutterApp is driven through InitChain / BeginBlock / DeliverTx /
// EndBlock / Commit; N real keypers (real smobserver.SyncAppWithDB +
// ShuttermintState on a minipg keyper database, real
// KeyperCore.handleOnChainChanges, real fx.SendShutterMessages with the real
// fx.RPCMessageSender) and scripted Byzantine keypers talk to it through a fake
// tendermint RPC client. Everything is single-threaded and deterministic; the
// explorer decides when a keyper steps relative to the closing of a block.
package shmx

import (
	"context"
	"crypto/ecdsa"
	"crypto/ed25519"
	"crypto/sha256"
	"encoding/base64"
	"fmt"

	"github.com/ethereum/go-ethereum/common"
	"github.com/tendermint/go-amino"
	abcitypes "github.com/tendermint/tendermint/abci/types"
	tmcrypto "github.com/tendermint/tendermint/proto/tendermint/crypto"
	tmproto "github.com/tendermint/tendermint/proto/tendermint/types"
	rpcclient "github.com/tendermint/tendermint/rpc/client"
	coretypes "github.com/tendermint/tendermint/rpc/core/types"
	tmtypes "github.com/tendermint/tendermint/types"

	"github.com/shutter-network/rolling-shutter/rolling-shutter/app"
	"github.com/shutter-network/rolling-shutter/rolling-shutter/shmsg"
)

// ChainID of the fake chain.
const ChainID = "verif-shm"

// TxRecord is one transaction the application received.
type TxRecord struct {
	Height  int64
	Index   int // position among the DeliverTx calls of the block; -1 if refused by CheckTx
	From    common.Address
	Msg     *shmsg.Message
	Nonce   uint64
	Check   uint32 // CheckTx code
	Deliver uint32 // DeliverTx code (only if Check == 0)
	Log     string
}

// Kind names the payload of a message.
func Kind(m *shmsg.Message) string {
	switch {
	case m == nil:
		return "nil"
	case m.GetBatchConfig() != nil:
		return "batch-config"
	case m.GetBlockSeen() != nil:
		return "block-seen"
	case m.GetCheckIn() != nil:
		return "check-in"
	case m.GetDkgResult() != nil:
		return "dkg-result"
	case m.GetPolyEval() != nil:
		return "poly-eval"
	case m.GetPolyCommitment() != nil:
		return "poly-commitment"
	case m.GetAccusation() != nil:
		return "accusation"
	case m.GetApology() != nil:
		return "apology"
	}
	return "unknown"
}

// Chain is the application plus the block log.
type Chain struct {
	App       *app.ShutterApp
	Committed int64 // height of the last closed block; block Committed+1 is open
	Blocks    map[int64]*coretypes.ResultBlockResults
	cur       *coretypes.ResultBlockResults
	Txs       []TxRecord
}

// GenesisValidator is the single validator of the genesis document.
var GenesisValidator = func() []byte {
	s := sha256.Sum256([]byte("shmx-genesis-validator"))
	return ed25519.NewKeyFromSeed(s[:]).Public().(ed25519.PublicKey)
}()

// NewChain runs InitChain with the given genesis keypers and opens block 1.
func NewChain(keypers []common.Address, threshold int) *Chain {
	a := app.NewShutterApp()
	gs := app.NewGenesisAppState(keypers, threshold, 0, &app.ForkHeights{})
	b, err := amino.NewCodec().MarshalJSON(gs)
	if err != nil {
		panic(err)
	}
	a.InitChain(abcitypes.RequestInitChain{
		ChainId:       ChainID,
		AppStateBytes: b,
		Validators: []abcitypes.ValidatorUpdate{{
			PubKey: tmcrypto.PublicKey{Sum: &tmcrypto.PublicKey_Ed25519{Ed25519: GenesisValidator}},
			Power:  10,
		}},
	})
	c := &Chain{App: a, Blocks: map[int64]*coretypes.ResultBlockResults{}}
	bb := a.BeginBlock(abcitypes.RequestBeginBlock{Header: tmproto.Header{Height: 1}})
	c.cur = &coretypes.ResultBlockResults{Height: 1, BeginBlockEvents: bb.Events}
	return c
}

// Open is the height of the block that currently collects transactions.
func (c *Chain) Open() int64 { return c.Committed + 1 }

// CloseBlock runs EndBlock/Commit of the open block and BeginBlock of the next.
func (c *Chain) CloseBlock() {
	h := c.Open()
	eb := c.App.EndBlock(abcitypes.RequestEndBlock{Height: h})
	c.cur.EndBlockEvents = eb.Events
	c.cur.ValidatorUpdates = eb.ValidatorUpdates
	c.App.Commit()
	c.Blocks[h] = c.cur
	c.Committed = h
	bb := c.App.BeginBlock(abcitypes.RequestBeginBlock{Header: tmproto.Header{Height: h + 1}})
	c.cur = &coretypes.ResultBlockResults{Height: h + 1, BeginBlockEvents: bb.Events}
}

// Broadcast is what tendermint's broadcast_tx_commit does with a transaction:
// CheckTx (mempool), and if admitted, DeliverTx in the next block (here: the
// open one).
func (c *Chain) Broadcast(tx []byte) *coretypes.ResultBroadcastTxCommit {
	rec := TxRecord{Height: c.Open(), Index: -1}
	if signed, err := base64.RawURLEncoding.DecodeString(string(tx)); err == nil {
		if s, err := shmsg.GetSigner(signed); err == nil {
			rec.From = s
		}
		if m, err := shmsg.GetMessage(signed); err == nil {
			rec.Msg = m.Msg
			rec.Nonce = m.RandomNonce
		}
	}
	res := &coretypes.ResultBroadcastTxCommit{Hash: tmtypes.Tx(tx).Hash()}
	res.CheckTx = c.App.CheckTx(abcitypes.RequestCheckTx{Tx: tx})
	rec.Check = res.CheckTx.Code
	if res.CheckTx.Code != 0 {
		rec.Log = res.CheckTx.Log
		c.Txs = append(c.Txs, rec)
		return res
	}
	d := c.App.DeliverTx(abcitypes.RequestDeliverTx{Tx: tx})
	rec.Index = len(c.cur.TxsResults)
	c.cur.TxsResults = append(c.cur.TxsResults, &d)
	res.DeliverTx = d
	res.Height = c.Open()
	rec.Deliver = d.Code
	if d.Code != 0 {
		rec.Log = firstLine(d.Log)
	}
	c.Txs = append(c.Txs, rec)
	return res
}

// SendAs signs a message with the key (fresh nonce from the counter) and
// broadcasts it: the transport of the scripted keypers.
func (c *Chain) SendAs(key *ecdsa.PrivateKey, nonce uint64, m *shmsg.Message) *coretypes.ResultBroadcastTxCommit {
	signed, err := shmsg.SignMessage(&shmsg.MessageWithNonce{ChainId: []byte(ChainID), RandomNonce: nonce, Msg: m}, key)
	if err != nil {
		panic(err)
	}
	return c.Broadcast([]byte(base64.RawURLEncoding.EncodeToString(signed)))
}

// EventsOf returns the ABCI events of a closed block in the order the keyper
// handles them.
func (c *Chain) EventsOf(h int64) []abcitypes.Event {
	b := c.Blocks[h]
	if b == nil {
		return nil
	}
	var out []abcitypes.Event
	out = append(out, b.BeginBlockEvents...)
	for _, t := range b.TxsResults {
		out = append(out, t.Events...)
	}
	out = append(out, b.EndBlockEvents...)
	return out
}

// ---------- fake tendermint RPC client ----------

// RPCCall identifies one call of a client for fault injection.
type RPCCall struct {
	Seq    int    // per-client counter
	Method string // Block | BlockResults | BlockchainInfo | BroadcastTxCommit
}

// Client implements the part of rpcclient.Client the keyper uses. Every other
// method is a call through a nil interface (a loud harness error).
type Client struct {
	rpcclient.Client
	Chain *Chain
	Calls int
	// Fault is called before the call is executed (applied=false) and after the
	// chain executed it but before the reply is returned (applied=true). It may
	// panic to simulate a crash of the calling process, or return an error that
	// the call then returns instead of its result (a network error).
	Fault func(call RPCCall, applied bool) error
	// Log of the calls (method names), for twin comparison.
	Log []string
}

func (cl *Client) enter(method string) (RPCCall, error) {
	call := RPCCall{Seq: cl.Calls, Method: method}
	cl.Calls++
	cl.Log = append(cl.Log, method)
	if cl.Fault != nil {
		return call, cl.Fault(call, false)
	}
	return call, nil
}

func (cl *Client) leave(call RPCCall) error {
	if cl.Fault != nil {
		return cl.Fault(call, true)
	}
	return nil
}

// Block(nil) reports the latest block; its LastCommit is the commit of the
// block before it.
func (cl *Client) Block(_ context.Context, h *int64) (*coretypes.ResultBlock, error) {
	if h != nil {
		panic("shmx: Block with explicit height is not used by the keyper")
	}
	call, err := cl.enter("Block")
	if err != nil {
		return nil, err
	}
	latest := cl.Chain.Committed
	if err := cl.leave(call); err != nil {
		return nil, err
	}
	if latest == 0 {
		return &coretypes.ResultBlock{}, nil
	}
	return &coretypes.ResultBlock{Block: &tmtypes.Block{
		Header:     tmtypes.Header{ChainID: ChainID, Height: latest},
		LastCommit: &tmtypes.Commit{Height: latest - 1},
	}}, nil
}

func (cl *Client) BlockResults(_ context.Context, h *int64) (*coretypes.ResultBlockResults, error) {
	if h == nil {
		panic("shmx: BlockResults(nil) is not used by the keyper")
	}
	call, err := cl.enter("BlockResults")
	if err != nil {
		return nil, err
	}
	b, ok := cl.Chain.Blocks[*h]
	if err := cl.leave(call); err != nil {
		return nil, err
	}
	if !ok {
		return nil, fmt.Errorf("height %d must be less than or equal to the current blockchain height %d", *h, cl.Chain.Committed)
	}
	return b, nil
}

func (cl *Client) BlockchainInfo(_ context.Context, _, _ int64) (*coretypes.ResultBlockchainInfo, error) {
	call, err := cl.enter("BlockchainInfo")
	if err != nil {
		return nil, err
	}
	res := &coretypes.ResultBlockchainInfo{LastHeight: cl.Chain.Committed}
	if cl.Chain.Committed > 0 {
		res.BlockMetas = []*tmtypes.BlockMeta{{Header: tmtypes.Header{ChainID: ChainID, Height: cl.Chain.Committed}}}
	}
	if err := cl.leave(call); err != nil {
		return nil, err
	}
	return res, nil
}

func (cl *Client) BroadcastTxCommit(_ context.Context, tx tmtypes.Tx) (*coretypes.ResultBroadcastTxCommit, error) {
	call, err := cl.enter("BroadcastTxCommit")
	if err != nil {
		return nil, err
	}
	res := cl.Chain.Broadcast(tx)
	if err := cl.leave(call); err != nil {
		return nil, err
	}
	return res, nil
}

func firstLine(s string) string {
	for i := 0; i < len(s); i++ {
		if s[i] == '\n' {
			s = s[:i]
			break
		}
	}
	if len(s) > 200 {
		s = s[:200]
	}
	return s
}
