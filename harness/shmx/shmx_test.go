package shmx

import (
	"fmt"
	"os"
	"testing"
	"time"
)

func TestHonestRun(t *testing.T) {
	spec := Spec{Setup: DefaultSetup(3, 2, 5), Seed: "t1"}
	t0 := time.Now()
	w := NewWorld(spec)
	w.Run()
	el := time.Since(t0)
	for _, e := range w.Eons {
		v := w.CheckAgreement(e)
		t.Logf("eon %d start=%d class=%s sig=%q msg=%s", e, w.EonStart[e], v.Class, v.Signature, v.Message)
	}
	t.Logf("blocks=%d steps=%d txs=%d elapsed=%v", w.Chain.Committed, w.Steps, len(w.Chain.Txs), el)
	for _, i := range w.Honest {
		k := w.Keypers[i]
		t.Logf("keyper %d: round trips=%d rpc calls=%d errors=%v panics=%v", i, k.DB().RoundTrips(), k.Client.Calls, k.Errors, k.Panics)
	}
	if os.Getenv("SHMX_DUMP") != "" {
		for _, x := range w.Chain.Txs {
			fmt.Printf("h=%d i=%d from=%d %s check=%d deliver=%d %s\n", x.Height, x.Index, w.indexOf(x.From), Kind(x.Msg), x.Check, x.Deliver, x.Log)
		}
		fmt.Println(DumpDB(w.Keypers[0]))
	}
	obs := w.Observation()
	w2 := NewWorld(spec)
	w2.Run()
	if w2.Observation() != obs {
		t.Fatalf("replay differs")
	}
}

func BenchmarkHonestRun(b *testing.B) {
	spec := Spec{Setup: DefaultSetup(3, 2, 5), Seed: "t1"}
	for i := 0; i < b.N; i++ {
		w := NewWorld(spec)
		w.Run()
		for _, e := range w.Eons {
			w.CheckAgreement(e)
		}
	}
}
