package shmx

import (
	"context"
	"crypto/ecdsa"
	"crypto/ed25519"
	"crypto/rand"
	"crypto/sha256"
	"encoding/binary"
	"errors"
	"fmt"
	"os"
	"runtime/debug"
	"strings"
	"sync"

	"github.com/ethereum/go-ethereum/common"
	ethcrypto "github.com/ethereum/go-ethereum/crypto"
	"github.com/ethereum/go-ethereum/crypto/ecies"
	"github.com/jackc/pgx/v4"
	"github.com/jackc/pgx/v4/minipg"
	"github.com/jackc/pgx/v4/pgxpool"
	"github.com/rs/zerolog"
	"github.com/rs/zerolog/log"

	obskeyper "github.com/shutter-network/rolling-shutter/rolling-shutter/chainobserver/db/keyper"
	"github.com/shutter-network/rolling-shutter/rolling-shutter/keyper"
	kprdatabase "github.com/shutter-network/rolling-shutter/rolling-shutter/keyper/database"
	"github.com/shutter-network/rolling-shutter/rolling-shutter/keyper/fx"
	"github.com/shutter-network/rolling-shutter/rolling-shutter/keyper/kprconfig"
	"github.com/shutter-network/rolling-shutter/rolling-shutter/keyper/smobserver"
	"github.com/shutter-network/rolling-shutter/rolling-shutter/medley/configuration"
	"github.com/shutter-network/rolling-shutter/rolling-shutter/medley/encodeable/keys"
	"github.com/shutter-network/rolling-shutter/rolling-shutter/shdb"

	"verif/harness/kpx"
)

// fatalExit replaces the os.Exit(1) of log.Fatal: a log.Fatal in the keyper is
// the end of the keyper process.
type fatalExit struct{ Msg string }

type fatalHook struct{}

func (fatalHook) Run(_ *zerolog.Event, level zerolog.Level, msg string) {
	if level == zerolog.FatalLevel {
		panic(fatalExit{msg})
	}
}

func init() {
	// only fatal events pass the filter; the hook turns them into a panic
	// before zerolog calls os.Exit
	zerolog.SetGlobalLevel(zerolog.FatalLevel)
	if os.Getenv("SHMX_LOG") != "" { // debugging aid
		zerolog.SetGlobalLevel(zerolog.InfoLevel)
	}
	log.Logger = log.Logger.Hook(fatalHook{})
}

// ---------- deterministic randomness ----------

// detReader is a SHA-256 counter stream. One-byte reads return a constant and
// do not advance the stream: crypto/ecdsa.GenerateKey (used by ecies.Encrypt)
// calls randutil.MaybeReadByte, which consumes one byte with probability 1/2
// and would otherwise make every later draw depend on the Go scheduler.
type detReader struct {
	mu   sync.Mutex
	seed [32]byte
	ctr  uint64
	buf  []byte
}

func (d *detReader) Read(p []byte) (int, error) {
	d.mu.Lock()
	defer d.mu.Unlock()
	if len(p) == 1 {
		p[0] = 0x5a
		return 1, nil
	}
	n := 0
	for n < len(p) {
		if len(d.buf) == 0 {
			var c [8]byte
			binary.BigEndian.PutUint64(c[:], d.ctr)
			d.ctr++
			h := sha256.Sum256(append(d.seed[:], c[:]...))
			d.buf = h[:]
		}
		k := copy(p[n:], d.buf)
		d.buf = d.buf[k:]
		n += k
	}
	return n, nil
}

// SeedRand replaces crypto/rand.Reader (puredkg polynomials, ECIES, message
// nonces all draw from it) by a deterministic stream.
func SeedRand(seed string) {
	rand.Reader = &detReader{seed: sha256.Sum256([]byte(seed))}
}

// ---------- participants ----------

// SignKey is participant i's shuttermint signing key (its address is the
// keyper address).
func SignKey(i int) *ecdsa.PrivateKey { return kpx.Key(i) }

// Addr is participant i's keyper address.
func Addr(i int) common.Address { return kpx.Addr(i) }

var (
	encKeys = map[int]*ecdsa.PrivateKey{}
	keyMu   sync.Mutex
)

// EncKey is participant i's ECIES key (deliberately different from its signing key).
func EncKey(i int) *ecdsa.PrivateKey {
	keyMu.Lock()
	defer keyMu.Unlock()
	if k, ok := encKeys[i]; ok {
		return k
	}
	h := sha256.Sum256([]byte(fmt.Sprintf("shmx-ecies-key-%d", i)))
	k, err := ethcrypto.ToECDSA(h[:])
	if err != nil {
		panic(err)
	}
	encKeys[i] = k
	return k
}

// EncPub is participant i's ECIES public key.
func EncPub(i int) *ecies.PublicKey { return ecies.ImportECDSAPublic(&EncKey(i).PublicKey) }

// ValKey is participant i's tendermint validator public key.
func ValKey(i int) ed25519.PublicKey {
	s := sha256.Sum256([]byte(fmt.Sprintf("shmx-validator-%d", i)))
	return ed25519.NewKeyFromSeed(s[:]).Public().(ed25519.PublicKey)
}

// Setup fixes the parameters of one world.
type Setup struct {
	N, T int   // keyper set size and threshold (genesis set == new set)
	L    int64 // Shuttermint.DKGPhaseLength
	// NewSetIndex/Activation describe the keyper set whose registration on the
	// main chain makes the keypers vote for a new batch config (and so start an eon).
	NewSetIndex int64
	Activation  int64
	StartDelta  uint64 // Shuttermint.DKGStartBlockDelta
	// GenesisN (0 = N): only the first GenesisN keypers are in shuttermint's genesis
	// configuration; the others first become keypers with the new set
	GenesisN int
	// L1Past: from the vote block on the keypers see a main-chain block past the new
	// set's activation block (they vote late): the accepted configuration is started
	// by the next block-seen reports instead of after the key generation
	L1Past bool
}

// GenesisMembers are the keypers of shuttermint's genesis configuration.
func (s Setup) GenesisMembers() []common.Address {
	m := s.Members()
	if s.GenesisN > 0 && s.GenesisN < len(m) {
		m = m[:s.GenesisN]
	}
	return m
}

// GenesisThreshold is the threshold of the genesis configuration.
func (s Setup) GenesisThreshold() int {
	if n := len(s.GenesisMembers()); s.T > n {
		return n
	}
	return s.T
}

// DefaultSetup is the configuration used by the checks.
func DefaultSetup(n, t int, l int64) Setup {
	return Setup{N: n, T: t, L: l, NewSetIndex: 1, Activation: 1000, StartDelta: 10}
}

func (s Setup) Members() []common.Address {
	out := make([]common.Address, s.N)
	for i := range out {
		out[i] = Addr(i)
	}
	return out
}

func (s Setup) config(i int) *kprconfig.Config {
	return &kprconfig.Config{
		InstanceID: 1,
		Shuttermint: &kprconfig.ShuttermintConfig{
			ValidatorPublicKey: &keys.Ed25519Public{Key: ValKey(i)},
			EncryptionKey:      &keys.ECDSAPrivate{Key: EncKey(i)},
			DKGPhaseLength:     s.L,
			DKGStartBlockDelta: s.StartDelta,
		},
		Ethereum: &configuration.EthnodeConfig{PrivateKey: &keys.ECDSAPrivate{Key: SignKey(i)}},
	}
}

// ---------- keyper databases ----------

var (
	tmplMu sync.Mutex
	tmpls  = map[string]*minipg.DB{}
	dbN    int
)

// newKeyperDB returns a fresh keyper database: the repository's schema
// (db.InitDB with keyper/database.Definition, through kpx.NewPool) plus the
// keyper_set row the chain observer would have written for the new keyper set.
func newKeyperDB(s Setup) *pgxpool.Pool {
	tmplMu.Lock()
	defer tmplMu.Unlock()
	key := fmt.Sprintf("%d/%d/%d/%d", s.N, s.T, s.NewSetIndex, s.Activation)
	t, ok := tmpls[key]
	if !ok {
		pool := kpx.NewPool(kprdatabase.Definition)
		err := obskeyper.New(pool).InsertKeyperSet(context.Background(), obskeyper.InsertKeyperSetParams{
			KeyperConfigIndex:     s.NewSetIndex,
			ActivationBlockNumber: s.Activation,
			Keypers:               shdb.EncodeAddresses(s.Members()),
			Threshold:             int32(s.T),
		})
		if err != nil {
			panic(err)
		}
		t = pool.DB()
		tmpls[key] = t
	}
	dbN++
	d := t.Clone()
	d.ResetRoundTrips()
	return pgxpool.NewWithDB(fmt.Sprintf("shmx-%d", dbN), d)
}

// ---------- crash injection ----------

// crashSentinel is the private panic value of an injected crash.
type crashSentinel struct{ where string }

var errInjected = errors.New("shmx: injected failure (connection reset by peer)")

var errDead = errors.New("shmx: the keyper process is dead (round trip after an injected crash)")

// CrashPoint names one instant in the life of a keyper.
type CrashPoint struct {
	// RPC selects the shuttermint RPC call counter instead of the database
	// round trip counter.
	RPC bool `json:"rpc,omitempty"`
	// Seq is the number of the round trip / call. With Rel it is counted from
	// the moment the point is armed (i.e. from the previous restart).
	Seq int  `json:"seq"`
	Rel bool `json:"rel,omitempty"`
	// After: the request was applied but the reply is lost. Otherwise the
	// process dies before the request is sent.
	After bool `json:"after,omitempty"`
	// Err: no crash; the round trip / call fails with an error (database: the
	// request is refused unapplied; rpc: a network error before the call or, with
	// After, after the chain executed it). The process lives and keeps its
	// in-memory objects.
	Err bool `json:"err,omitempty"`
}

func (c CrashPoint) String() string {
	w := "db round trip"
	if c.RPC {
		w = "shuttermint rpc call"
	}
	m := "before it is sent"
	if c.After {
		m = "after it was applied, reply lost"
	}
	if c.Err {
		m = "fails with an error (" + m + ")"
	}
	r := ""
	if c.Rel {
		r = " after the restart"
	}
	return fmt.Sprintf("%s %d%s, %s", w, c.Seq, r, m)
}

// ---------- the honest keyper ----------

// Keyper is one honest keyper: everything operateShuttermint touches.
type Keyper struct {
	Idx    int
	Setup  Setup
	Cfg    *kprconfig.Config
	Pool   *pgxpool.Pool
	Client *Client

	// in-memory objects of the process, rebuilt by Restart
	state  *smobserver.ShuttermintState
	sender fx.RPCMessageSender
	core   *keyper.KeyperCore

	Restarts int
	Crashes  []string // description of every injected crash that fired
	Injected []string // description of every injected error that fired
	Errors   []string // errors returned by steps
	Panics   []string // genuine panics / log.Fatal of the keyper code

	dead  bool
	armed *CrashPoint // absolute
	plan  []CrashPoint

	// OnCommit, if set, is called at every commit point of the keyper's
	// database (with the committed state readable through Pool.DB()).
	OnCommit func(k *Keyper)
	// OnRestart, if set, is called after the in-memory objects were rebuilt.
	OnRestart func(k *Keyper)
	// OnError, if set, is called when an iteration ended with an injected error.
	OnError func(k *Keyper)
	// RoundTrips logs kind+table of every round trip when LogRoundTrips is set.
	LogRoundTrips bool
	RTLog         []string
}

func newKeyper(i int, s Setup, chain *Chain) *Keyper {
	k := &Keyper{Idx: i, Setup: s, Cfg: s.config(i), Pool: newKeyperDB(s), Client: &Client{Chain: chain}}
	k.Pool.DB().SetHooks(&minipg.Hooks{Before: k.before, After: k.after, OnCommit: k.onCommit})
	k.Client.Fault = k.rpcFault
	k.build()
	return k
}

// build creates the in-memory objects the way KeyperCore.Start does:
// NewShuttermintState(config) (its content is loaded lazily from the database
// by Load), NewRPCMessageSender(client, signing key).
func (k *Keyper) build() {
	k.state = smobserver.NewShuttermintState(k.Cfg)
	k.sender = fx.NewRPCMessageSender(k.Client, k.Cfg.Ethereum.PrivateKey.Key)
	k.core = keyper.VerifNewCore(k.Cfg, k.Pool)
}

// Restart throws away every in-memory object and rebuilds them from scratch;
// open transactions are dropped like the server does when the connection dies.
func (k *Keyper) Restart() {
	k.Pool.DB().AbortAll()
	k.dead = false
	k.Restarts++
	k.build()
	k.armNext()
	if k.OnRestart != nil {
		k.OnRestart(k)
	}
}

// SetCrashPlan installs the crash points (fired one after the other; a Rel
// point counts from the restart that follows the previous one).
func (k *Keyper) SetCrashPlan(plan []CrashPoint) {
	k.plan = append([]CrashPoint(nil), plan...)
	k.armNext()
}

func (k *Keyper) armNext() {
	k.armed = nil
	if len(k.plan) == 0 {
		return
	}
	p := k.plan[0]
	k.plan = k.plan[1:]
	if p.Rel {
		if p.RPC {
			p.Seq += k.Client.Calls
		} else {
			p.Seq += k.Pool.DB().RoundTrips()
		}
		p.Rel = false
	}
	k.armed = &p
}

func (k *Keyper) fire(where string) {
	k.dead = true
	k.armed = nil
	k.Crashes = append(k.Crashes, where)
	panic(crashSentinel{where})
}

func (k *Keyper) before(rt minipg.RoundTrip) error {
	if k.dead {
		return errDead
	}
	if k.LogRoundTrips {
		k.RTLog = append(k.RTLog, rt.Kind+" "+sqlHead(rt.SQL))
	}
	if a := k.armed; a != nil && !a.RPC && !a.After && a.Seq == rt.Seq {
		if a.Err {
			k.Injected = append(k.Injected, fmt.Sprintf("db round trip %d (%s %s) fails", rt.Seq, rt.Kind, sqlHead(rt.SQL)))
			k.armNext()
			return errInjected
		}
		k.fire(fmt.Sprintf("before db round trip %d (%s %s)", rt.Seq, rt.Kind, sqlHead(rt.SQL)))
	}
	return nil
}

func (k *Keyper) after(rt minipg.RoundTrip, _ error) {
	if k.dead {
		return
	}
	if a := k.armed; a != nil && !a.RPC && a.After && a.Seq == rt.Seq {
		k.fire(fmt.Sprintf("after db round trip %d (%s %s) was applied", rt.Seq, rt.Kind, sqlHead(rt.SQL)))
	}
}

func (k *Keyper) onCommit(_ *minipg.DB) {
	if k.OnCommit != nil {
		k.OnCommit(k)
	}
}

func (k *Keyper) rpcFault(call RPCCall, applied bool) error {
	if k.dead {
		// a dead process makes no calls; this is Go unwinding through defers
		return errDead
	}
	if a := k.armed; a != nil && a.RPC && a.After == applied && a.Seq == call.Seq {
		when := "before"
		if applied {
			when = "after the chain executed"
		}
		if a.Err {
			k.Injected = append(k.Injected, fmt.Sprintf("%s rpc call %d (%s): network error", when, call.Seq, call.Method))
			k.armNext()
			return errInjected
		}
		k.fire(fmt.Sprintf("%s rpc call %d (%s)", when, call.Seq, call.Method))
	}
	return nil
}

func sqlHead(sql string) string {
	f := strings.Fields(sql)
	// drop the sqlc "-- name: X :one" header
	if len(f) > 4 && f[0] == "--" && f[1] == "name:" {
		return f[2]
	}
	if len(f) > 3 {
		f = f[:3]
	}
	return strings.Join(f, " ")
}

// StepResult says how one iteration of operateShuttermint ended.
type StepResult struct {
	Crashed  bool   // an injected crash fired; the keyper was restarted
	Err      string // the iteration returned an error (operateShuttermint would end)
	Injected bool   // the error is an injected failure; the keyper keeps its objects
	Panic    string // a genuine panic or log.Fatal in the keyper code
}

// Step is one iteration of KeyperCore.operateShuttermint: SyncAppWithDB,
// handleOnChainChanges inside BeginFunc, SendShutterMessages. l1 is the main
// chain's block number (blockSyncClient.BlockNumber).
//
// An error or a panic ends the keyper process; the harness restarts it
// (systemd/docker restart policy) before its next step.
func (k *Keyper) Step(l1 uint64) (res StepResult) {
	ctx := context.Background()
	defer func() {
		p := recover()
		if p == nil {
			return
		}
		switch v := p.(type) {
		case crashSentinel:
			res.Crashed = true
		case fatalExit:
			res.Panic = "log.Fatal: " + v.Msg
			k.Panics = append(k.Panics, res.Panic)
		default:
			res.Panic = fmt.Sprintf("panic: %v\n%s", p, trimStack(debug.Stack()))
			k.Panics = append(k.Panics, firstLine(res.Panic))
		}
		k.Restart()
	}()
	injectedBefore := len(k.Injected)
	err := smobserver.SyncAppWithDB(ctx, k.Client, k.Pool, k.state)
	if err == nil {
		err = k.Pool.BeginFunc(ctx, func(tx pgx.Tx) error {
			return k.core.VerifHandleOnChainChanges(ctx, tx, l1)
		})
	}
	if err == nil {
		err = fx.SendShutterMessages(ctx, kprdatabase.New(k.Pool), &k.sender)
	}
	// An injected failure ended or disturbed this iteration (the keyper's code
	// may have swallowed it and retried nothing, or a later statement of the same
	// transaction failed with 25P02): the caller re-enters the loop with the same
	// objects. ShuttermintState's contract for that is Invalidate on error + reload.
	res.Injected = len(k.Injected) > injectedBefore
	if err != nil {
		res.Err = firstLine(err.Error())
		if res.Injected {
			if k.OnError != nil {
				k.OnError(k)
			}
			return res
		}
		k.Errors = append(k.Errors, res.Err)
		k.Restart()
	}
	return res
}

func trimStack(b []byte) string {
	lines := strings.Split(string(b), "\n")
	if len(lines) > 50 {
		lines = lines[:50]
	}
	return strings.Join(lines, "\n")
}

// Address of the keyper.
func (k *Keyper) Address() common.Address { return k.Cfg.GetAddress() }

// DB is the keyper's database.
func (k *Keyper) DB() *minipg.DB { return k.Pool.DB() }
