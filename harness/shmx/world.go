package shmx

import (
	"crypto/sha256"
	"fmt"
	"math/big"
	"sort"
	"strings"

	"github.com/ethereum/go-ethereum/common"
	"github.com/ethereum/go-ethereum/crypto/ecies"
	"google.golang.org/protobuf/proto"

	"github.com/shutter-network/shutter/shlib/shcrypto"

	"github.com/shutter-network/rolling-shutter/rolling-shutter/keyper/shutterevents"
	"github.com/shutter-network/rolling-shutter/rolling-shutter/shmsg"
)

var order, _ = new(big.Int).SetString("73eda753299d7d483339d80809a1d80553bda402fffe5bfeffffffff00000001", 16)

// Commitment alphabet of a scripted keyper.
const (
	CommitCorrect = iota
	CommitNone
	CommitTooFew  // one gamma fewer than the threshold demands
	CommitTooMany // one gamma more
	CommitTwice   // the correct one followed by a second, different one
	NumCommit
)

// Eval alphabet (per honest receiver).
const (
	EvalCorrect = iota
	EvalWrong   // a valid scalar that does not match the commitment
	EvalNone    // receiver left out
	NumEval
)

// Apology alphabet (per honest keyper).
const (
	ApologyHonest   = iota // the correct evaluation iff that keyper accused us
	ApologyWrong           // an apology carrying a wrong value (whether accused or not)
	ApologyOpposite        // silent if accused; an unsolicited correct apology if not
	NumApology
)

// Message classes for the timing choice.
const (
	ClassCommit = iota
	ClassEval
	ClassAccuse
	ClassApology
	NumClass
)

// Strategy is the script of one Byzantine keyper for a key generation. It
// checks in and votes for the batch config honestly so that the eon starts.
type Strategy struct {
	Commit  int            `json:"commit"`
	Evals   map[int]int    `json:"evals,omitempty"`   // honest keyper -> Eval*
	Accuse  int            `json:"accuse"`            // -1 none, else the honest keyper accused falsely
	Apology map[int]int    `json:"apology,omitempty"` // honest keyper -> Apology*
	Late    [NumClass]bool `json:"late"`              // false: last block of the phase; true: first block of the next phase
	// EvalsFirst: the evaluations are sent before the commitment (matters when both
	// land in the same block: honest keypers then see the evaluation of a dealer whose
	// commitment they do not know yet)
	EvalsFirst bool `json:"evals_first,omitempty"`
}

// HonestStrategy is fully honest behaviour.
func HonestStrategy() Strategy { return Strategy{Accuse: -1} }

func (s Strategy) String() string {
	var p []string
	p = append(p, "commit="+[...]string{"correct", "none", "too-few-gammas", "too-many-gammas", "twice"}[s.Commit])
	var ks []int
	for k := range s.Evals {
		ks = append(ks, k)
	}
	sort.Ints(ks)
	for _, k := range ks {
		if s.Evals[k] != EvalCorrect {
			p = append(p, fmt.Sprintf("eval->%d=%s", k, [...]string{"correct", "wrong", "none"}[s.Evals[k]]))
		}
	}
	if s.Accuse >= 0 {
		p = append(p, fmt.Sprintf("accuses %d falsely", s.Accuse))
	}
	ks = ks[:0]
	for k := range s.Apology {
		ks = append(ks, k)
	}
	sort.Ints(ks)
	for _, k := range ks {
		if s.Apology[k] != ApologyHonest {
			p = append(p, fmt.Sprintf("apology->%d=%s", k, [...]string{"honest", "wrong", "opposite"}[s.Apology[k]]))
		}
	}
	if s.EvalsFirst {
		p = append(p, "evaluations before the commitment")
	}
	for c, l := range s.Late {
		if l {
			p = append(p, [...]string{"commitment", "evals", "accusation", "apology"}[c]+" one phase late")
		}
	}
	return strings.Join(p, ", ")
}

// Schedule is the environment's part of a run.
type Schedule struct {
	// Delay[k][p] = number of blocks keyper k pauses when it would first handle
	// the first block of DKG phase p (0 dealing, 1 accusing, 2 apologizing) of
	// the first eon. With phase length L a keyper lags the head by two blocks, so
	// a message lands 3+delay blocks into its phase.
	Delay map[int][3]int `json:"delay,omitempty"`
	// Order[h] = index of the permutation of the participants' steps in block h
	// (0 = ascending).
	Order map[int64]int `json:"order,omitempty"`
	// LateStart[k] = the keyper process k is started only once this many blocks are
	// closed (its check-in then reaches shuttermint after the others')
	LateStart map[int]int64 `json:"late_start,omitempty"`
}

func (s Schedule) String() string {
	var p []string
	var ks []int
	for k := range s.Delay {
		ks = append(ks, k)
	}
	sort.Ints(ks)
	for _, k := range ks {
		for ph, d := range s.Delay[k] {
			if d != 0 {
				p = append(p, fmt.Sprintf("keyper %d pauses %d block(s) at the start of phase %d", k, d, ph+1))
			}
		}
	}
	var hs []int64
	for h := range s.Order {
		hs = append(hs, h)
	}
	sort.Slice(hs, func(i, j int) bool { return hs[i] < hs[j] })
	for _, h := range hs {
		if s.Order[h] != 0 {
			p = append(p, fmt.Sprintf("block %d: step order permutation %d", h, s.Order[h]))
		}
	}
	if len(p) == 0 {
		return "default schedule"
	}
	return strings.Join(p, ", ")
}

// Spec describes one run.
type Spec struct {
	Setup    Setup
	Byz      map[int]Strategy // scripted keypers; all others are real keypers
	Schedule Schedule
	Seed     string
	MaxEons  int // key generations followed to their end (default 1)
	// Crash plan of one real keyper (C08).
	Victim int
	Crash  []CrashPoint
}

// byzState is the scripted keyper's per-eon secret.
type byzState struct {
	poly, poly2 *shcrypto.Polynomial
}

// World is one run in progress.
type World struct {
	Spec    Spec
	Chain   *Chain
	Keypers map[int]*Keyper // the real keypers
	Honest  []int           // their indices, ascending
	ByzIdx  []int
	byz     map[int]map[uint64]*byzState
	nonce   uint64

	EonStart map[uint64]int64 // eon -> height of its EonStarted event
	Eons     []uint64         // in order of start
	Steps    int
	StepLog  []string // "h<open> k<i> <result>" for every step that did not end normally
	Vote     int64    // block in which the batch-config votes are cast
}

// Fixed points of the prologue: the keypers see a main-chain block number that
// lets them vote for the new keyper set once the open block is VoteBlock.
const (
	CheckInBlock = 4 // honest check-ins land here (genesis event of block 1 is handled when block 3 is committed)
	VoteBlock    = 5
	l1Early      = 100
)

// NewWorld builds chain and keypers.
func NewWorld(spec Spec) *World {
	if spec.MaxEons == 0 {
		spec.MaxEons = 1
	}
	SeedRand(spec.Seed)
	s := spec.Setup
	w := &World{Spec: spec, Chain: NewChain(s.GenesisMembers(), s.GenesisThreshold()), Keypers: map[int]*Keyper{}, byz: map[int]map[uint64]*byzState{}, EonStart: map[uint64]int64{}, nonce: 1 << 40}
	for i := 0; i < s.N; i++ {
		if _, ok := spec.Byz[i]; ok {
			w.ByzIdx = append(w.ByzIdx, i)
			w.byz[i] = map[uint64]*byzState{}
			continue
		}
		w.Honest = append(w.Honest, i)
		w.Keypers[i] = newKeyper(i, s, w.Chain)
	}
	if len(spec.Crash) > 0 {
		w.Keypers[spec.Victim].SetCrashPlan(spec.Crash)
	}
	return w
}

// l1 is the main chain's block number the keypers see while block `open` is open.
func (w *World) l1(open int64) uint64 {
	s := w.Spec.Setup
	switch {
	case open < VoteBlock:
		return l1Early
	case s.L1Past:
		return uint64(s.Activation) + 1
	case len(w.Eons) > 0 && w.Chain.Committed >= w.EonStart[w.Eons[0]]+3*s.L+3:
		return uint64(s.Activation) + 1 // the new set's activation block has passed
	default:
		return uint64(s.Activation) - 5 // within DKGStartBlockDelta of the activation
	}
}

// Perms returns the permutations of 0..n-1 in lexicographic order.
func Perms(n int) [][]int {
	var out [][]int
	cur := make([]int, 0, n)
	used := make([]bool, n)
	var rec func()
	rec = func() {
		if len(cur) == n {
			out = append(out, append([]int(nil), cur...))
			return
		}
		for i := 0; i < n; i++ {
			if !used[i] {
				used[i] = true
				cur = append(cur, i)
				rec()
				cur = cur[:len(cur)-1]
				used[i] = false
			}
		}
	}
	rec()
	return out
}

var permCache = map[int][][]int{}

func perms(n int) [][]int {
	if p, ok := permCache[n]; ok {
		return p
	}
	p := Perms(n)
	permCache[n] = p
	return p
}

// paused reports whether the schedule makes keyper k skip its step while
// `committed` is the last closed block.
func (w *World) paused(k int, committed int64) bool {
	if h, ok := w.Spec.Schedule.LateStart[k]; ok && committed < h {
		return true
	}
	d, ok := w.Spec.Schedule.Delay[k]
	if !ok || len(w.Eons) == 0 {
		return false
	}
	s0 := w.EonStart[w.Eons[0]]
	handled := committed - 2 // newest block the keyper would handle now
	for p := 0; p < 3; p++ {
		first := s0 + int64(p)*w.Spec.Setup.L
		if handled >= first && handled < first+int64(d[p]) {
			return true
		}
	}
	return false
}

// PlayBlock lets every participant act once while the current block is open
// and then closes it.
func (w *World) PlayBlock() {
	open := w.Chain.Open()
	n := w.Spec.Setup.N
	ord := perms(n)[w.Spec.Schedule.Order[open]]
	for _, i := range ord {
		if k, ok := w.Keypers[i]; ok {
			if w.paused(i, w.Chain.Committed) {
				continue
			}
			// A crash costs no block time: the restarted process runs its loop
			// again while the same block is open.
			for attempt := 0; ; attempt++ {
				w.Steps++
				res := k.Step(w.l1(open))
				if res.Crashed {
					w.StepLog = append(w.StepLog, fmt.Sprintf("h%d k%d crash: %s", open, i, k.Crashes[len(k.Crashes)-1]))
					if attempt < 8 {
						continue
					}
				}
				if res.Injected {
					w.StepLog = append(w.StepLog, fmt.Sprintf("h%d k%d injected error: %s", open, i, k.Injected[len(k.Injected)-1]))
					if attempt < 8 {
						continue
					}
				}
				if res.Err != "" {
					w.StepLog = append(w.StepLog, fmt.Sprintf("h%d k%d error: %s", open, i, res.Err))
				}
				if res.Panic != "" {
					w.StepLog = append(w.StepLog, fmt.Sprintf("h%d k%d %s", open, i, firstLine(res.Panic)))
				}
				break
			}
		} else {
			w.byzAct(i, open)
		}
	}
	w.Chain.CloseBlock()
	for _, ev := range w.Chain.EventsOf(open) {
		x, err := shutterevents.MakeEvent(ev, open)
		if err != nil {
			continue
		}
		if es, ok := x.(*shutterevents.EonStarted); ok {
			w.EonStart[es.Eon] = open
			w.Eons = append(w.Eons, es.Eon)
		}
	}
}

// End is the height after which nothing more can happen for the eons followed.
func (w *World) End() int64 {
	s := w.Spec.Setup
	if len(w.Eons) == 0 {
		return VoteBlock + 4
	}
	n := len(w.Eons)
	if n > w.Spec.MaxEons {
		n = w.Spec.MaxEons
	}
	// finalisation is handled when S+3L+2 is committed, the result vote lands in
	// S+3L+3; a restarted eon would start there. Four more blocks drain the rest.
	return w.EonStart[w.Eons[n-1]] + 3*s.L + 8
}

// Run plays blocks until the horizon.
func (w *World) Run() {
	for w.Chain.Committed < w.End() {
		w.PlayBlock()
	}
}

// ---------- the scripted keypers ----------

func (w *World) send(from int, m *shmsg.Message) {
	w.nonce++
	w.Chain.SendAs(SignKey(from), w.nonce, m)
}

func (w *World) byzSecrets(b int, eon uint64) *byzState {
	st := w.byz[b][eon]
	if st != nil {
		return st
	}
	r := &detReader{seed: sha256.Sum256([]byte(fmt.Sprintf("shmx-byz-%d-eon-%d-%s", b, eon, w.Spec.Seed)))}
	deg := uint64(w.Spec.Setup.T - 1)
	p1, err := shcrypto.RandomPolynomial(r, deg)
	if err != nil {
		panic(err)
	}
	p2, err := shcrypto.RandomPolynomial(r, deg+1)
	if err != nil {
		panic(err)
	}
	st = &byzState{poly: p1, poly2: p2}
	w.byz[b][eon] = st
	return st
}

func (w *World) byzAct(b int, open int64) {
	st := w.Spec.Byz[b]
	s := w.Spec.Setup
	if open == 2 {
		w.send(b, shmsg.NewCheckIn(ValKey(b), EncPub(b)))
	}
	if open == VoteBlock {
		w.send(b, shmsg.NewBatchConfig(uint64(s.Activation), s.Members(), uint64(s.T), uint64(s.NewSetIndex)))
	}
	for n, eon := range w.Eons {
		if n >= w.Spec.MaxEons {
			break
		}
		S := w.EonStart[eon]
		at := func(class, phase int) bool {
			h := S + int64(phase+1)*s.L - 1
			if st.Late[class] {
				h++
			}
			return open == h
		}
		sec := w.byzSecrets(b, eon)
		sendCommit := func() {
			g := *sec.poly.Gammas()
			switch st.Commit {
			case CommitCorrect:
				w.send(b, shmsg.NewPolyCommitment(eon, &g))
			case CommitTooFew:
				few := g[:len(g)-1]
				w.send(b, shmsg.NewPolyCommitment(eon, &few))
			case CommitTooMany:
				g2 := *sec.poly2.Gammas()
				many := append(append(shcrypto.Gammas{}, g...), g2[len(g2)-1])
				w.send(b, shmsg.NewPolyCommitment(eon, &many))
			case CommitTwice:
				w.send(b, shmsg.NewPolyCommitment(eon, &g))
				g2 := (*sec.poly2.Gammas())[:len(g)]
				w.send(b, shmsg.NewPolyCommitment(eon, &g2))
			}
		}
		if at(ClassCommit, 0) && !st.EvalsFirst {
			sendCommit()
		}
		if at(ClassEval, 0) {
			var recv []common.Address
			var enc [][]byte
			for _, h := range w.Honest {
				mode := st.Evals[h]
				if mode == EvalNone {
					continue
				}
				v := sec.poly.EvalForKeyper(h)
				if mode == EvalWrong {
					v = new(big.Int).Mod(new(big.Int).Add(v, big.NewInt(1)), order)
				}
				rd := &detReader{seed: sha256.Sum256([]byte(fmt.Sprintf("ecies-%d-%d-%d-%s", b, h, eon, w.Spec.Seed)))}
				ct, err := ecies.Encrypt(rd, EncPub(h), v.Bytes(), nil, nil)
				if err != nil {
					panic(err)
				}
				recv = append(recv, Addr(h))
				enc = append(enc, ct)
			}
			if len(recv) > 0 {
				w.send(b, shmsg.NewPolyEval(eon, recv, enc))
			}
		}
		if at(ClassCommit, 0) && st.EvalsFirst {
			sendCommit()
		}
		if at(ClassAccuse, 1) && st.Accuse >= 0 {
			w.send(b, shmsg.NewAccusation(eon, []common.Address{Addr(st.Accuse)}))
		}
		if at(ClassApology, 2) {
			accusedBy := map[int]bool{}
			for _, t := range w.Chain.Txs {
				if a := t.Msg.GetAccusation(); a != nil && t.Check == 0 && t.Deliver == 0 && a.Eon == eon {
					for _, x := range a.Accused {
						if common.BytesToAddress(x) == Addr(b) {
							accusedBy[w.indexOf(t.From)] = true
						}
					}
				}
			}
			var accusers []common.Address
			var vals []*big.Int
			for _, h := range w.Honest {
				v := sec.poly.EvalForKeyper(h)
				switch st.Apology[h] {
				case ApologyHonest:
					if !accusedBy[h] {
						continue
					}
				case ApologyWrong:
					v = new(big.Int).Mod(new(big.Int).Add(v, big.NewInt(1)), order)
				case ApologyOpposite:
					if accusedBy[h] {
						continue
					}
				}
				accusers = append(accusers, Addr(h))
				vals = append(vals, v)
			}
			if len(accusers) > 0 {
				w.send(b, shmsg.NewApology(eon, accusers, vals))
			}
		}
	}
}

func (w *World) indexOf(a common.Address) int {
	for i := 0; i < w.Spec.Setup.N; i++ {
		if Addr(i) == a {
			return i
		}
	}
	return -1
}

// ---------- observation ----------

// Observation is the canonical text of everything a run produced, without the
// wall-clock column tendermint_sync_meta.sync_timestamp. Two places where the
// code under test iterates a Go map are canonicalised, because they do not
// change what a message or a row means: the (accuser, evaluation) pairs of an
// apology (puredkg.StartPhase3Apologizing ranges over a map) are sorted, and the
// gob bytes of a stored PureDKG (maps inside) are reduced to their length.
func (w *World) Observation() string {
	var sb strings.Builder
	for _, t := range w.Chain.Txs {
		fmt.Fprintf(&sb, "tx h=%d i=%d from=%d %s nonce=%d check=%d deliver=%d msg=%x\n", t.Height, t.Index, w.indexOf(t.From), Kind(t.Msg), t.Nonce, t.Check, t.Deliver, msgDigest(t.Msg))
	}
	for _, i := range w.Honest {
		k := w.Keypers[i]
		fmt.Fprintf(&sb, "== keyper %d restarts=%d errors=%v panics=%v\n", i, k.Restarts, k.Errors, k.Panics)
		sb.WriteString(DumpDB(k))
	}
	for _, l := range w.StepLog {
		sb.WriteString(l + "\n")
	}
	return sb.String()
}

func msgDigest(m *shmsg.Message) []byte {
	if m == nil {
		return nil
	}
	var b []byte
	if a := m.GetApology(); a != nil && len(a.Accusers) == len(a.PolyEvals) {
		var pairs []string
		for i := range a.Accusers {
			pairs = append(pairs, fmt.Sprintf("%x=%x", a.Accusers[i], a.PolyEvals[i]))
		}
		sort.Strings(pairs)
		b = []byte(fmt.Sprintf("apology eon=%d %s", a.Eon, strings.Join(pairs, ",")))
	} else {
		b, _ = protoDet(m)
	}
	h := sha256.Sum256(b)
	return h[:8]
}

// DumpDB renders the keyper's committed database without sync timestamps (and
// with the canonicalisations described at Observation).
func DumpDB(k *Keyper) string {
	db := k.DB()
	special := map[string]bool{"tendermint_sync_meta": true, "puredkg": true, "tendermint_outgoing_messages": true}
	var names []string
	for _, t := range db.Tables() {
		if !special[t] {
			names = append(names, t)
		}
	}
	var sb strings.Builder
	sb.WriteString(db.Dump(names...))
	sb.WriteString("## tendermint_sync_meta (current_block, last_committed_height)\n")
	var lines []string
	for _, r := range db.Rows("tendermint_sync_meta") {
		lines = append(lines, fmt.Sprintf("%v|%v", r[0], r[1]))
	}
	sort.Strings(lines)
	sb.WriteString(strings.Join(lines, "\n") + "\n")
	sb.WriteString("## puredkg (eon, length of the gob)\n")
	lines = lines[:0]
	for _, r := range db.Rows("puredkg") {
		b, _ := r[1].([]byte)
		lines = append(lines, fmt.Sprintf("%v|%d", r[0], len(b)))
	}
	sort.Strings(lines)
	sb.WriteString(strings.Join(lines, "\n") + "\n")
	sb.WriteString("## tendermint_outgoing_messages (id, description, message)\n")
	ids, descs, raws := Outbox(k)
	for i := range ids {
		m := &shmsg.Message{}
		_ = proto.Unmarshal(raws[i], m)
		fmt.Fprintf(&sb, "%d|%s|%x\n", ids[i], descs[i], msgDigest(m))
	}
	return sb.String()
}
