// Package syncx closes the environment of the chain-event syncers: the real
// RegistrySyncer, MultiEventSyncer (+ EventTriggerRegisteredEventProcessor and
// TriggerProcessor) and Gnosis SequencerSyncer run against a fakechain block
// tree and one minipg database each (schema installed by the repository's own
// db.InitDB). It provides
//
//   - Env: one syncer + database + chain, with Step = "show a head, call Sync"
//     under an optional fault (RPC error at call k, statement error at database
//     round trip k, crash before / after round trip k) and a commit hook;
//   - Event: what a contract emits, how the row it must produce looks like, and
//     the reference admissibility predicate;
//   - readers that turn the sync-status row and the event tables into canonical
//     strings.
//
// Nothing in here decides a property; the oracles live in cmd/synccheck.
package syncx

import (
	"context"
	"encoding/hex"
	"fmt"
	"math"
	"math/big"
	"sort"
	"strings"
	"sync"

	"github.com/ethereum/go-ethereum/common"
	"github.com/ethereum/go-ethereum/core/types"
	"github.com/ethereum/go-ethereum/crypto"
	"github.com/jackc/pgx/v4/minipg"
	"github.com/jackc/pgx/v4/pgxpool"
	"github.com/rs/zerolog"
	triggerRegistryV1Bindings "github.com/shutter-network/contracts/v2/bindings/shuttereventtriggerregistryv1"
	registryBindings "github.com/shutter-network/contracts/v2/bindings/shutterregistry"
	sequencerBindings "github.com/shutter-network/gnosh-contracts/gnoshcontracts/sequencer"

	"github.com/shutter-network/rolling-shutter/rolling-shutter/keyperimpl/gnosis"
	gnosisdatabase "github.com/shutter-network/rolling-shutter/rolling-shutter/keyperimpl/gnosis/database"
	"github.com/shutter-network/rolling-shutter/rolling-shutter/keyperimpl/shutterservice"
	servicedatabase "github.com/shutter-network/rolling-shutter/rolling-shutter/keyperimpl/shutterservice/database"
	"github.com/shutter-network/rolling-shutter/rolling-shutter/medley/db"

	"verif/harness/fakechain"
)

func init() {
	zerolog.SetGlobalLevel(zerolog.Disabled)
}

// Contract addresses used by every harness.
var (
	RegistryAddr        = common.HexToAddress("0x1111111111111111111111111111111111110001")
	TriggerRegistryAddr = common.HexToAddress("0x1111111111111111111111111111111111110002")
	SequencerAddr       = common.HexToAddress("0x1111111111111111111111111111111111110003")
	TargetAddr          = common.HexToAddress("0x2222222222222222222222222222222222220001") // contract watched by event triggers
	OtherAddr           = common.HexToAddress("0x2222222222222222222222222222222222220002")
)

// GenesisTime is the timestamp of block 0 of every generated chain (also the
// Gnosis genesis slot timestamp, so slots are never negative).
const GenesisTime = 1_700_000_000

// Kind selects the syncer under test.
type Kind string

const (
	Registry  Kind = "registry"  // shutterservice.RegistrySyncer / IdentityRegistered
	Multi     Kind = "multi"     // shutterservice.MultiEventSyncer / EventTriggerRegistered (+ fired triggers)
	Sequencer Kind = "sequencer" // gnosis.SequencerSyncer / TransactionSubmitted
)

// Kinds lists all syncers.
var Kinds = []Kind{Registry, Multi, Sequencer}

// StatusTable / EventTable are the tables the property talks about.
func (k Kind) StatusTable() string {
	switch k {
	case Registry:
		return "identity_registered_events_synced_until"
	case Multi:
		return "multi_event_sync_status"
	default:
		return "transaction_submitted_events_synced_until"
	}
}

func (k Kind) EventTable() string {
	switch k {
	case Registry:
		return "identity_registered_event"
	case Multi:
		return "event_trigger_registered_event"
	default:
		return "transaction_submitted_event"
	}
}

// ---------- databases ----------

var (
	tmplMu sync.Mutex
	tmpls  = map[string]*minipg.DB{}
	poolN  int
)

// NewPool returns a pool on a fresh database with the definition installed by
// the repository's db.InitDB (the initialised database is cached and cloned).
func NewPool(def db.Definition) *pgxpool.Pool {
	tmplMu.Lock()
	defer tmplMu.Unlock()
	t, ok := tmpls[def.Name()]
	if !ok {
		name := "syncx-tmpl-" + def.Name()
		minipg.Drop(name)
		pool, err := pgxpool.Connect(context.Background(), "minipg://"+name)
		if err != nil {
			panic(err)
		}
		if err := db.InitDB(context.Background(), pool, def.Name()+"-verif", def); err != nil {
			panic(fmt.Sprintf("InitDB(%s): %v", def.Name(), err))
		}
		t = pool.DB()
		tmpls[def.Name()] = t
	}
	poolN++
	return pgxpool.NewWithDB(fmt.Sprintf("syncx-%d", poolN), t.Clone())
}

// ---------- environment ----------

// Syncer is what all three syncers have in common.
type Syncer interface {
	Sync(ctx context.Context, header *types.Header) error
}

// Options configure the syncer construction.
type Options struct {
	Start uint64 // SyncStartBlockNumber
	// MultiEventSyncer only:
	MaxRequestBlockRange uint64 // 0 = the constructor's default
	AssumedReorgDepth    int    // 0 = the constructor's default
	NoTriggerProcessor   bool   // register only the EventTriggerRegistered processor
}

// Env is one syncer with its database and chain.
type Env struct {
	Kind   Kind
	Opt    Options
	Chain  *fakechain.Chain
	Pool   *pgxpool.Pool
	DB     *minipg.DB
	Syncer Syncer
}

// NewEnv builds a fresh database and the real syncer on top of chain.
func NewEnv(kind Kind, chain *fakechain.Chain, opt Options) *Env {
	e := &Env{Kind: kind, Opt: opt, Chain: chain}
	if kind == Sequencer {
		e.Pool = NewPool(gnosisdatabase.Definition)
	} else {
		e.Pool = NewPool(servicedatabase.Definition)
	}
	e.DB = e.Pool.DB()
	e.Rebuild()
	return e
}

// Rebuild throws the syncer object away and constructs a new one on the same
// database, the way a restarted keyper does (keyper.go initRegistrySyncer,
// initMultiEventSyncer, initSequencerSyncer).
func (e *Env) Rebuild() {
	client := e.Chain.Client()
	switch e.Kind {
	case Registry:
		contract, err := registryBindings.NewShutterregistry(RegistryAddr, client)
		if err != nil {
			panic(err)
		}
		e.Syncer = &shutterservice.RegistrySyncer{
			Contract:             contract,
			DBPool:               e.Pool,
			ExecutionClient:      client,
			SyncStartBlockNumber: e.Opt.Start,
		}
	case Multi:
		contract, err := triggerRegistryV1Bindings.NewShuttereventtriggerregistryv1(TriggerRegistryAddr, client)
		if err != nil {
			panic(err)
		}
		procs := []shutterservice.EventProcessor{shutterservice.NewEventTriggerRegisteredEventProcessor(contract, e.Pool)}
		if !e.Opt.NoTriggerProcessor {
			procs = append(procs, shutterservice.NewTriggerProcessor(client, e.Pool))
		}
		s, err := shutterservice.NewMultiEventSyncer(e.Pool, client, e.Opt.Start, procs)
		if err != nil {
			panic(err)
		}
		if e.Opt.MaxRequestBlockRange != 0 {
			s.MaxRequestBlockRange = e.Opt.MaxRequestBlockRange
		}
		if e.Opt.AssumedReorgDepth != 0 {
			s.AssumedReorgDepth = e.Opt.AssumedReorgDepth
		}
		e.Syncer = s
	case Sequencer:
		contract, err := sequencerBindings.NewSequencer(SequencerAddr, client)
		if err != nil {
			panic(err)
		}
		e.Syncer = &gnosis.SequencerSyncer{
			Contract:             contract,
			DBPool:               e.Pool,
			ExecutionClient:      client,
			GenesisSlotTimestamp: GenesisTime,
			SecondsPerSlot:       5,
			SyncStartBlockNumber: e.Opt.Start,
		}
	default:
		panic("unknown kind " + string(e.Kind))
	}
}

// ReorgDepth is the rollback depth the syncer assumes.
func (e *Env) ReorgDepth() int {
	if e.Kind == Multi && e.Opt.AssumedReorgDepth != 0 {
		return e.Opt.AssumedReorgDepth
	}
	return 10 // AssumedReorgDepth / DefaultAssumedReorgDepth (documented constant of all three syncers)
}

// ---------- faults ----------

// Fault is one injected failure inside a Sync call.
type Fault struct {
	Type string `json:"type,omitempty"` // "" none | "rpc" | "dberr" | "crash-before" | "crash-after"
	K    int    `json:"k,omitempty"`    // 0-based index of the RPC call / database round trip inside this Sync call
}

func (f Fault) String() string {
	if f.Type == "" {
		return "none"
	}
	return fmt.Sprintf("%s@%d", f.Type, f.K)
}

// FaultTypes are the database fault types (the RPC one is "rpc").
var DBFaultTypes = []string{"dberr", "crash-before", "crash-after"}

type crashSentinel struct{ at int }

// InjectedDBError is returned by the armed database round trip.
type InjectedDBError struct{ Seq int }

func (e *InjectedDBError) Error() string {
	return fmt.Sprintf("syncx: injected database failure at round trip %d", e.Seq)
}

// Trip is one database round trip seen during a step.
type Trip struct {
	Seq  int
	Kind string
	InTx bool
	SQL  string
}

// StepResult is what one Step observed.
type StepResult struct {
	Err      error
	Crashed  bool
	RPCCalls int // RPC calls served during the Sync call
	DBTrips  int // database round trips started during the Sync call
	Commits  int // commit points (commits that changed the database)
	Trips    []Trip
}

// Step makes head the canonical head, hands its header to Sync (as the keyper
// does with the header it gets from the chain-sync client) and injects the
// fault. onCommit, if non-nil, runs at every commit point with the committed
// database. After a crash all open transactions are aborted and the syncer
// object is rebuilt.
func (e *Env) Step(head fakechain.BlockID, f Fault, keepTrips bool, onCommit func(db *minipg.DB)) (res StepResult) {
	e.Chain.SetHead(head)
	header := types.CopyHeader(e.Chain.Block(head).Header)
	e.Chain.ResetCalls()
	if f.Type == "rpc" {
		e.Chain.FailAt(f.K)
	}
	e.DB.ResetRoundTrips()
	dead := false
	hooks := &minipg.Hooks{
		Before: func(rt minipg.RoundTrip) error {
			if dead {
				return fmt.Errorf("syncx: connection lost")
			}
			if keepTrips {
				sql := strings.Join(strings.Fields(rt.SQL), " ")
				if len(sql) > 70 {
					sql = sql[:70]
				}
				res.Trips = append(res.Trips, Trip{Seq: rt.Seq, Kind: rt.Kind, InTx: rt.InTx, SQL: sql})
			}
			res.DBTrips++
			if rt.Seq == f.K {
				switch f.Type {
				case "dberr":
					return &InjectedDBError{Seq: rt.Seq}
				case "crash-before":
					dead = true
					panic(crashSentinel{rt.Seq})
				}
			}
			return nil
		},
		After: func(rt minipg.RoundTrip, err error) {
			if !dead && f.Type == "crash-after" && rt.Seq == f.K {
				dead = true
				panic(crashSentinel{rt.Seq})
			}
		},
		OnCommit: func(d *minipg.DB) {
			res.Commits++
			if onCommit != nil {
				onCommit(d)
			}
		},
	}
	e.DB.SetHooks(hooks)
	func() {
		defer func() {
			if p := recover(); p != nil {
				if _, ok := p.(crashSentinel); !ok {
					e.DB.SetHooks(nil)
					panic(p)
				}
				res.Crashed = true
			}
		}()
		res.Err = e.Syncer.Sync(context.Background(), header)
	}()
	e.DB.SetHooks(nil)
	res.RPCCalls = e.Chain.Calls()
	if res.Crashed {
		e.DB.AbortAll()
		e.Rebuild()
	} else if n := e.DB.OpenTransactions(); n != 0 {
		panic(fmt.Sprintf("syncx: %d transactions left open by Sync", n))
	}
	if fakechain.IsMethodNotFound(res.Err) {
		panic(fmt.Sprintf("syncx: the code under test called an RPC method fakechain does not implement: %v", res.Err))
	}
	return res
}

// ---------- reading the database ----------

// Status is the sync-status row.
type Status struct {
	Present bool
	Number  int64
	Hash    []byte
}

func (s Status) String() string {
	if !s.Present {
		return "(no row)"
	}
	return fmt.Sprintf("(%d, %s)", s.Number, shortHex(s.Hash))
}

func shortHex(b []byte) string {
	if len(b) == 0 {
		return "0x"
	}
	h := hex.EncodeToString(b)
	if len(h) > 8 {
		h = h[:8]
	}
	return "0x" + h
}

func colIndex(d *minipg.DB, table string) map[string]int {
	cols := d.Columns(table)
	if cols == nil {
		panic("syncx: no table " + table)
	}
	m := make(map[string]int, len(cols))
	for i, c := range cols {
		m[c] = i
	}
	return m
}

// ReadStatus reads the committed sync-status row of the given kind.
func ReadStatus(d *minipg.DB, k Kind) Status {
	t := k.StatusTable()
	rows := d.Rows(t)
	if len(rows) == 0 {
		return Status{}
	}
	if len(rows) > 1 {
		panic("syncx: more than one sync-status row")
	}
	ci := colIndex(d, t)
	return Status{Present: true, Number: rows[0][ci["block_number"]].(int64), Hash: append([]byte(nil), rows[0][ci["block_hash"]].([]byte)...)}
}

func renderVal(v any) string {
	switch x := v.(type) {
	case nil:
		return "null"
	case []byte:
		return "0x" + hex.EncodeToString(x)
	case string:
		return x
	default:
		return fmt.Sprint(x)
	}
}

// Row is one table row as column -> rendered value.
type Row map[string]string

// Render gives the canonical text of the row restricted to cols.
func (r Row) Render(cols []string) string {
	parts := make([]string, len(cols))
	for i, c := range cols {
		parts[i] = c + "=" + r[c]
	}
	return strings.Join(parts, " ")
}

// ReadRows returns the committed rows of a table.
func ReadRows(d *minipg.DB, table string) []Row {
	cols := d.Columns(table)
	if cols == nil {
		panic("syncx: no table " + table)
	}
	var out []Row
	for _, r := range d.Rows(table) {
		m := make(Row, len(cols))
		for i, c := range cols {
			m[c] = renderVal(r[i])
		}
		out = append(out, m)
	}
	return out
}

// RenderRows renders and sorts rows.
func RenderRows(rows []Row, cols []string) []string {
	out := make([]string, len(rows))
	for i, r := range rows {
		out[i] = r.Render(cols)
	}
	sort.Strings(out)
	return out
}

// ---------- events ----------

// Event is one contract event of the kind a syncer stores.
type Event struct {
	Kind   Kind
	Name   string // label used in samples and replay files
	Eon    uint64
	Prefix [32]byte
	Sender common.Address
	// Registry
	Timestamp uint64
	// Multi (EventTriggerRegistered)
	Definition      []byte
	DefinitionValid bool // by construction, per docs/event.md
	Expiration      uint64
	// Sequencer
	TxIndex     uint64
	EncryptedTx []byte
	GasLimit    *big.Int
}

// Log packs the event with the ABI of the real binding.
func (ev *Event) Log() fakechain.LogSpec {
	switch ev.Kind {
	case Registry:
		return fakechain.IdentityRegistered(RegistryAddr, ev.Eon, ev.Prefix, ev.Sender, ev.Timestamp)
	case Multi:
		return fakechain.EventTriggerRegistered(TriggerRegistryAddr, ev.Eon, ev.Prefix, ev.Sender, ev.Definition, ev.Expiration)
	default:
		return fakechain.TransactionSubmitted(SequencerAddr, ev.Eon, ev.TxIndex, ev.Prefix, ev.Sender, ev.EncryptedTx, ev.GasLimit)
	}
}

// Admissible is the reference predicate for "admissible event" (DESIGN C15):
// every numeric field must be representable in the signed 64-bit columns that
// hold it, and a trigger definition must be a valid one.
func (ev *Event) Admissible() bool {
	if ev.Eon > math.MaxInt64 {
		return false
	}
	switch ev.Kind {
	case Multi:
		return ev.Expiration <= math.MaxInt64 && ev.DefinitionValid
	case Sequencer:
		return ev.GasLimit.Sign() >= 0 && ev.GasLimit.BitLen() <= 63
	}
	return true
}

// Identity is the identity preimage hash the contracts' users encrypt for:
// keccak256(prefix ‖ sender) for time based, keccak256(prefix ‖ sender ‖
// definition) for event based triggers.
func (ev *Event) Identity() []byte {
	buf := append([]byte{}, ev.Prefix[:]...)
	buf = append(buf, ev.Sender.Bytes()...)
	if ev.Kind == Multi {
		buf = append(buf, ev.Definition...)
	}
	return crypto.Keccak256(buf)
}

// Key is the key under which the contract registers the event (at most one
// registration per key on one branch).
func (ev *Event) Key() string {
	switch ev.Kind {
	case Registry:
		return fmt.Sprintf("%x/%s", ev.Prefix, ev.Sender.Hex())
	case Multi:
		return fmt.Sprintf("%d/%x", ev.Eon, ev.Identity())
	default:
		return fmt.Sprintf("%d/%d", ev.Eon, ev.TxIndex)
	}
}

// Columns are the columns of the event table that are compared.
func (k Kind) Columns() []string {
	switch k {
	case Registry:
		return []string{"block_number", "block_hash", "tx_index", "log_index", "eon", "identity_prefix", "sender", "timestamp", "decrypted", "identity"}
	case Multi:
		return []string{"block_number", "block_hash", "tx_index", "log_index", "eon", "identity_prefix", "sender", "definition", "expiration_block_number", "decrypted", "identity"}
	default:
		return []string{"index", "block_number", "block_hash", "tx_index", "log_index", "eon", "identity_prefix", "sender", "gas_limit"}
	}
}

// ExpectedRow is the row the event must produce when it was emitted as log
// logIndex of block b (one transaction per log, so tx index = log index).
func (ev *Event) ExpectedRow(b *fakechain.Block, logIndex int) Row {
	r := Row{
		"block_number":    fmt.Sprint(b.Number),
		"block_hash":      "0x" + hex.EncodeToString(b.Hash[:]),
		"tx_index":        fmt.Sprint(logIndex),
		"log_index":       fmt.Sprint(logIndex),
		"eon":             fmt.Sprint(ev.Eon),
		"identity_prefix": "0x" + hex.EncodeToString(ev.Prefix[:]),
		"sender":          ev.Sender.Hex(),
	}
	switch ev.Kind {
	case Registry:
		r["timestamp"] = fmt.Sprint(ev.Timestamp)
		r["decrypted"] = "false"
		r["identity"] = "0x" + hex.EncodeToString(ev.Identity())
	case Multi:
		r["definition"] = "0x" + hex.EncodeToString(ev.Definition)
		r["expiration_block_number"] = fmt.Sprint(ev.Expiration)
		r["decrypted"] = "false"
		r["identity"] = "0x" + hex.EncodeToString(ev.Identity())
	default:
		r["index"] = fmt.Sprint(ev.TxIndex)
		r["gas_limit"] = ev.GasLimit.String()
	}
	return r
}

// ---------- trigger definitions ----------

// TriggerDefinition builds the bytes of an event trigger definition with the
// real EventTriggerDefinition.MarshalBytes: logs of contract whose topic 0
// equals topic0 and, if minWord0 is non-nil, whose first data word is >= minWord0.
func TriggerDefinition(contract common.Address, topic0 common.Hash, minWord0 *big.Int) []byte {
	d := shutterservice.EventTriggerDefinition{
		Contract: contract,
		LogPredicates: []shutterservice.LogPredicate{{
			LogValueRef:    shutterservice.LogValueRef{Offset: 0},
			ValuePredicate: shutterservice.ValuePredicate{Op: shutterservice.BytesEq, ByteArgs: [][]byte{topic0.Bytes()}},
		}},
	}
	if minWord0 != nil {
		d.LogPredicates = append(d.LogPredicates, shutterservice.LogPredicate{
			LogValueRef:    shutterservice.LogValueRef{Offset: 4},
			ValuePredicate: shutterservice.ValuePredicate{Op: shutterservice.UintGte, IntArgs: []*big.Int{minWord0}},
		})
	}
	return d.MarshalBytes()
}
