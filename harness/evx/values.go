// Package evx closes the environment of the shuttermint event codec
// (rolling-shutter/keyper/shutterevents) and of the keyper's event handling
// (rolling-shutter/keyper/smobserver) for the C14 check: value pools per
// attribute kind, an independent normal form for decoded events, event
// mutators, and a closed loop "real app <-> real keyper on minipg" in which an
// arbitrary ABCI event can be handed to a keyper that is in a chosen DKG phase.
package evx

import (
	"crypto/ecdsa"
	"encoding/hex"
	"fmt"
	"math"
	"math/big"
	"strings"

	"github.com/ethereum/go-ethereum/common"
	"github.com/ethereum/go-ethereum/crypto/ecies"
	blst "github.com/supranational/blst/bindings/go"

	"github.com/shutter-network/shutter/shlib/shcrypto"

	"github.com/shutter-network/rolling-shutter/rolling-shutter/keyper/shutterevents"

	"verif/harness/appx"
)

// Uint64Pool is the boundary pool of the property's quantifier.
func Uint64Pool() []uint64 { return []uint64{0, 1, 1 << 32, 1 << 63, math.MaxUint64} }

// HeightPool are the heights handed to MakeEvent.
func HeightPool() []int64 { return []int64{0, 1, math.MaxInt64} }

// groupOrder is the order of the BLS12-381 groups (the modulus of polynomial
// evaluations), written out here so that the pool does not depend on shcrypto.
var groupOrder, _ = new(big.Int).SetString("73eda753299d7d483339d80809a1d80553bda402fffe5bfeffffffff00000001", 16)

// BigPool: 0, 1, order-1, and integers that do not fit into 32 bytes (shuttermint
// accepts evaluations of any length): 2^256, 2^256+5, 2^512-1.
func BigPool() []*big.Int {
	two256 := new(big.Int).Lsh(big.NewInt(1), 256)
	return []*big.Int{big.NewInt(0), big.NewInt(1), new(big.Int).Sub(groupOrder, big.NewInt(1)),
		two256, new(big.Int).Add(two256, big.NewInt(5)), new(big.Int).Sub(new(big.Int).Lsh(big.NewInt(1), 512), big.NewInt(1))}
}

// AddrPool: zero address, two participants, all-ones, an address with leading zero bytes.
func AddrPool(u *appx.Universe) []common.Address {
	return []common.Address{
		{},
		u.Addrs[0],
		u.Addrs[1],
		common.HexToAddress("0xffffffffffffffffffffffffffffffffffffffff"),
		common.HexToAddress("0x00000000000000000000000000000000000000aB"),
	}
}

// AddrLists: every list of length 0, 1, 2 over the first n pool addresses.
func AddrLists(pool []common.Address, maxLen int) [][]common.Address {
	out := [][]common.Address{nil}
	prev := [][]common.Address{nil}
	for l := 1; l <= maxLen; l++ {
		var next [][]common.Address
		for _, p := range prev {
			for _, a := range pool {
				x := append(append([]common.Address{}, p...), a)
				next = append(next, x)
			}
		}
		out = append(out, next...)
		prev = next
	}
	return out
}

// ByteLists: [], [∅], [x], [∅,x], [x,∅], [x,y], [∅,∅].
func ByteLists() [][][]byte {
	x := []byte{0x00}
	y := []byte{0xde, 0xad, 0xbe, 0xef, 0x00}
	e := []byte{}
	return [][][]byte{nil, {e}, {x}, {e, x}, {x, e}, {x, y}, {e, e}}
}

// ByteListsOfLen returns the members of ByteLists with n elements.
func ByteListsOfLen(n int) [][][]byte {
	var out [][][]byte
	for _, l := range ByteLists() {
		if len(l) == n {
			out = append(out, l)
		}
	}
	return out
}

// BigLists of a given length over BigPool.
func BigListsOfLen(n int) [][]*big.Int {
	out := [][]*big.Int{nil}
	for i := 0; i < n; i++ {
		var next [][]*big.Int
		for _, p := range out {
			for _, b := range BigPool() {
				next = append(next, append(append([]*big.Int{}, p...), b))
			}
		}
		out = next
	}
	return out
}

// G2Points: identity, generator, 7*generator.
func G2Points() []*blst.P2Affine {
	id := new(blst.P2Affine)
	gen := blst.P2Generator().ToAffine()
	p, err := shcrypto.NewPolynomial([]*big.Int{big.NewInt(7)})
	if err != nil {
		panic(err)
	}
	seven := (*p.Gammas())[0]
	return []*blst.P2Affine{id, gen, seven}
}

// GammasPool: the empty commitment and every tuple of degree 0..maxDeg over G2Points.
func GammasPool(maxDeg int) []*shcrypto.Gammas {
	pts := G2Points()
	out := []*shcrypto.Gammas{{}}
	prev := []shcrypto.Gammas{{}}
	for d := 0; d <= maxDeg; d++ {
		var next []shcrypto.Gammas
		for _, p := range prev {
			for _, pt := range pts {
				g := append(append(shcrypto.Gammas{}, p...), pt)
				next = append(next, g)
			}
		}
		for i := range next {
			g := next[i]
			out = append(out, &g)
		}
		prev = next
	}
	return out
}

// ECIESPool: the participants' encryption keys.
func ECIESPool(u *appx.Universe) []*ecies.PublicKey {
	var out []*ecies.PublicKey
	for _, k := range u.Keys {
		out = append(out, ecies.ImportECDSAPublic(&k.PublicKey))
	}
	return out
}

// ---------------------------------------------------------------------------
// Normal form: an independent textual rendering of a decoded event. nil and
// empty lists render identically; curve points render as their compressed
// bytes; big integers in decimal. Two events are "the same value" iff their
// normal forms are equal.

func normAddrs(as []common.Address) string {
	s := make([]string, len(as))
	for i, a := range as {
		s[i] = hex.EncodeToString(a[:])
	}
	return "[" + strings.Join(s, " ") + "]"
}

func normBytes(bs [][]byte) string {
	s := make([]string, len(bs))
	for i, b := range bs {
		s[i] = "<" + hex.EncodeToString(b) + ">"
	}
	return "[" + strings.Join(s, " ") + "]"
}

func normBigs(bs []*big.Int) string {
	s := make([]string, len(bs))
	for i, b := range bs {
		if b == nil {
			s[i] = "nil"
		} else {
			s[i] = b.String()
		}
	}
	return "[" + strings.Join(s, " ") + "]"
}

func normGammas(g *shcrypto.Gammas) string {
	if g == nil {
		return "[]"
	}
	s := make([]string, len(*g))
	for i, p := range *g {
		if p == nil {
			s[i] = "nil"
		} else {
			s[i] = hex.EncodeToString(p.Compress())
		}
	}
	return "[" + strings.Join(s, " ") + "]"
}

func normPub(k *ecies.PublicKey) string {
	if k == nil {
		return "nil"
	}
	curve := "nil"
	if k.Curve != nil {
		curve = k.Curve.Params().Name
		if curve == "" {
			curve = fmt.Sprintf("%T/%d", k.Curve, k.Curve.Params().BitSize)
		}
	}
	params := "nil"
	if k.Params != nil {
		params = fmt.Sprintf("keylen=%d,blocksize=%d", k.Params.KeyLen, k.Params.BlockSize)
	}
	return fmt.Sprintf("pub(%s,%s,%s,%s)", k.X.Text(16), k.Y.Text(16), curve, params)
}

// Norm renders an event (value or pointer form) canonically.
func Norm(ev any) string {
	switch e := ev.(type) {
	case *shutterevents.CheckIn:
		return Norm(*e)
	case shutterevents.CheckIn:
		return fmt.Sprintf("CheckIn{h=%d sender=%x key=%s}", e.Height, e.Sender[:], normPub(e.EncryptionPublicKey))
	case *shutterevents.BatchConfig:
		return Norm(*e)
	case shutterevents.BatchConfig:
		return fmt.Sprintf("BatchConfig{h=%d keypers=%s act=%d thr=%d idx=%d started=%v valupd=%v}", e.Height, normAddrs(e.Keypers), e.ActivationBlockNumber, e.Threshold, e.KeyperConfigIndex, e.Started, e.ValidatorsUpdated)
	case *shutterevents.BatchConfigStarted:
		return Norm(*e)
	case shutterevents.BatchConfigStarted:
		return fmt.Sprintf("BatchConfigStarted{h=%d idx=%d}", e.Height, e.KeyperConfigIndex)
	case *shutterevents.EonStarted:
		return Norm(*e)
	case shutterevents.EonStarted:
		return fmt.Sprintf("EonStarted{h=%d eon=%d act=%d idx=%d}", e.Height, e.Eon, e.ActivationBlockNumber, e.KeyperConfigIndex)
	case *shutterevents.PolyCommitment:
		return Norm(*e)
	case shutterevents.PolyCommitment:
		return fmt.Sprintf("PolyCommitment{h=%d eon=%d sender=%x gammas=%s}", e.Height, e.Eon, e.Sender[:], normGammas(e.Gammas))
	case *shutterevents.PolyEval:
		return Norm(*e)
	case shutterevents.PolyEval:
		return fmt.Sprintf("PolyEval{h=%d eon=%d sender=%x recv=%s evals=%s}", e.Height, e.Eon, e.Sender[:], normAddrs(e.Receivers), normBytes(e.EncryptedEvals))
	case *shutterevents.Accusation:
		return Norm(*e)
	case shutterevents.Accusation:
		return fmt.Sprintf("Accusation{h=%d eon=%d sender=%x accused=%s}", e.Height, e.Eon, e.Sender[:], normAddrs(e.Accused))
	case *shutterevents.Apology:
		return Norm(*e)
	case shutterevents.Apology:
		return fmt.Sprintf("Apology{h=%d eon=%d sender=%x accusers=%s evals=%s}", e.Height, e.Eon, e.Sender[:], normAddrs(e.Accusers), normBigs(e.PolyEval))
	case nil:
		return "<nil>"
	}
	return fmt.Sprintf("<unknown event type %T>", ev)
}

// WithHeight returns a copy of the event value with Height set (the encoder
// does not serialise Height; MakeEvent sets it from its argument).
func WithHeight(ev shutterevents.IEvent, h int64) shutterevents.IEvent {
	switch e := ev.(type) {
	case *shutterevents.CheckIn:
		c := *e
		c.Height = h
		return &c
	case *shutterevents.BatchConfig:
		c := *e
		c.Height = h
		return &c
	case *shutterevents.BatchConfigStarted:
		c := *e
		c.Height = h
		return &c
	case *shutterevents.EonStarted:
		c := *e
		c.Height = h
		return &c
	case *shutterevents.PolyCommitment:
		c := *e
		c.Height = h
		return &c
	case *shutterevents.PolyEval:
		c := *e
		c.Height = h
		return &c
	case *shutterevents.Accusation:
		c := *e
		c.Height = h
		return &c
	case *shutterevents.Apology:
		c := *e
		c.Height = h
		return &c
	}
	panic(fmt.Sprintf("evx: WithHeight: unknown event type %T", ev))
}

// TypeName is the short name of an event's Go type.
func TypeName(ev any) string {
	s := fmt.Sprintf("%T", ev)
	if i := strings.LastIndexByte(s, '.'); i >= 0 {
		s = s[i+1:]
	}
	return s
}

// PubOf is the ECIES public key of a participant.
func PubOf(k *ecdsa.PrivateKey) *ecies.PublicKey { return ecies.ImportECDSAPublic(&k.PublicKey) }
