package evx

// Standalone reproductions of the C14 findings, independent of the check's
// explorer and of the closed-loop scenario: only the repository's decoder,
// smobserver.SyncAppWithDB on a minipg keyper database and a tendermint client
// stub that serves hand-written block results.
//
//	cd /verif && . scripts/env.sh && VERIF_REPRO=1 go test -tags verif ./harness/evx -run Repro -v
//
// Each test FAILS while the defect is present and passes once it is repaired
// (without VERIF_REPRO=1 the tests are skipped, so that `go test ./...` in
// /verif stays green on the unchanged tree).

import (
	"context"
	"crypto/ed25519"
	"fmt"
	"os"
	"testing"

	"github.com/ethereum/go-ethereum/crypto/ecies"
	"github.com/jackc/pgx/v4/pgxpool"
	abcitypes "github.com/tendermint/tendermint/abci/types"
	coretypes "github.com/tendermint/tendermint/rpc/core/types"

	kprdatabase "github.com/shutter-network/rolling-shutter/rolling-shutter/keyper/database"
	"github.com/shutter-network/rolling-shutter/rolling-shutter/keyper/dkgphase"
	"github.com/shutter-network/rolling-shutter/rolling-shutter/keyper/shutterevents"
	"github.com/shutter-network/rolling-shutter/rolling-shutter/keyper/smobserver"
	"github.com/shutter-network/rolling-shutter/rolling-shutter/medley/db"

	"verif/harness/appx"
)

var reproN int

// reproSync feeds the given blocks (height -> events) to a fresh keyper that is
// member 1 of the keyper set {0,1,2}; it returns the panic value, if any.
func reproSync(t *testing.T, blocks map[int64][]abcitypes.Event, last int64) (pan any) {
	t.Helper()
	if os.Getenv("VERIF_REPRO") == "" {
		t.Skip("set VERIF_REPRO=1 to run the reproductions")
	}
	u := appx.NewUniverse(3)
	cfg := &kcfg{addr: u.Addrs[1], phase: dkgphase.NewConstantPhaseLength(3), val: ed25519.PublicKey(u.ValKeys[1][0]), enc: ecies.ImportECDSA(u.Keys[1])}
	ctx := context.Background()
	reproN++
	pool, err := pgxpool.Connect(ctx, fmt.Sprintf("minipg://evx-repro-%d", reproN))
	if err != nil {
		t.Fatal(err)
	}
	if err := db.InitDB(ctx, pool, "keyper-test", kprdatabase.Definition); err != nil {
		t.Fatal(err)
	}
	tm := &FakeTM{Blocks: map[int64]*coretypes.ResultBlockResults{}, Last: last}
	for h, evs := range blocks {
		tm.Blocks[h] = &coretypes.ResultBlockResults{Height: h, TxsResults: []*abcitypes.ResponseDeliverTx{{Events: evs}}}
	}
	defer func() { pan = recover() }()
	if err := smobserver.SyncAppWithDB(ctx, tm, pool, smobserver.NewShuttermintState(cfg)); err != nil {
		t.Logf("SyncAppWithDB returned an error (that is fine): %v", err)
	}
	return nil
}

func attr(k, v string) abcitypes.EventAttribute { return abcitypes.EventAttribute{Key: k, Value: v} }

func reproSetup(u *appx.Universe) map[int64][]abcitypes.Event {
	return map[int64][]abcitypes.Event{
		1: {shutterevents.BatchConfig{Keypers: u.AddrsOf([]int{0, 1, 2}), Threshold: 2, KeyperConfigIndex: 1}.MakeABCIEvent()},
		2: {shutterevents.EonStarted{Eon: 1, KeyperConfigIndex: 1}.MakeABCIEvent()},
	}
}

// S1a: a poly-eval event with one receiver and no evaluation decodes without
// error and makes handlePolyEval index out of range (smstate.go:670).
func TestReproPolyEvalLengthMismatch(t *testing.T) {
	u := appx.NewUniverse(3)
	ev := abcitypes.Event{Type: "shutter.poly-eval-registered", Attributes: []abcitypes.EventAttribute{
		attr("Sender", u.Addrs[0].Hex()), attr("Eon", "1"), attr("Receivers", u.Addrs[1].Hex()), attr("EncryptedEvals", ""),
	}}
	x, err := shutterevents.MakeEvent(ev, 3)
	if err != nil {
		t.Logf("the decoder reports the malformed event as an error: %v", err)
	} else {
		pe := x.(*shutterevents.PolyEval)
		t.Logf("decoded without error: %d receivers, %d evals", len(pe.Receivers), len(pe.EncryptedEvals))
	}
	blocks := reproSetup(u)
	blocks[3] = []abcitypes.Event{ev} // eon started at 2, phase length 3: block 3 is in the dealing phase
	if p := reproSync(t, blocks, 4); p != nil {
		t.Fatalf("the keyper panics on the malformed poly-eval event: %v", p)
	}
}

// S1b: an apology event with two accusers and one evaluation (smstate.go:785).
func TestReproApologyLengthMismatch(t *testing.T) {
	u := appx.NewUniverse(3)
	ev := abcitypes.Event{Type: "shutter.apology-registered", Attributes: []abcitypes.EventAttribute{
		attr("Sender", u.Addrs[0].Hex()), attr("Eon", "1"), attr("Accusers", u.Addrs[1].Hex()+","+u.Addrs[2].Hex()), attr("PolyEvals", "0x05"),
	}}
	if _, err := shutterevents.MakeEvent(ev, 8); err != nil {
		t.Logf("the decoder reports the malformed event as an error: %v", err)
	}
	blocks := reproSetup(u)
	blocks[8] = []abcitypes.Event{ev} // 2 + 2*3 = 8: first block of the apologizing phase
	if p := reproSync(t, blocks, 9); p != nil {
		t.Fatalf("the keyper panics on the malformed apology event: %v", p)
	}
}

// Finding 2: a batch config whose threshold is 0 after the int32 conversion
// (here 2^63, which the application's checkConfig accepts because
// int(threshold) is negative) followed by the eon start the application emits
// in the same transaction: startPhase1Dealing ends in log.Fatal (os.Exit).
func TestReproInvalidThresholdConfig(t *testing.T) {
	u := appx.NewUniverse(3)
	blocks := map[int64][]abcitypes.Event{
		1: {
			shutterevents.BatchConfig{Keypers: u.AddrsOf([]int{0, 1, 2}), Threshold: 1 << 63, KeyperConfigIndex: 1}.MakeABCIEvent(),
			shutterevents.EonStarted{Eon: 1, KeyperConfigIndex: 1}.MakeABCIEvent(),
		},
	}
	if p := reproSync(t, blocks, 2); p != nil {
		t.Fatalf("the keyper process exits / panics on the config + eon-start events: %v", p)
	}
}
