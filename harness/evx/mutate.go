package evx

import (
	"fmt"

	abcitypes "github.com/tendermint/tendermint/abci/types"
)

// Substitutes are the characters put at every position of every string.
var Substitutes = []string{",", "x", "G", " ", "-", "0", "é"}

func cloneEvent(ev abcitypes.Event) abcitypes.Event {
	out := abcitypes.Event{Type: ev.Type}
	out.Attributes = append([]abcitypes.EventAttribute{}, ev.Attributes...)
	return out
}

// MutateString yields every proper prefix of s and every single-position
// substitution by each member of Substitutes (skipping identities).
func MutateString(s string, yield func(desc, m string)) {
	for l := 0; l < len(s); l++ {
		yield(fmt.Sprintf("prefix[%d]", l), s[:l])
	}
	for i := 0; i < len(s); i++ {
		for _, sub := range Substitutes {
			if s[i:i+1] == sub {
				continue
			}
			yield(fmt.Sprintf("subst[%d]=%q", i, sub), s[:i]+sub+s[i+1:])
		}
	}
}

// Mutate yields every mutation of the attribute list, of each value string and
// of the type string of one encoded event. typeNames are the type strings of
// all event types (for "rename the type to another type").
func Mutate(ev abcitypes.Event, typeNames []string, yield func(desc string, m abcitypes.Event)) {
	n := len(ev.Attributes)
	// attribute list: drop each
	for i := 0; i < n; i++ {
		m := abcitypes.Event{Type: ev.Type}
		m.Attributes = append(m.Attributes, ev.Attributes[:i]...)
		m.Attributes = append(m.Attributes, ev.Attributes[i+1:]...)
		yield(fmt.Sprintf("drop attr %d", i), m)
	}
	// duplicate each (copy inserted right after the original, and appended at the end)
	for i := 0; i < n; i++ {
		m := abcitypes.Event{Type: ev.Type}
		m.Attributes = append(m.Attributes, ev.Attributes[:i+1]...)
		m.Attributes = append(m.Attributes, ev.Attributes[i])
		m.Attributes = append(m.Attributes, ev.Attributes[i+1:]...)
		yield(fmt.Sprintf("duplicate attr %d in place", i), m)
		m2 := cloneEvent(ev)
		m2.Attributes = append(m2.Attributes, ev.Attributes[i])
		yield(fmt.Sprintf("duplicate attr %d at end", i), m2)
	}
	// swap each adjacent pair; also swap only the values (keys stay in place)
	for i := 0; i+1 < n; i++ {
		m := cloneEvent(ev)
		m.Attributes[i], m.Attributes[i+1] = m.Attributes[i+1], m.Attributes[i]
		yield(fmt.Sprintf("swap attrs %d,%d", i, i+1), m)
		m2 := cloneEvent(ev)
		m2.Attributes[i].Value, m2.Attributes[i+1].Value = m2.Attributes[i+1].Value, m2.Attributes[i].Value
		yield(fmt.Sprintf("swap values %d,%d", i, i+1), m2)
	}
	// rotate / reverse
	if n > 1 {
		m := abcitypes.Event{Type: ev.Type}
		for i := n - 1; i >= 0; i-- {
			m.Attributes = append(m.Attributes, ev.Attributes[i])
		}
		yield("reverse attrs", m)
	}
	// rename each key
	for i := 0; i < n; i++ {
		k := ev.Attributes[i].Key
		names := []string{"", "x" + k, k + " ", string([]byte{k[0] ^ 0x20}) + k[1:]}
		for j := 0; j < n; j++ {
			if j != i {
				names = append(names, ev.Attributes[j].Key)
			}
		}
		for _, nm := range names {
			m := cloneEvent(ev)
			m.Attributes[i].Key = nm
			yield(fmt.Sprintf("rename key %d to %q", i, nm), m)
		}
	}
	// append an extra attribute; no attributes at all
	{
		m := cloneEvent(ev)
		m.Attributes = append(m.Attributes, abcitypes.EventAttribute{Key: "Extra", Value: "1"})
		yield("append extra attr", m)
		yield("no attrs", abcitypes.Event{Type: ev.Type})
	}
	// flip the index flag (not part of the decoded value)
	for i := 0; i < n; i++ {
		m := cloneEvent(ev)
		m.Attributes[i].Index = !m.Attributes[i].Index
		yield(fmt.Sprintf("flip index flag %d", i), m)
	}
	// each value string
	for i := 0; i < n; i++ {
		i := i
		MutateString(ev.Attributes[i].Value, func(d, s string) {
			m := cloneEvent(ev)
			m.Attributes[i].Value = s
			yield(fmt.Sprintf("value %d (%s) %s", i, ev.Attributes[i].Key, d), m)
		})
		for _, s := range []string{ev.Attributes[i].Value + ",", "," + ev.Attributes[i].Value, ev.Attributes[i].Value + ev.Attributes[i].Value, ev.Attributes[i].Value + "," + ev.Attributes[i].Value, "0x" + ev.Attributes[i].Value, " " + ev.Attributes[i].Value, ev.Attributes[i].Value + "\n"} {
			m := cloneEvent(ev)
			m.Attributes[i].Value = s
			yield(fmt.Sprintf("value %d (%s) extended to %q", i, ev.Attributes[i].Key, trunc(s)), m)
		}
	}
	// the type string
	MutateString(ev.Type, func(d, s string) {
		m := cloneEvent(ev)
		m.Type = s
		yield("type "+d, m)
	})
	for _, t := range typeNames {
		if t != ev.Type {
			m := cloneEvent(ev)
			m.Type = t
			yield("type renamed to "+t, m)
		}
	}
}

func trunc(s string) string {
	if len(s) > 40 {
		return s[:40] + "…"
	}
	return s
}
