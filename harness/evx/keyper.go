package evx

import (
	"context"
	"crypto/ed25519"
	crand "crypto/rand"
	"crypto/sha256"
	"fmt"
	"math/big"
	"os"
	"regexp"
	"runtime/debug"
	"strings"

	"github.com/ethereum/go-ethereum/common"
	"github.com/ethereum/go-ethereum/crypto/ecies"
	"github.com/jackc/pgx/v4/pgxpool"
	"github.com/rs/zerolog"
	"github.com/rs/zerolog/log"
	abcitypes "github.com/tendermint/tendermint/abci/types"
	tmproto "github.com/tendermint/tendermint/proto/tendermint/types"
	"github.com/tendermint/tendermint/rpc/client"
	coretypes "github.com/tendermint/tendermint/rpc/core/types"
	tmtypes "github.com/tendermint/tendermint/types"

	"github.com/shutter-network/shutter/shlib/puredkg"

	"github.com/shutter-network/rolling-shutter/rolling-shutter/app"
	kprdatabase "github.com/shutter-network/rolling-shutter/rolling-shutter/keyper/database"
	"github.com/shutter-network/rolling-shutter/rolling-shutter/keyper/dkgphase"
	"github.com/shutter-network/rolling-shutter/rolling-shutter/keyper/fx"
	"github.com/shutter-network/rolling-shutter/rolling-shutter/keyper/smobserver"
	"github.com/shutter-network/rolling-shutter/rolling-shutter/medley/db"
	"github.com/shutter-network/rolling-shutter/rolling-shutter/shmsg"

	"github.com/jackc/pgx/v4/minipg"
	"verif/harness/appx"
)

// fatalExit is panicked by the zerolog hook below in place of the os.Exit(1)
// that log.Fatal() performs: a log.Fatal in the keyper is a keyper crash.
type fatalExit struct{ Msg string }

type fatalHook struct{}

func (fatalHook) Run(_ *zerolog.Event, level zerolog.Level, msg string) {
	if level == zerolog.FatalLevel {
		panic(fatalExit{msg})
	}
}

func init() {
	// Only fatal events pass the level filter; the hook turns them into a
	// recoverable panic before zerolog calls os.Exit.
	zerolog.SetGlobalLevel(zerolog.FatalLevel)
	if os.Getenv("EVX_LOG") != "" { // debugging aid: show the keyper's log
		zerolog.SetGlobalLevel(zerolog.InfoLevel)
	}
	log.Logger = log.Logger.Hook(fatalHook{})
}

// kcfg implements smobserver.Config.
type kcfg struct {
	addr  common.Address
	phase *dkgphase.PhaseLength
	val   ed25519.PublicKey
	enc   *ecies.PrivateKey
}

func (c *kcfg) GetAddress() common.Address               { return c.addr }
func (c *kcfg) GetDKGPhaseLength() *dkgphase.PhaseLength { return c.phase }
func (c *kcfg) GetValidatorPublicKey() ed25519.PublicKey { return c.val }
func (c *kcfg) GetEncryptionKey() *ecies.PrivateKey      { return c.enc }

// FakeTM is the tendermint RPC client the keyper syncs from: Block(nil)
// reports the last committed height, BlockResults(h) the recorded results.
// Every other method of the interface is a nil call (a loud harness error).
type FakeTM struct {
	client.Client
	Blocks map[int64]*coretypes.ResultBlockResults
	Last   int64
}

func (f *FakeTM) Block(_ context.Context, _ *int64) (*coretypes.ResultBlock, error) {
	return &coretypes.ResultBlock{Block: &tmtypes.Block{LastCommit: &tmtypes.Commit{Height: f.Last}}}, nil
}

func (f *FakeTM) BlockResults(_ context.Context, h *int64) (*coretypes.ResultBlockResults, error) {
	if b, ok := f.Blocks[*h]; ok {
		return b, nil
	}
	return &coretypes.ResultBlockResults{Height: *h}, nil
}

// scripted is one transaction of another keyper.
type scripted struct {
	Sender int
	Msg    *shmsg.Message
}

// Phase names a snapshot of the closed loop: the keyper under test has synced
// every closed block and the open block is the first one of that DKG phase
// (for "dealing": the block after the one in which the eon started).
type Phase string

const (
	Dealing     Phase = "dealing"
	Accusing    Phase = "accusing"
	Apologizing Phase = "apologizing"
)

var Phases = []Phase{Dealing, Accusing, Apologizing}

type snapshot struct {
	app    *app.ShutterApp
	db     *minipg.Snapshot
	blocks map[int64]*coretypes.ResultBlockResults
	height int64
	nonce  uint64
}

// Sim is the closed loop: one real shuttermint application, one real keyper
// (smobserver.ShuttermintState on a minipg keyper database, fed through the real
// SyncAppWithDB / handleBlock / makeEvents / HandleEvent path, its outgoing
// messages delivered by the real fx.SendShutterMessages) and two scripted
// honest co-keypers whose DKG messages come from real puredkg instances.
type Sim struct {
	U       *appx.Universe
	Me      int
	Members []int
	L       int64 // DKG phase length in blocks

	Eon       uint64
	EonHeight int64
	EndHeight int64 // last block of the scenario

	app       *app.ShutterApp
	nonce     uint64
	height    int64 // the open block
	cur       *coretypes.ResultBlockResults
	tm        *FakeTM
	pool      *pgxpool.Pool
	cfg       *kcfg
	state     *smobserver.ShuttermintState
	script    map[int64][]scripted
	snaps     map[Phase]*snapshot
	genesisDB *minipg.Snapshot
	injectAt  map[Phase]int64

	// ValidEvalForMe is a correctly encrypted, valid polynomial evaluation from
	// member 0 to the keyper under test (for constructing events).
	ValidEvalForMe []byte
	// BaseOutcome is the outcome of the undisturbed scenario.
	BaseOutcome Outcome
}

var simCounter int

// NewSim builds the scenario, runs it once undisturbed and takes the three
// phase snapshots.
func NewSim() *Sim {
	u := appx.NewUniverse(5)
	s := &Sim{U: u, Me: 1, Members: []int{0, 1, 2}, L: 3, script: map[int64][]scripted{}, snaps: map[Phase]*snapshot{}}
	s.cfg = &kcfg{
		addr:  u.Addrs[s.Me],
		phase: dkgphase.NewConstantPhaseLength(s.L),
		val:   ed25519.PublicKey(u.ValKeys[s.Me][0]),
		enc:   ecies.ImportECDSA(u.Keys[s.Me]),
	}
	ctx := context.Background()
	simCounter++
	pool, err := pgxpool.Connect(ctx, fmt.Sprintf("minipg://evx-keyper-%d", simCounter))
	if err != nil {
		panic(err)
	}
	if err := db.InitDB(ctx, pool, "keyper-test", kprdatabase.Definition); err != nil {
		panic(fmt.Sprintf("evx: InitDB: %v", err))
	}
	s.pool = pool
	s.tm = &FakeTM{Blocks: map[int64]*coretypes.ResultBlockResults{}}

	s.genesisDB = pool.DB().Snapshot()

	// --- scripted co-keypers -------------------------------------------------
	s.Eon = 1
	s.EonHeight = 2
	deal, acc, apo := s.EonHeight+1, s.EonHeight+s.L, s.EonHeight+2*s.L
	s.EndHeight = s.EonHeight + 3*s.L + 1
	for _, m := range []int{0, 2} {
		s.script[1] = append(s.script[1], scripted{m, shmsg.NewCheckIn(u.ValKeys[m][0], PubOf(u.Keys[m]))})
	}
	cfgMsg := shmsg.NewBatchConfig(0, u.AddrsOf(s.Members), 2, 1)
	s.script[2] = []scripted{{0, cfgMsg}, {2, cfgMsg}}
	others := map[int]*puredkg.PureDKG{}
	for idx, m := range s.Members {
		if m == s.Me {
			continue
		}
		p := puredkg.NewPureDKG(s.Eon, uint64(len(s.Members)), 2, uint64(idx))
		// the co-keypers' polynomials are fixed (puredkg draws from crypto/rand.Reader)
		realRand := crand.Reader
		crand.Reader = &hashStream{seed: fmt.Sprintf("evx-co-keyper-%d", m)}
		commitment, evals, err := p.StartPhase1Dealing()
		crand.Reader = realRand
		if err != nil {
			panic(err)
		}
		others[m] = &p
		s.script[deal] = append(s.script[deal], scripted{m, shmsg.NewPolyCommitment(s.Eon, commitment.Gammas)})
		var recv []common.Address
		var enc [][]byte
		for _, ev := range evals {
			rm := s.Members[ev.Receiver]
			ct, err := ecies.Encrypt(detRand{}, PubOf(u.Keys[rm]), ev.Eval.Bytes(), nil, nil)
			if err != nil {
				panic(err)
			}
			recv = append(recv, u.Addrs[rm])
			enc = append(enc, ct)
			if m == 0 && rm == s.Me {
				s.ValidEvalForMe = ct
			}
		}
		s.script[deal] = append(s.script[deal], scripted{m, shmsg.NewPolyEval(s.Eon, recv, enc)})
	}
	// member 0 accuses the keyper under test and member 2; member 2 apologises
	// with the correct evaluation; the keyper under test apologises by itself.
	s.script[acc] = []scripted{{0, shmsg.NewAccusation(s.Eon, []common.Address{u.Addrs[s.Me], u.Addrs[2]})}}
	s.script[apo] = []scripted{{2, shmsg.NewApology(s.Eon, []common.Address{u.Addrs[0]}, []*big.Int{others[2].Polynomial.EvalForKeyper(0)})}}

	// --- undisturbed run, snapshots at the phase boundaries -----------------
	s.injectAt = map[Phase]int64{Dealing: deal, Accusing: acc, Apologizing: apo}
	snapAt := map[int64]Phase{deal: Dealing, acc: Accusing, apo: Apologizing}
	s.reset()
	out := s.protect(func() {
		for s.height <= s.EndHeight {
			if p, ok := snapAt[s.height]; ok {
				s.snaps[p] = s.snapshot()
			}
			s.playBlock(nil, false)
		}
	})
	out.DKG = s.dkgResult()
	s.BaseOutcome = out
	if out.Kind != "ok" || !strings.HasPrefix(out.DKG, "dkg success") {
		panic(fmt.Sprintf("evx: the undisturbed scenario does not complete a DKG: %+v", out))
	}
	return s
}

// reset puts the closed loop back to genesis: empty keyper database (schema
// only), fresh application with block 1 open, fresh keyper state.
func (s *Sim) reset() {
	s.pool.DB().AbortAll()
	s.pool.DB().Restore(s.genesisDB)
	a, bb := s.U.NewApp(appx.Genesis{Members: s.Members, Threshold: 2})
	s.app = a
	s.height = 1
	s.nonce = 5000
	s.cur = &coretypes.ResultBlockResults{Height: 1, BeginBlockEvents: bb.Events}
	s.tm.Blocks = map[int64]*coretypes.ResultBlockResults{}
	s.tm.Last = 1
	s.state = smobserver.NewShuttermintState(s.cfg)
}

// hashStream is a deterministic byte stream (SHA-256 in counter mode).
type hashStream struct {
	seed string
	ctr  int
	buf  []byte
}

func (h *hashStream) Read(p []byte) (int, error) {
	for i := range p {
		if len(h.buf) == 0 {
			sum := sha256.Sum256([]byte(fmt.Sprintf("%s/%d", h.seed, h.ctr)))
			h.ctr++
			h.buf = sum[:]
		}
		p[i] = h.buf[0]
		h.buf = h.buf[1:]
	}
	return len(p), nil
}

// detRand is a deterministic byte stream for the harness's own encryptions.
type detRand struct{}

func (detRand) Read(p []byte) (int, error) {
	for i := range p {
		p[i] = byte(37 + i*11)
	}
	return len(p), nil
}

func (s *Sim) snapshot() *snapshot {
	blocks := make(map[int64]*coretypes.ResultBlockResults, len(s.tm.Blocks))
	for k, v := range s.tm.Blocks {
		blocks[k] = v
	}
	cur := *s.cur
	blocks[-1] = &cur // the open block's begin events
	return &snapshot{app: appx.Clone(s.app), db: s.pool.DB().Snapshot(), blocks: blocks, height: s.height, nonce: s.nonce}
}

func (s *Sim) restore(sn *snapshot) {
	s.pool.DB().AbortAll()
	s.pool.DB().Restore(sn.db)
	s.app = appx.Clone(sn.app)
	s.tm.Blocks = map[int64]*coretypes.ResultBlockResults{}
	for k, v := range sn.blocks {
		if k >= 0 {
			s.tm.Blocks[k] = v
		}
	}
	cur := *sn.blocks[-1]
	cur.TxsResults = nil
	s.cur = &cur
	s.height = sn.height
	s.nonce = sn.nonce
	s.tm.Last = sn.height
	// a restarted keyper: fresh in-memory state, loaded from the database
	s.state = smobserver.NewShuttermintState(s.cfg)
}

// appSender delivers the keyper's own outgoing messages into the open block.
type appSender struct{ s *Sim }

func (a appSender) SendMessage(_ context.Context, m *shmsg.Message) error {
	a.s.deliver(a.s.Me, m)
	return nil
}

func (s *Sim) deliver(sender int, m *shmsg.Message) {
	s.nonce++
	tx := appx.SignTx(m, appx.ChainID, s.nonce, s.U.Keys[sender])
	r := s.app.DeliverTx(abcitypes.RequestDeliverTx{Tx: tx})
	s.cur.TxsResults = append(s.cur.TxsResults, &r)
}

// playBlock fills and closes the open block and lets the keyper sync it:
// [injected event first] keyper's outgoing messages, scripted messages
// [injected event last], EndBlock/Commit/BeginBlock, SyncAppWithDB.
func (s *Sim) playBlock(inject *abcitypes.Event, last bool) {
	ctx := context.Background()
	if inject != nil && !last {
		s.cur.TxsResults = append(s.cur.TxsResults, &abcitypes.ResponseDeliverTx{Events: []abcitypes.Event{*inject}})
	}
	if err := fx.SendShutterMessages(ctx, kprdatabase.New(s.pool), appSender{s}); err != nil {
		panic(syncError{"SendShutterMessages: " + err.Error()})
	}
	for _, sc := range s.script[s.height] {
		s.deliver(sc.Sender, sc.Msg)
	}
	if inject != nil && last {
		s.cur.TxsResults = append(s.cur.TxsResults, &abcitypes.ResponseDeliverTx{Events: []abcitypes.Event{*inject}})
	}
	h := s.height
	eb := s.app.EndBlock(abcitypes.RequestEndBlock{Height: h})
	s.cur.EndBlockEvents = eb.Events
	s.app.Commit()
	bb := s.app.BeginBlock(abcitypes.RequestBeginBlock{Header: tmproto.Header{Height: h + 1}})
	s.tm.Blocks[h] = s.cur
	s.cur = &coretypes.ResultBlockResults{Height: h + 1, BeginBlockEvents: bb.Events}
	s.height = h + 1
	s.tm.Last = h + 1 // the keyper handles every block below the last committed height
	if err := smobserver.SyncAppWithDB(ctx, s.tm, s.pool, s.state); err != nil {
		panic(syncError{err.Error()})
	}
}

type syncError struct{ Msg string }

// Outcome of one scenario run.
type Outcome struct {
	Kind  string // ok | error | panic | fatal
	Where string // for panic: the innermost repository / shlib function on the stack
	Msg   string
	Stack string
	DKG   string // final DKG result row of the keyper under test
}

var digits = regexp.MustCompile(`[0-9]+`)

// Class is a stable description of the outcome (numbers removed).
func (o Outcome) Class() string {
	switch o.Kind {
	case "ok":
		return "ok, " + o.DKG
	case "error":
		return "sync returns error: " + digits.ReplaceAllString(firstLine(o.Msg), "N")
	}
	return o.Kind + " in " + o.Where + ": " + digits.ReplaceAllString(firstLine(o.Msg), "N")
}

func firstLine(s string) string {
	if i := strings.IndexByte(s, '\n'); i >= 0 {
		s = s[:i]
	}
	if len(s) > 160 {
		s = s[:160]
	}
	return s
}

// protect runs f and classifies how it ended.
func (s *Sim) protect(f func()) (out Outcome) {
	defer func() {
		p := recover()
		if p == nil {
			return
		}
		switch v := p.(type) {
		case syncError:
			out = Outcome{Kind: "error", Msg: v.Msg}
		case fatalExit:
			st := string(debug.Stack())
			out = Outcome{Kind: "fatal", Msg: "log.Fatal (process exit): " + v.Msg, Where: innermost(st), Stack: trimStack(st)}
		default:
			st := string(debug.Stack())
			out = Outcome{Kind: "panic", Msg: fmt.Sprint(p), Where: innermost(st), Stack: trimStack(st)}
		}
	}()
	f()
	return Outcome{Kind: "ok"}
}

var frameRe = regexp.MustCompile(`(?m)^(github\.com/shutter-network/[^\s(]+(?:\([^)]*\))?[^\s(]*)\(`)

// innermost returns the innermost stack frame that belongs to the repository
// or to shlib (the frames of the harness itself are in module "verif").
func innermost(stack string) string {
	m := frameRe.FindStringSubmatch(stack)
	if m == nil {
		return "?"
	}
	f := m[1]
	f = strings.TrimPrefix(f, "github.com/shutter-network/rolling-shutter/rolling-shutter/")
	f = strings.TrimPrefix(f, "github.com/shutter-network/shutter/")
	return f
}

func trimStack(st string) string {
	lines := strings.Split(st, "\n")
	// drop the frames of recover/debug.Stack
	if len(lines) > 60 {
		lines = lines[:60]
	}
	return strings.Join(lines, "\n")
}

func (s *Sim) dkgResult() string {
	ctx := context.Background()
	r, err := kprdatabase.New(s.pool).GetDKGResult(ctx, int64(s.Eon))
	if err != nil {
		return "no dkg result row (" + firstLine(err.Error()) + ")"
	}
	if r.Success {
		return "dkg success"
	}
	return "dkg failed: " + digits.ReplaceAllString(r.Error.String, "N")
}

// Hand plays the scenario from genesis, injects the event into the first block
// of the given DKG phase (for "dealing": the block after the one in which the
// eon started) and plays on to the end: every later phase transition, the
// keyper's own reactions and finalisation run with whatever the event left
// behind. With restart, the run instead starts from the snapshot taken at that
// block with a freshly constructed keyper state loaded from the database (a
// keyper restarted just before the event arrives).
func (s *Sim) Hand(p Phase, ev abcitypes.Event, last bool, restart bool) Outcome {
	return s.run(p, []abcitypes.Event{ev}, last, restart)
}

// HandSeq is Hand for a sequence of events injected into consecutive blocks.
func (s *Sim) HandSeq(p Phase, evs []abcitypes.Event, restart bool) Outcome {
	return s.run(p, evs, false, restart)
}

func (s *Sim) run(p Phase, evs []abcitypes.Event, last bool, restart bool) Outcome {
	if restart {
		s.restore(s.snaps[p])
	} else {
		s.reset()
	}
	at := s.injectAt[p]
	out := s.protect(func() {
		for s.height <= s.EndHeight {
			if i := s.height - at; i >= 0 && i < int64(len(evs)) {
				s.playBlock(&evs[i], last)
			} else {
				s.playBlock(nil, false)
			}
		}
	})
	if out.Kind != "ok" {
		s.pool.DB().AbortAll()
	}
	out.DKG = s.dkgResult()
	return out
}

// MyAddr is the address of the keyper under test.
func (s *Sim) MyAddr() common.Address { return s.cfg.addr }

// PhaseHeight is the height of the block into which Hand injects.
func (s *Sim) PhaseHeight(p Phase) int64 { return s.injectAt[p] }

// DumpDB renders tables of the keyper database (debugging aid).
func (s *Sim) DumpDB(tables ...string) string { return s.pool.DB().Dump(tables...) }
