package evx

import (
	"encoding/base64"
	"encoding/hex"
	"strings"
)

// Attribute kinds of the eight event types, by position. They come from the
// event type definitions (events.go: field types of the structs), not from the
// decoder.
var AttrKinds = map[string][]string{
	"CheckIn":            {"addr", "pubkey"},
	"BatchConfig":        {"uint", "uint", "addrs", "uint"},
	"BatchConfigStarted": {"uint"},
	"EonStarted":         {"uint", "uint", "uint"},
	"PolyCommitment":     {"addr", "uint", "hex"},
	"PolyEval":           {"addr", "uint", "addrs", "bytes"},
	"Accusation":         {"addr", "uint", "addrs"},
	"Apology":            {"addr", "uint", "addrs", "bigs"},
}

func isHex(s string) bool {
	for i := 0; i < len(s); i++ {
		c := s[i]
		if !(c >= '0' && c <= '9' || c >= 'a' && c <= 'f' || c >= 'A' && c <= 'F') {
			return false
		}
	}
	return true
}

func strip0x(s string) string {
	if len(s) >= 2 && s[0] == '0' && (s[1] == 'x' || s[1] == 'X') {
		return s[2:]
	}
	return s
}

// Reading is the harness's own, deliberately lenient reading of an attribute
// string: which value the string spells, allowing every spelling freedom that
// does not change the value (hex case, optional 0x prefix, leading zeros of
// numbers, unused trailing bits of unpadded base64). ok=false: the string
// spells no value of that kind at all.
//
// It is used for one oracle only: when the decoder under test accepts a
// (mutated) string, the value it returns must be the value the string spells —
// Reading(input) == Reading(re-encoded output). Whether the decoder accepts or
// rejects a lenient spelling is not judged.
func Reading(kind, s string) (string, bool) {
	switch kind {
	case "uint":
		if s == "" {
			return "", false
		}
		for i := 0; i < len(s); i++ {
			if s[i] < '0' || s[i] > '9' {
				return "", false
			}
		}
		t := strings.TrimLeft(s, "0")
		if t == "" {
			t = "0"
		}
		return t, true
	case "addr":
		h := strip0x(s)
		if len(h) != 40 || !isHex(h) {
			return "", false
		}
		return strings.ToLower(h), true
	case "addrs", "bytes", "bigs":
		if s == "" {
			return "[]", true
		}
		var out []string
		for _, part := range strings.Split(s, ",") {
			h := strip0x(part)
			if !isHex(h) {
				return "", false
			}
			switch kind {
			case "addrs":
				if len(h) != 40 {
					return "", false
				}
			case "bytes":
				if len(h)%2 != 0 {
					return "", false
				}
			case "bigs":
				h = strings.TrimLeft(h, "0")
			}
			out = append(out, strings.ToLower(h))
		}
		return "[" + strings.Join(out, " ") + "]", true
	case "hex":
		h := strip0x(s)
		if !isHex(h) || len(h)%2 != 0 {
			return "", false
		}
		return strings.ToLower(h), true
	case "pubkey":
		b, err := base64.RawURLEncoding.DecodeString(s)
		if err != nil {
			return "", false
		}
		return hex.EncodeToString(b), true
	}
	return "", false
}
