package evx

import (
	"github.com/ethereum/go-ethereum/common"

	"github.com/shutter-network/rolling-shutter/rolling-shutter/keyper/shutterevents"

	"verif/harness/appx"
)

// EventTypes in the order of the property statement.
var EventTypes = []string{"CheckIn", "BatchConfig", "BatchConfigStarted", "EonStarted", "PolyCommitment", "PolyEval", "Accusation", "Apology"}

// EnumValues yields, per event type, the cartesian product of the field pools
// (part (a) of the check). List-valued pairs that the application only ever
// emits with equal lengths (receivers/evals, accusers/evals) are enumerated
// with equal lengths here; unequal lengths belong to part (d).
func EnumValues(u *appx.Universe, typ string, maxDeg int, yield func(ev shutterevents.IEvent)) {
	u64 := Uint64Pool()
	addrs := AddrPool(u)
	lists := AddrLists(addrs[:3], 2)
	// additionally one list using the remaining pool members
	lists = append(lists, []common.Address{addrs[3], addrs[4]})
	switch typ {
	case "CheckIn":
		for _, s := range addrs {
			for _, k := range ECIESPool(u) {
				yield(&shutterevents.CheckIn{Sender: s, EncryptionPublicKey: k})
			}
		}
	case "BatchConfig":
		for _, act := range u64 {
			for _, thr := range u64 {
				for _, idx := range u64 {
					for _, ks := range lists {
						yield(&shutterevents.BatchConfig{ActivationBlockNumber: act, Threshold: thr, KeyperConfigIndex: idx, Keypers: ks})
					}
				}
			}
		}
	case "BatchConfigStarted":
		for _, idx := range u64 {
			yield(&shutterevents.BatchConfigStarted{KeyperConfigIndex: idx})
		}
	case "EonStarted":
		for _, eon := range u64 {
			for _, act := range u64 {
				for _, idx := range u64 {
					yield(&shutterevents.EonStarted{Eon: eon, ActivationBlockNumber: act, KeyperConfigIndex: idx})
				}
			}
		}
	case "PolyCommitment":
		for _, s := range addrs {
			for _, eon := range u64 {
				for _, g := range GammasPool(maxDeg) {
					yield(&shutterevents.PolyCommitment{Sender: s, Eon: eon, Gammas: g})
				}
			}
		}
	case "PolyEval":
		for _, s := range addrs {
			for _, eon := range u64 {
				for _, recv := range lists {
					for _, evals := range ByteListsOfLen(len(recv)) {
						yield(&shutterevents.PolyEval{Sender: s, Eon: eon, Receivers: recv, EncryptedEvals: evals})
					}
				}
			}
		}
	case "Accusation":
		for _, s := range addrs {
			for _, eon := range u64 {
				for _, acc := range lists {
					yield(&shutterevents.Accusation{Sender: s, Eon: eon, Accused: acc})
				}
			}
		}
	case "Apology":
		for _, s := range addrs {
			for _, eon := range u64 {
				for _, acc := range lists {
					for _, evals := range BigListsOfLen(len(acc)) {
						yield(&shutterevents.Apology{Sender: s, Eon: eon, Accusers: acc, PolyEval: evals})
					}
				}
			}
		}
	default:
		panic("evx: unknown event type " + typ)
	}
}
