package evx

import (
	"fmt"
	"math/big"

	"github.com/ethereum/go-ethereum/common"
	"github.com/ethereum/go-ethereum/crypto"
	"github.com/ethereum/go-ethereum/crypto/ecies"
	blst "github.com/supranational/blst/bindings/go"
	abcitypes "github.com/tendermint/tendermint/abci/types"
	"google.golang.org/protobuf/proto"

	"github.com/shutter-network/shutter/shlib/shcrypto"

	"github.com/shutter-network/rolling-shutter/rolling-shutter/app"
	"github.com/shutter-network/rolling-shutter/rolling-shutter/keyper/shutterevents"
	"github.com/shutter-network/rolling-shutter/rolling-shutter/shmsg"

	"verif/harness/appx"
)

// E2ECase is one end-to-end case of part (b): a fresh application whose genesis
// keyper set is {participant 0} with threshold 1 (every valid config vote of
// participant 0 is accepted at once), an optional set-up config, and the
// message under test.
type E2ECase struct {
	InitialEon uint64 `json:"initial_eon"`
	Setup      []byte `json:"setup,omitempty"` // marshalled shmsg.Message (a BatchConfig) sent by participant 0 first
	Msg        []byte `json:"msg"`             // marshalled shmsg.Message under test
	Sender     int    `json:"sender"`
	Desc       string `json:"desc"`
}

// E2EResult is what the application answered and what the keyper side decoded.
type E2EResult struct {
	Refused   string   // non-empty: the application refused the message (code != 0)
	Height    int64    // height handed to MakeEvent
	Got       []string // normal forms of the decoded events
	DecodeErr string   // non-empty: an emitted event did not decode
	Want      []string // normal forms of what was sent
	Raw       []abcitypes.Event
}

func marshalMsg(m *shmsg.Message) []byte {
	b, err := proto.MarshalOptions{Deterministic: true}.Marshal(m)
	if err != nil {
		panic(err)
	}
	return b
}

// MarshalMsg is exported for the check.
func MarshalMsg(m *shmsg.Message) []byte { return marshalMsg(m) }

func addrsFromBytes(bs [][]byte) []common.Address {
	var out []common.Address
	for _, b := range bs {
		out = append(out, common.BytesToAddress(b))
	}
	return out
}

// expected computes, independently of shutterevents' codec, the events an
// accepted message must produce, from the message itself and the eon counter
// before delivery.
func expected(a *app.ShutterApp, m *shmsg.Message, sender common.Address) ([]shutterevents.IEvent, error) {
	switch {
	case m.GetBatchConfig() != nil:
		bc := m.GetBatchConfig()
		return []shutterevents.IEvent{
			&shutterevents.BatchConfig{Keypers: addrsFromBytes(bc.Keypers), ActivationBlockNumber: bc.ActivationBlockNumber, Threshold: bc.Threshold, KeyperConfigIndex: bc.KeyperConfigIndex},
			&shutterevents.EonStarted{Eon: a.EONCounter + 1, ActivationBlockNumber: bc.ActivationBlockNumber, KeyperConfigIndex: bc.KeyperConfigIndex},
		}, nil
	case m.GetCheckIn() != nil:
		pk, err := crypto.DecompressPubkey(m.GetCheckIn().EncryptionPublicKey)
		if err != nil {
			return nil, err
		}
		return []shutterevents.IEvent{&shutterevents.CheckIn{Sender: sender, EncryptionPublicKey: ecies.ImportECDSAPublic(pk)}}, nil
	case m.GetPolyCommitment() != nil:
		pc := m.GetPolyCommitment()
		g := shcrypto.Gammas{}
		for _, b := range pc.Gammas {
			p := new(blst.P2Affine).Uncompress(b)
			if p == nil {
				return nil, fmt.Errorf("harness sent an invalid point")
			}
			g = append(g, p)
		}
		return []shutterevents.IEvent{&shutterevents.PolyCommitment{Sender: sender, Eon: pc.Eon, Gammas: &g}}, nil
	case m.GetPolyEval() != nil:
		pe := m.GetPolyEval()
		return []shutterevents.IEvent{&shutterevents.PolyEval{Sender: sender, Eon: pe.Eon, Receivers: addrsFromBytes(pe.Receivers), EncryptedEvals: pe.EncryptedEvals}}, nil
	case m.GetAccusation() != nil:
		ac := m.GetAccusation()
		return []shutterevents.IEvent{&shutterevents.Accusation{Sender: sender, Eon: ac.Eon, Accused: addrsFromBytes(ac.Accused)}}, nil
	case m.GetApology() != nil:
		ap := m.GetApology()
		var evals []*big.Int
		for _, b := range ap.PolyEvals {
			evals = append(evals, new(big.Int).SetBytes(b))
		}
		return []shutterevents.IEvent{&shutterevents.Apology{Sender: sender, Eon: ap.Eon, Accusers: addrsFromBytes(ap.Accusers), PolyEval: evals}}, nil
	}
	return nil, fmt.Errorf("no expectation for %T", m.Payload)
}

// RunE2E executes one case on the real application.
func RunE2E(u *appx.Universe, c E2ECase) E2EResult {
	a, _ := u.NewApp(appx.Genesis{Members: []int{0}, Threshold: 1, InitialEon: c.InitialEon})
	nonce := uint64(100)
	if len(c.Setup) > 0 {
		m := &shmsg.Message{}
		if err := proto.Unmarshal(c.Setup, m); err != nil {
			panic(err)
		}
		r := a.DeliverTx(abcitypes.RequestDeliverTx{Tx: appx.SignTx(m, appx.ChainID, nonce, u.Keys[0])})
		if r.Code != 0 {
			panic(fmt.Sprintf("evx: e2e set-up config refused: %s", r.Log))
		}
		nonce++
	}
	m := &shmsg.Message{}
	if err := proto.Unmarshal(c.Msg, m); err != nil {
		panic(err)
	}
	want, werr := expected(a, m, u.Addrs[c.Sender])
	res := E2EResult{Height: a.LastBlockHeight + 1}
	r := a.DeliverTx(abcitypes.RequestDeliverTx{Tx: appx.SignTx(m, appx.ChainID, nonce, u.Keys[c.Sender])})
	if r.Code != 0 {
		res.Refused = digits.ReplaceAllString(firstLine(r.Log), "N")
		if res.Refused == "" {
			res.Refused = fmt.Sprintf("code %d", r.Code)
		}
		return res
	}
	if werr != nil {
		panic(fmt.Sprintf("evx: e2e: application accepted a message the harness cannot interpret: %v", werr))
	}
	res.Raw = r.Events
	for _, w := range want {
		res.Want = append(res.Want, Norm(WithHeight(w, res.Height)))
	}
	for _, ev := range r.Events {
		x, err := shutterevents.MakeEvent(ev, res.Height)
		if err != nil {
			res.DecodeErr = fmt.Sprintf("event %s: %v", ev.Type, err)
			return res
		}
		res.Got = append(res.Got, Norm(x))
	}
	return res
}
