// Package appx closes the environment of the shuttermint ABCI application
// (rolling-shutter/app) for the explorers: deterministic key universe, genesis,
// a small transaction alphabet that is resolved against the current state, and
// a stepper that drives the real ABCI methods.
package appx

import (
	"crypto/ecdsa"
	"crypto/ed25519"
	"crypto/sha256"
	"encoding/base64"
	"fmt"
	"math/big"
	"sync"

	"github.com/ethereum/go-ethereum/common"
	"github.com/ethereum/go-ethereum/crypto"
	"github.com/ethereum/go-ethereum/crypto/ecies"
	"github.com/rs/zerolog"
	"github.com/tendermint/go-amino"
	abcitypes "github.com/tendermint/tendermint/abci/types"
	tmcrypto "github.com/tendermint/tendermint/proto/tendermint/crypto"
	tmproto "github.com/tendermint/tendermint/proto/tendermint/types"
	"google.golang.org/protobuf/proto"

	"github.com/shutter-network/shutter/shlib/shcrypto"

	"github.com/shutter-network/rolling-shutter/rolling-shutter/app"
	"github.com/shutter-network/rolling-shutter/rolling-shutter/shmsg"

	"verif/canon"
)

func init() {
	zerolog.SetGlobalLevel(zerolog.Disabled)
}

const ChainID = "verif-chain"

// Universe is a deterministic set of participants.
type Universe struct {
	Keys    []*ecdsa.PrivateKey
	Addrs   []common.Address
	ValKeys [][2][]byte // two validator keys per participant (for key changes)
	Gammas  []*shcrypto.Gammas
}

// ValKey is the validator key participant s announces with check-in variant a:
// 0 and 1 are its own two keys, 2 is the first key of participant 0 (a key
// shared between keypers).
func (u *Universe) ValKey(s, a int) []byte {
	if a == 2 {
		return u.ValKeys[0][0]
	}
	return u.ValKeys[s][a]
}

// NewUniverse creates n participants.
func NewUniverse(n int) *Universe {
	u := &Universe{}
	for i := 0; i < n; i++ {
		h := sha256.Sum256([]byte(fmt.Sprintf("verif-key-%d", i)))
		k, err := crypto.ToECDSA(h[:])
		if err != nil {
			panic(err)
		}
		u.Keys = append(u.Keys, k)
		u.Addrs = append(u.Addrs, crypto.PubkeyToAddress(k.PublicKey))
		var vk [2][]byte
		for j := 0; j < 2; j++ {
			s := sha256.Sum256([]byte(fmt.Sprintf("verif-val-%d-%d", i, j)))
			vk[j] = ed25519.NewKeyFromSeed(s[:]).Public().(ed25519.PublicKey)
		}
		u.ValKeys = append(u.ValKeys, vk)
	}
	for deg := 0; deg < 3; deg++ {
		coeffs := []*big.Int{}
		for j := 0; j <= deg; j++ {
			coeffs = append(coeffs, big.NewInt(int64(7+j)))
		}
		p, err := shcrypto.NewPolynomial(coeffs)
		if err != nil {
			panic(err)
		}
		u.Gammas = append(u.Gammas, p.Gammas())
	}
	return u
}

func (u *Universe) AddrsOf(idx []int) []common.Address {
	out := make([]common.Address, len(idx))
	for i, x := range idx {
		out[i] = u.Addrs[x]
	}
	return out
}

// Index returns the participant index of an address, or -1.
func (u *Universe) Index(a common.Address) int {
	for i, x := range u.Addrs {
		if x == a {
			return i
		}
	}
	return -1
}

// Genesis describes the initial chain.
type Genesis struct {
	Members     []int
	Threshold   uint64
	InitialEon  uint64
	ForkEnabled bool
	ForkHeight  int64
	NilForks    bool
	DevMode     bool
	// LegacyFork > 0: the genesis document carries the fork height in the legacy field
	// (forkHeights.checkInUpdate) only; the application has to migrate it itself
	LegacyFork int64
	ChainID     string // "" = ChainID; the application has built-in fork overrides for some chain ids
}

// GenesisValidator is the single validator of the tendermint genesis document.
var GenesisValidator = func() []byte {
	s := sha256.Sum256([]byte("verif-genesis-validator"))
	return ed25519.NewKeyFromSeed(s[:]).Public().(ed25519.PublicKey)
}()

// NewApp creates an application, runs InitChain and opens block 1.
func (u *Universe) NewApp(g Genesis) (*app.ShutterApp, abcitypes.ResponseBeginBlock) {
	a := app.NewShutterApp()
	a.DevMode = g.DevMode
	var fh *app.ForkHeights
	if !g.NilForks {
		fh = &app.ForkHeights{CheckInUpdateNew: app.ForkHeight{Enabled: g.ForkEnabled, Height: g.ForkHeight}}
	}
	if g.LegacyFork > 0 {
		h := g.LegacyFork
		fh = &app.ForkHeights{CheckInUpdate: &h}
	}
	gs := app.NewGenesisAppState(u.AddrsOf(g.Members), int(g.Threshold), g.InitialEon, fh)
	b, err := amino.NewCodec().MarshalJSON(gs)
	if err != nil {
		panic(err)
	}
	chain := ChainID
	if g.ChainID != "" {
		chain = g.ChainID
	}
	a.InitChain(abcitypes.RequestInitChain{
		ChainId:       chain,
		AppStateBytes: b,
		Validators: []abcitypes.ValidatorUpdate{{
			PubKey: tmcrypto.PublicKey{Sum: &tmcrypto.PublicKey_Ed25519{Ed25519: GenesisValidator}},
			Power:  10,
		}},
	})
	bb := a.BeginBlock(abcitypes.RequestBeginBlock{Header: tmproto.Header{Height: 1}})
	return a, bb
}

// Op is one step of a history. Transaction ops are resolved against the
// current application state (relative config index, current eon, …), so the
// same alphabet stays meaningful at every depth; resolution is a pure function
// of the state, so histories replay deterministically.
type Op struct {
	Kind   string `json:"k"`           // cfg, checkin, seen, result, commit, eval, accuse, apology, endblock, raw, replay
	Sender int    `json:"s,omitempty"` // participant index
	A      int    `json:"a,omitempty"` // kind specific selector
	B      int    `json:"b,omitempty"`
	Raw    []byte `json:"raw,omitempty"` // for kind raw: the tx bytes as submitted
	Msg    []byte `json:"msg,omitempty"` // for kind msg: marshalled shmsg.Message to be signed by Sender
}

func (o Op) String() string {
	switch o.Kind {
	case "endblock":
		return "endblock"
	case "raw":
		return fmt.Sprintf("raw(%x)", o.Raw)
	case "msg":
		return fmt.Sprintf("msg(s%d,%x)", o.Sender, o.Msg)
	}
	return fmt.Sprintf("%s(s%d,%d,%d)", o.Kind, o.Sender, o.A, o.B)
}

// Candidate configurations, relative to the last accepted config.
type Candidate struct {
	Members   []int
	Threshold uint64
	IndexPlus int    // config index = last index + IndexPlus
	Act       uint64 // activation block number
}

// World bundles what resolves ops into transactions.
type World struct {
	U          *Universe
	Candidates []Candidate
	SeenBlocks []uint64
	ChainID    string
}

// Message builds the shmsg.Message for an op, resolved against the state.
func (w *World) Message(a *app.ShutterApp, op Op) *shmsg.Message {
	u := w.U
	switch op.Kind {
	case "cfg":
		c := w.Candidates[op.A]
		last := a.LastConfig()
		idx := int64(last.KeyperConfigIndex) + int64(c.IndexPlus)
		if idx < 0 {
			idx = 0
		}
		return shmsg.NewBatchConfig(c.Act, u.AddrsOf(c.Members), c.Threshold, uint64(idx))
	case "checkin":
		if op.B == 1 {
			// well-formed validator key, malformed encryption key (uncompressed form): the
			// application must refuse it and must not count it
			return &shmsg.Message{Payload: &shmsg.Message_CheckIn{CheckIn: &shmsg.CheckIn{
				ValidatorPublicKey: u.ValKey(op.Sender, op.A), EncryptionPublicKey: crypto.FromECDSAPub(&u.Keys[op.Sender].PublicKey),
			}}}
		}
		return shmsg.NewCheckIn(u.ValKey(op.Sender, op.A), ecies.ImportECDSAPublic(&u.Keys[op.Sender].PublicKey))
	case "seen":
		return shmsg.NewBlockSeen(w.SeenBlocks[op.A])
	case "result":
		return shmsg.NewDKGResult(w.eon(a, op.A), op.B == 1)
	case "commit":
		return shmsg.NewPolyCommitment(w.eon(a, op.A), u.Gammas[op.B%len(u.Gammas)])
	case "eval":
		recv, evals := w.others(a, op)
		return shmsg.NewPolyEval(w.eon(a, op.A), recv, evals)
	case "accuse":
		recv, _ := w.others(a, op)
		switch {
		case op.B == 2 && len(recv) > 1:
			// every other keyper, the first one named a second time in between
			recv = append(append(append([]common.Address{}, recv[:2]...), recv[0]), recv[2:]...)
		case op.B == 1:
			// every other keyper
		case len(recv) > 1:
			recv = recv[:1]
		}
		return shmsg.NewAccusation(w.eon(a, op.A), recv)
	case "apology":
		recv, _ := w.others(a, op)
		if len(recv) > 1 {
			recv = recv[:1]
		}
		ev := make([]*big.Int, len(recv))
		for i := range ev {
			ev[i] = big.NewInt(int64(5 + i))
		}
		return shmsg.NewApology(w.eon(a, op.A), recv, ev)
	}
	panic("appx: unknown op kind " + op.Kind)
}

// eon resolves the relative eon selector: 0 = newest eon, 1 = the one before.
func (w *World) eon(a *app.ShutterApp, sel int) uint64 {
	e := int64(a.EONCounter) - int64(sel)
	if e < 0 {
		e = 0
	}
	return uint64(e)
}

// others lists the keypers of the addressed eon except the sender (or, when
// the eon does not exist, of the last config).
func (w *World) others(a *app.ShutterApp, op Op) ([]common.Address, [][]byte) {
	var keypers []common.Address
	if d, ok := a.DKGMap[w.eon(a, op.A)]; ok {
		keypers = d.Config.Keypers
	} else {
		keypers = a.LastConfig().Keypers
	}
	var recv []common.Address
	var evals [][]byte
	for _, k := range keypers {
		if k != w.U.Addrs[op.Sender] {
			recv = append(recv, k)
			evals = append(evals, []byte{0xe0, byte(len(recv))})
		}
	}
	return recv, evals
}

// Tx builds the signed, base64 encoded transaction for an op.
func (w *World) Tx(a *app.ShutterApp, op Op, nonce uint64) []byte {
	if op.Kind == "raw" {
		return op.Raw
	}
	var m *shmsg.Message
	if op.Kind == "msg" {
		m = &shmsg.Message{}
		if err := proto.Unmarshal(op.Msg, m); err != nil {
			panic(err)
		}
	} else {
		m = w.Message(a, op)
	}
	return SignTx(m, w.chain(a), nonce, w.U.Keys[op.Sender])
}

// chain is the chain id transactions are signed for: the world's, if set
// (wrong-chain traffic), else the application's own.
func (w *World) chain(a *app.ShutterApp) string {
	if w.ChainID != "" {
		return w.ChainID
	}
	if a != nil && a.ChainID != "" {
		return a.ChainID
	}
	return ChainID
}

var (
	txCache   = map[string][]byte{}
	txCacheMu sync.Mutex
)

// SignTx wraps, signs and encodes a message. Signing is deterministic
// (RFC 6979), so results are cached by content.
func SignTx(m *shmsg.Message, chainID string, nonce uint64, key *ecdsa.PrivateKey) []byte {
	mw := &shmsg.MessageWithNonce{ChainId: []byte(chainID), RandomNonce: nonce, Msg: m}
	mb, err := proto.MarshalOptions{Deterministic: true}.Marshal(mw)
	if err != nil {
		panic(err)
	}
	ck := string(key.D.Bytes()) + "|" + string(mb)
	txCacheMu.Lock()
	tx, ok := txCache[ck]
	txCacheMu.Unlock()
	if ok {
		return tx
	}
	signed, err := shmsg.SignMessage(mw, key)
	if err != nil {
		panic(err)
	}
	tx = []byte(base64.RawURLEncoding.EncodeToString(signed))
	txCacheMu.Lock()
	defer txCacheMu.Unlock()
	if len(txCache) > 200000 {
		txCache = map[string][]byte{}
	}
	txCache[ck] = tx
	return tx
}

// Result is what one step returned, marshalled.
type Result struct {
	Deliver  *abcitypes.ResponseDeliverTx
	End      *abcitypes.ResponseEndBlock
	Begin    *abcitypes.ResponseBeginBlock
	Bytes    []byte // canonical bytes of everything returned by this step
	Panicked string
}

// Step applies one op to the application through the real ABCI methods.
// endblock = EndBlock(height) + Commit + BeginBlock(height+1).
func (w *World) Step(a *app.ShutterApp, op Op, nonce uint64) (res Result) {
	if op.Kind == "endblock" {
		h := a.LastBlockHeight + 1
		eb := a.EndBlock(abcitypes.RequestEndBlock{Height: h})
		cm := a.Commit()
		bb := a.BeginBlock(abcitypes.RequestBeginBlock{Header: tmproto.Header{Height: h + 1}})
		res.End, res.Begin = &eb, &bb
		b1, _ := eb.Marshal()
		b2, _ := cm.Marshal()
		b3, _ := bb.Marshal()
		res.Bytes = join(b1, b2, b3)
		return res
	}
	tx := w.Tx(a, op, nonce)
	r := a.DeliverTx(abcitypes.RequestDeliverTx{Tx: tx})
	res.Deliver = &r
	// Log and Info are declared non-deterministic by the ABCI specification (they
	// are not part of the results hash); here they embed Go stack traces
	// (pkg/errors %+v), so they are left out of the compared bytes.
	cmp := r
	cmp.Log, cmp.Info = "", ""
	b, _ := cmp.Marshal()
	res.Bytes = b
	return res
}

func join(bs ...[]byte) []byte {
	var out []byte
	for _, b := range bs {
		out = append(out, byte(len(b)>>16), byte(len(b)>>8), byte(len(b)))
		out = append(out, b...)
	}
	return out
}

// Skip sets for canonical dumps.
var (
	// SkipVolatile drops what no replica-visible behaviour depends on: the save
	// timestamp and path.
	SkipVolatile = map[string]bool{"ShutterApp.LastSaved": true, "ShutterApp.Gobpath": true}
	// SkipForKey additionally drops the mempool scratch state (reset at every
	// commit, never read by DeliverTx/EndBlock) and the nonce tracker (explorers
	// always use fresh nonces except for explicit replay transitions, whose
	// effect is checked separately), so that BFS merges states with equal futures.
	SkipForKey = map[string]bool{
		"ShutterApp.LastSaved": true, "ShutterApp.Gobpath": true,
		"ShutterApp.CheckTxState": true, "ShutterApp.NonceTracker": true,
	}
)

// StateDump is the canonical replica state (everything but save time/path).
func StateDump(a *app.ShutterApp) string {
	return canon.Dump(a, &canon.Options{Skip: SkipVolatile, NilEqualsEmpty: true})
}

// StateKey is the BFS key.
func StateKey(a *app.ShutterApp) string {
	return canon.Dump(a, &canon.Options{Skip: SkipForKey, NilEqualsEmpty: true})
}

// Clone deep-copies an application (reflective, not gob).
func Clone(a *app.ShutterApp) *app.ShutterApp { return canon.DeepCopy(a) }
