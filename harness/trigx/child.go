package trigx

// The supervised child process. Every call of the real Match/decoder runs in a
// child whose address space is limited (RLIMIT_AS), because the code under
// test may index and allocate with attacker-chosen 64-bit values: a runaway
// allocation kills the child with "fatal error: out of memory" instead of the
// machine. The child announces each case in a shared memory page before
// running it; the parent (the report worker) turns a dead child into a
// violation for the announced case and restarts the enumeration behind it.

import (
	"bufio"
	"bytes"
	"encoding/binary"
	"encoding/hex"
	"encoding/json"
	"fmt"
	"io"
	"os"
	"os/exec"
	"runtime/pprof"
	"strings"
	"sync"
	"syscall"
	"time"

	"github.com/rs/zerolog"
)

const (
	SpecEnv = "TRIGX_CHILD_SPEC"
	// MemLimit is the child's address-space limit. The largest enumerated
	// length that is not rejected by makeslice itself is 2^32 bytes.
	MemLimit = 3 << 30
	// HangAfter: a case normally takes microseconds.
	HangAfter = 240 * time.Second
)

type Spec struct {
	Mode         string         `json:"mode"` // enum | case
	Thorough     bool           `json:"thorough"`
	Shard        int            `json:"shard"`
	NShards      int            `json:"nshards"`
	From         int            `json:"from"`
	Skip         []Pos          `json:"skip,omitempty"`
	SkipHuge     bool           `json:"skip_huge,omitempty"`
	Seen         map[string]int `json:"seen,omitempty"`
	Progress     string         `json:"progress,omitempty"`
	DeadlineUnix int64          `json:"deadline_unix,omitempty"`
	Case         *Case          `json:"case,omitempty"`
}

// CaseResult is the child's answer in mode "case".
type CaseResult struct {
	Findings []Finding `json:"findings"`
	Note     string    `json:"note"`
}

// IsChild reports whether this process was started as a supervised child.
func IsChild() bool { return os.Getenv(SpecEnv) != "" }

// ChildMain is the main function of the child; it never returns.
func ChildMain() {
	zerolog.SetGlobalLevel(zerolog.Disabled)
	var spec Spec
	if err := json.Unmarshal([]byte(os.Getenv(SpecEnv)), &spec); err != nil {
		fmt.Fprintln(os.Stderr, "trigx child: bad spec:", err)
		os.Exit(4)
	}
	lim := syscall.Rlimit{Cur: MemLimit, Max: MemLimit}
	if err := syscall.Setrlimit(syscall.RLIMIT_AS, &lim); err != nil {
		fmt.Fprintln(os.Stderr, "trigx child: setrlimit:", err)
		os.Exit(4)
	}
	out := os.NewFile(3, "results")
	w := bufio.NewWriter(out)
	enc := json.NewEncoder(w)
	switch spec.Mode {
	case "case":
		res := RunCase(spec.Case)
		_ = enc.Encode(res)
		w.Flush()
	case "enum":
		progress := func(Pos) {}
		if spec.Progress != "" {
			f, err := os.OpenFile(spec.Progress, os.O_RDWR, 0)
			if err != nil {
				fmt.Fprintln(os.Stderr, "trigx child: progress file:", err)
				os.Exit(4)
			}
			page, err := syscall.Mmap(int(f.Fd()), 0, 32, syscall.PROT_READ|syscall.PROT_WRITE, syscall.MAP_SHARED)
			if err != nil {
				fmt.Fprintln(os.Stderr, "trigx child: mmap:", err)
				os.Exit(4)
			}
			progress = func(p Pos) {
				binary.LittleEndian.PutUint64(page[8:], uint64(p.Unit))
				binary.LittleEndian.PutUint64(page[16:], uint64(p.Ord))
				binary.LittleEndian.PutUint64(page[24:], uint64(p.Sub))
				binary.LittleEndian.PutUint64(page[0:], 1)
			}
		}
		if pf := os.Getenv("TRIGX_PROF"); pf != "" && spec.Shard == 0 {
			if f, err := os.Create(fmt.Sprintf("%s.%d", pf, spec.From)); err == nil {
				_ = pprof.StartCPUProfile(f)
				defer pprof.StopCPUProfile()
			}
		}
		plan := NewPlan(spec.Thorough)
		e := newEngine(plan, &spec, progress)
		e.Run(func(f *Flush) {
			_ = enc.Encode(f)
			w.Flush()
		})
		pprof.StopCPUProfile()
	default:
		fmt.Fprintln(os.Stderr, "trigx child: unknown mode", spec.Mode)
		os.Exit(4)
	}
	os.Exit(0)
}

// RunCase runs all oracles on one recorded case (inside the child).
func RunCase(c *Case) *CaseResult {
	res := &CaseResult{}
	switch c.Kind {
	case "match":
		d, err := c.Def.Def()
		if err != nil {
			res.Note = err.Error()
			return res
		}
		if c.Log == nil { // a finding about the definition alone (no filter can be derived)
			rd := ToReal(d)
			if verr, p := SafeValidate(rd); verr != nil || p != nil {
				res.Note = fmt.Sprintf("definition is not valid (%v) - nothing to check", verr)
				return res
			}
			_, _, _, res.Findings = CheckFilterOf(d, rd)
			return res
		}
		addr, topics, data, err := LogFromJSON(c.Log)
		if err != nil {
			res.Note = err.Error()
			return res
		}
		res.Findings, res.Note = CheckMatchCase(d, addr, topics, data)
	case "roundtrip":
		d, err := c.Def.Def()
		if err != nil {
			res.Note = err.Error()
			return res
		}
		res.Note, _, res.Findings = CheckRoundTrip(d)
	case "decode":
		b, err := hex.DecodeString(c.Bytes)
		if err != nil {
			res.Note = err.Error()
			return res
		}
		var d *Def
		res.Note, d, res.Findings = CheckDecode(b)
		if d != nil {
			rd := ToReal(d)
			_, _, _, fs := CheckFilterOf(d, rd)
			res.Findings = append(res.Findings, fs...)
		}
	}
	return res
}

// ChildExit describes how a child ended.
type ChildExit struct {
	Clean       bool // exit status 0
	Hung        bool // killed by the watchdog
	HasProgress bool
	Progress    Pos
	Stderr      string
	Err         string
}

// OOM reports whether the Go runtime of the child died for lack of memory.
func (x *ChildExit) OOM() bool {
	return strings.Contains(x.Stderr, "out of memory") || strings.Contains(x.Stderr, "cannot allocate memory")
}

type capBuf struct {
	mu sync.Mutex
	b  bytes.Buffer
}

func (c *capBuf) Write(p []byte) (int, error) {
	c.mu.Lock()
	defer c.mu.Unlock()
	if c.b.Len() < 16<<10 {
		c.b.Write(p[:min(len(p), 16<<10-c.b.Len())])
	}
	return len(p), nil
}

// RunChild starts a child with the given spec, hands every message line to
// onLine and returns when the child is gone.
func RunChild(spec *Spec, onLine func(line []byte)) (*ChildExit, error) {
	var pf *os.File
	if spec.Mode == "enum" {
		var err error
		pf, err = os.CreateTemp("", "trigx-progress-*")
		if err != nil {
			return nil, err
		}
		defer os.Remove(pf.Name())
		defer pf.Close()
		if err := pf.Truncate(32); err != nil {
			return nil, err
		}
		spec.Progress = pf.Name()
	}
	sb, _ := json.Marshal(spec)
	r, w, err := os.Pipe()
	if err != nil {
		return nil, err
	}
	cmd := exec.Command(os.Args[0])
	cmd.Env = append(os.Environ(), SpecEnv+"="+string(sb), "GOMAXPROCS=2", "GOTRACEBACK=single")
	cmd.ExtraFiles = []*os.File{w}
	cmd.Stdout = os.Stdout
	stderr := &capBuf{}
	cmd.Stderr = stderr
	if err := cmd.Start(); err != nil {
		r.Close()
		w.Close()
		return nil, err
	}
	w.Close()
	readProgress := func() (Pos, bool) {
		if pf == nil {
			return Pos{}, false
		}
		var page [32]byte
		if _, err := pf.ReadAt(page[:], 0); err != nil {
			return Pos{}, false
		}
		if binary.LittleEndian.Uint64(page[0:]) == 0 {
			return Pos{}, false
		}
		return Pos{Unit: int(binary.LittleEndian.Uint64(page[8:])), Ord: int(binary.LittleEndian.Uint64(page[16:])), Sub: int(binary.LittleEndian.Uint64(page[24:]))}, true
	}
	exit := &ChildExit{}
	done := make(chan struct{})
	var hung bool
	go func() { // watchdog: no progress at all for HangAfter
		last, _ := readProgress()
		since := time.Now()
		t := time.NewTicker(5 * time.Second)
		defer t.Stop()
		for {
			select {
			case <-done:
				return
			case <-t.C:
				cur, ok := readProgress()
				if !ok || cur != last {
					last, since = cur, time.Now()
					continue
				}
				if time.Since(since) > HangAfter {
					hung = true
					_ = cmd.Process.Kill()
					return
				}
			}
		}
	}()
	rd := bufio.NewReaderSize(r, 1<<20)
	for {
		line, err := rd.ReadBytes('\n')
		if len(bytes.TrimSpace(line)) > 0 {
			onLine(line)
		}
		if err != nil {
			if err != io.EOF {
				exit.Err = err.Error()
			}
			break
		}
	}
	r.Close()
	werr := cmd.Wait()
	close(done)
	exit.Clean = werr == nil
	if werr != nil {
		exit.Err = werr.Error()
	}
	exit.Hung = hung
	exit.Progress, exit.HasProgress = readProgress()
	exit.Stderr = stderr.b.String()
	if !exit.Clean {
		fmt.Fprintf(os.Stderr, "trigx: child ended: %s hung=%v progress=%+v\n%s\n", exit.Err, hung, exit.Progress, firstLines(exit.Stderr, 12))
	}
	return exit, nil
}

func firstLines(s string, n int) string {
	l := strings.Split(s, "\n")
	if len(l) > n {
		l = l[:n]
	}
	return strings.Join(l, "\n")
}

// RunCaseInChild runs one case in a fresh child. A dead child is reported as
// crashed=true with the head of its stderr.
func RunCaseInChild(c *Case) (res *CaseResult, crashed bool, stderr string, err error) {
	var got *CaseResult
	x, err := RunChild(&Spec{Mode: "case", Case: c}, func(line []byte) {
		var r CaseResult
		if json.Unmarshal(line, &r) == nil {
			got = &r
		}
	})
	if err != nil {
		return nil, false, "", err
	}
	if !x.Clean || got == nil {
		return nil, true, firstLines(x.Stderr, 12), nil
	}
	return got, false, "", nil
}
