package trigx

// Guarded calls into the real functions of keyperimpl/shutterservice and the
// per-case oracles ("slow path": one case, full diagnosis). The fast path in
// engine.go only detects that something is off and then calls these.

import (
	"bytes"
	"encoding/hex"
	"fmt"
	"math/big"
	"regexp"
	"runtime"
	"runtime/debug"
	"strings"

	"github.com/ethereum/go-ethereum/common"
	"github.com/ethereum/go-ethereum/core/types"

	svc "github.com/shutter-network/rolling-shutter/rolling-shutter/keyperimpl/shutterservice"
)

// AllocBound is the statement's "work bounded by the log's size" made
// concrete (DESIGN C17): 64 KiB + 4*len(data) bytes allocated per Match call.
func AllocBound(dataLen int) uint64 { return 64<<10 + 4*uint64(dataLen) }

type Case struct {
	Kind  string   `json:"kind"` // match | roundtrip | decode
	Def   *DefJSON `json:"definition,omitempty"`
	Log   *LogJSON `json:"log,omitempty"`
	Bytes string   `json:"bytes,omitempty"` // hex, decoder input
	Note  string   `json:"note,omitempty"`
}

type Finding struct {
	Signature string `json:"signature"`
	Message   string `json:"message"`
	Case      Case   `json:"case"`
}

// ToReal builds the repository's definition from the harness's (fresh copies
// of all arguments, so the real code can never disturb the pools).
func ToReal(d *Def) *svc.EventTriggerDefinition {
	out := &svc.EventTriggerDefinition{Contract: common.Address(d.Contract)}
	for _, p := range d.Preds {
		vp := svc.ValuePredicate{Op: svc.Op(p.VP.Op)}
		for _, i := range p.VP.Ints {
			if i == nil {
				vp.IntArgs = append(vp.IntArgs, nil)
			} else {
				vp.IntArgs = append(vp.IntArgs, new(big.Int).Set(i))
			}
		}
		for _, b := range p.VP.Bytes {
			vp.ByteArgs = append(vp.ByteArgs, append([]byte{}, b...))
		}
		out.LogPredicates = append(out.LogPredicates, svc.LogPredicate{
			LogValueRef:    svc.LogValueRef{Dynamic: p.Ref.Dynamic, Offset: p.Ref.Offset},
			ValuePredicate: vp,
		})
	}
	return out
}

// FromReal converts a decoded definition back (for reporting and for running
// the match oracles on decoder outputs).
func FromReal(r *svc.EventTriggerDefinition) *Def {
	d := &Def{Contract: [20]byte(r.Contract)}
	for _, lp := range r.LogPredicates {
		vp := &VP{Op: uint64(lp.ValuePredicate.Op), Ints: lp.ValuePredicate.IntArgs, Bytes: lp.ValuePredicate.ByteArgs}
		d.Preds = append(d.Preds, Pred{Ref: Ref{Dynamic: lp.LogValueRef.Dynamic, Offset: lp.LogValueRef.Offset}, VP: vp})
	}
	return d
}

func RealLog(contract [20]byte, l *LogCase) *types.Log {
	a := contract
	if !l.SameAddr {
		a = OtherAddress
	}
	lg := &types.Log{Address: common.Address(a), Data: l.Data}
	for _, t := range l.Topics {
		lg.Topics = append(lg.Topics, common.BytesToHash(t))
	}
	return lg
}

type panicInfo struct {
	val   string
	stack string
}

func guard(withStack bool, f func()) (p *panicInfo) {
	defer func() {
		if r := recover(); r != nil {
			p = &panicInfo{val: fmt.Sprint(r)}
			if withStack {
				p.stack = string(debug.Stack())
			}
		}
	}()
	f()
	return nil
}

func SafeValidate(d *svc.EventTriggerDefinition) (err error, p *panicInfo) {
	p = guard(true, func() { err = d.Validate() })
	return
}

// callMatch is the hot call: no stack capture, nothing allocated by the harness on the normal path.
func callMatch(d *svc.EventTriggerDefinition, lg *types.Log) (ok bool, err error, panicked bool) {
	defer func() {
		if r := recover(); r != nil {
			panicked = true
		}
	}()
	ok, err = d.Match(lg)
	return
}

// measured runs f and returns the bytes allocated meanwhile (TotalAlloc is
// cumulative and unaffected by garbage collection; the child is single-threaded).
func measured(f func()) uint64 {
	var m0, m1 runtime.MemStats
	runtime.ReadMemStats(&m0)
	f()
	runtime.ReadMemStats(&m1)
	return m1.TotalAlloc - m0.TotalAlloc
}

func realFilter(d *svc.EventTriggerDefinition) (addrs [][20]byte, topics [][][32]byte, err error, p *panicInfo) {
	p = guard(true, func() {
		fq, e := d.ToFilterQuery()
		err = e
		if e != nil {
			return
		}
		for _, a := range fq.Addresses {
			addrs = append(addrs, [20]byte(a))
		}
		for _, alts := range fq.Topics {
			var l [][32]byte
			for _, h := range alts {
				l = append(l, [32]byte(h))
			}
			topics = append(topics, l)
		}
	})
	return
}

func describeRes(d *Def, res []Resolution) string {
	var sb strings.Builder
	for i, p := range d.Preds {
		kind := "static"
		if p.Ref.Dynamic {
			kind = "dynamic"
		}
		fmt.Fprintf(&sb, "  predicate %d: %s offset %d %s -> %s", i, kind, p.Ref.Offset, vpString(p.VP), res[i].Class)
		if res[i].Class.WellFormed() {
			v := res[i].Value
			if len(v) > 40 {
				fmt.Fprintf(&sb, " value(%d bytes)=%x…", len(v), v[:40])
			} else {
				fmt.Fprintf(&sb, " value=%x", v)
			}
			fmt.Fprintf(&sb, " documented result=%v", EvalOp(p.VP, v))
		}
		sb.WriteString("\n")
	}
	return sb.String()
}

func vpString(v *VP) string {
	if v.Name != "" {
		return v.Name
	}
	s := fmt.Sprintf("op%d(", v.Op)
	for _, i := range v.Ints {
		s += fmt.Sprint(i) + ","
	}
	for _, b := range v.Bytes {
		s += hex.EncodeToString(b) + ","
	}
	return s + ")"
}

// CheckFilterOf checks "for every valid definition a filter can be derived".
func CheckFilterOf(d *Def, rd *svc.EventTriggerDefinition) (addrs [][20]byte, topics [][][32]byte, ok bool, fs []Finding) {
	addrs, topics, err, p := realFilter(rd)
	c := Case{Kind: "match", Def: d.JSON()}
	switch {
	case p != nil:
		fs = append(fs, Finding{"C17/filter-derivation-panics", fmt.Sprintf("ToFilterQuery panicked on a definition that passes Validate: %s\n%s", p.val, p.stack), c})
	case err != nil:
		fs = append(fs, Finding{"C17/valid-definition-has-no-filter", fmt.Sprintf("definition passes Validate but ToFilterQuery fails: %v\n%s", err, describeDef(d)), c})
	default:
		ok = true
	}
	return
}

func describeDef(d *Def) string {
	var sb strings.Builder
	fmt.Fprintf(&sb, "  contract %x\n", d.Contract)
	for i, p := range d.Preds {
		fmt.Fprintf(&sb, "  predicate %d: dynamic=%v offset=%d %s\n", i, p.Ref.Dynamic, p.Ref.Offset, vpString(p.VP))
	}
	return sb.String()
}

// CheckMatchCase is the full diagnosis of one (definition, log) pair.
// The caller guarantees that it runs where a runaway allocation is survivable
// (the supervised child).
func CheckMatchCase(d *Def, addr [20]byte, topics [][]byte, data []byte) (fs []Finding, note string) {
	rd := ToReal(d)
	if err, p := SafeValidate(rd); err != nil || p != nil {
		return nil, fmt.Sprintf("definition is not valid (%v) - nothing to check", err)
	}
	lc := &LogCase{SameAddr: addr == d.Contract, Topics: topics, Data: data}
	cs := Case{Kind: "match", Def: d.JSON(), Log: &LogJSON{Address: hex.EncodeToString(addr[:]), Topics: []string{}, Data: hex.EncodeToString(data)}}
	for _, t := range topics {
		cs.Log.Topics = append(cs.Log.Topics, hex.EncodeToString(t))
	}
	lg := &types.Log{Address: common.Address(addr), Data: data}
	for _, t := range topics {
		lg.Topics = append(lg.Topics, common.BytesToHash(t))
	}
	res := make([]Resolution, len(d.Preds))
	for i, p := range d.Preds {
		res[i] = Resolve(p.Ref, topics, data)
	}
	want, _ := RefMatch(d, lc.SameAddr, res)
	header := fmt.Sprintf("log: address %x (%s), %d topics, %d data bytes\n%s", addr, map[bool]string{true: "the definition's contract", false: "another contract"}[lc.SameAddr], len(topics), len(data), describeRes(d, res))

	fAddrs, fTopics, fOK, ffs := CheckFilterOf(d, rd)
	fs = append(fs, ffs...)

	var got bool
	var merr error
	var panicked bool
	alloc := measured(func() { got, merr, panicked = callMatch(rd, lg) })

	if panicked {
		p := guard(true, func() { _, _ = rd.Match(lg) })
		slug := "definition"
		for i := range rd.LogPredicates {
			lp := &rd.LogPredicates[i]
			if pp := guard(false, func() { _, _ = lp.Match(lg) }); pp != nil {
				slug = res[i].Class.Slug()
				break
			}
		}
		val, stack := "?", ""
		if p != nil {
			val, stack = p.val, p.stack
		}
		fs = append(fs, Finding{"C17/match-panics-on-" + slug, fmt.Sprintf("Match panicked on a valid definition: %s\n%s%s", val, header, trimStack(stack)), cs})
		return fs, ""
	}
	if bound := AllocBound(len(data)); alloc > bound {
		slug := "definition"
		for i := range rd.LogPredicates {
			lp := &rd.LogPredicates[i]
			a := measured(func() { guard(false, func() { _, _ = lp.Match(lg) }) })
			if a > bound {
				slug = res[i].Class.Slug()
				break
			}
		}
		fs = append(fs, Finding{"C17/match-allocates-on-" + slug, fmt.Sprintf("Match allocated %d bytes for a log with %d data bytes (bound 64 KiB + 4*len = %d)\n%s", alloc, len(data), bound, header), cs})
	}
	answer := got && merr == nil
	if want != RefSilent && answer != (want == RefTrue) {
		fs = append(fs, Finding{"C17/match-differs-from-documented-semantics", fmt.Sprintf("Match returned (%v, %v); docs/event.md gives %v (all referenced ranges lie inside the data)\n%s", got, merr, want == RefTrue, header), cs})
	}
	if answer && fOK && !FilterPasses(fAddrs, fTopics, addr, topics) {
		fs = append(fs, Finding{"C17/matching-log-hidden-by-filter", fmt.Sprintf("Match returned true but the log does not pass the filter from ToFilterQuery (addresses %x, topics %x)\n%s", fAddrs, fTopics, header), cs})
	}
	return fs, fmt.Sprintf("match=%v err=%v alloc=%d documented=%d", got, merr, alloc, want)
}

var (
	stackArgs   = regexp.MustCompile(`\(0x[^)]*\)|\(\{0x[^)]*\)`)
	stackOffset = regexp.MustCompile(` \+0x[0-9a-f]+.*$`)
	inUse       = regexp.MustCompile(` \([0-9]+ in use\)`)
)

// TrimStack keeps the frames of the code under test and removes everything
// that differs from run to run (argument words, pc offsets), so that the
// message - and with it the replay file name - is stable.
func TrimStack(s string) string {
	lines := strings.Split(s, "\n")
	var keep []string
	for i := 0; i < len(lines); i++ {
		l := lines[i]
		switch {
		case strings.Contains(l, "out of memory"), strings.HasPrefix(l, "fatal error"):
			keep = append(keep, inUse.ReplaceAllString(l, ""))
		case strings.Contains(l, "shutterservice.") || strings.HasPrefix(l, "panic("):
			keep = append(keep, stackArgs.ReplaceAllString(l, "(...)"))
			if i+1 < len(lines) {
				keep = append(keep, stackOffset.ReplaceAllString(lines[i+1], ""))
			}
		}
	}
	if len(keep) > 16 {
		keep = keep[:16]
	}
	return strings.Join(keep, "\n")
}

func trimStack(s string) string { return TrimStack(s) }

// Equivalent: same contract, same predicates in order; integer arguments
// compared by value, byte arguments by content (nil == empty).
func Equivalent(a, b *svc.EventTriggerDefinition) bool {
	if a.Contract != b.Contract || len(a.LogPredicates) != len(b.LogPredicates) {
		return false
	}
	for i := range a.LogPredicates {
		x, y := a.LogPredicates[i], b.LogPredicates[i]
		if x.LogValueRef != y.LogValueRef || x.ValuePredicate.Op != y.ValuePredicate.Op ||
			len(x.ValuePredicate.IntArgs) != len(y.ValuePredicate.IntArgs) || len(x.ValuePredicate.ByteArgs) != len(y.ValuePredicate.ByteArgs) {
			return false
		}
		for j := range x.ValuePredicate.IntArgs {
			p, q := x.ValuePredicate.IntArgs[j], y.ValuePredicate.IntArgs[j]
			if p == nil || q == nil || p.Cmp(q) != 0 {
				return false
			}
		}
		for j := range x.ValuePredicate.ByteArgs {
			if !bytes.Equal(x.ValuePredicate.ByteArgs[j], y.ValuePredicate.ByteArgs[j]) {
				return false
			}
		}
	}
	return true
}

var digits = regexp.MustCompile(`[0-9]+`)

// errClass turns an error text of the code under test into a coarse class.
func errClass(err error) string {
	s := err.Error()
	for _, cut := range []string{"failed to decode EventTriggerDefinitionRLP: ", "invalid EventTriggerDefinitionRLP: "} {
		s = strings.TrimPrefix(s, cut)
	}
	if i := strings.Index(s, ", decoding into"); i >= 0 {
		s = s[:i]
	}
	s = digits.ReplaceAllString(s, "N")
	if len(s) > 90 {
		s = s[:90]
	}
	return s
}

// CheckRoundTrip: a definition that passes Validate must survive
// MarshalBytes/UnmarshalBytes as an equivalent, valid definition.
// Returns the outcome class, the encoding (if any) and findings.
func CheckRoundTrip(d *Def) (class string, enc []byte, fs []Finding) {
	rd := ToReal(d)
	cs := Case{Kind: "roundtrip", Def: d.JSON()}
	verr, vp := SafeValidate(rd)
	if vp != nil {
		// the statement only speaks about definitions that pass validation
		return "validate panicked (counted as not valid)", nil, nil
	}
	if verr != nil {
		// invalid: still feed its encoding to the decoder oracle (must be rejected or yield a valid definition)
		var b []byte
		if p := guard(false, func() { b = rd.MarshalBytes() }); p == nil {
			var back svc.EventTriggerDefinition
			var uerr error
			if p := guard(true, func() { uerr = back.UnmarshalBytes(b) }); p != nil {
				fs = append(fs, Finding{"C17/unmarshal-panics", fmt.Sprintf("UnmarshalBytes panicked on the encoding %x of an invalid definition: %s\n%s", b, p.val, trimStack(p.stack)), Case{Kind: "decode", Bytes: hex.EncodeToString(b)}})
			} else if uerr == nil {
				if e, _ := SafeValidate(&back); e != nil {
					fs = append(fs, Finding{"C17/decoded-definition-invalid", fmt.Sprintf("UnmarshalBytes accepted %x but the result fails Validate: %v", b, e), Case{Kind: "decode", Bytes: hex.EncodeToString(b)}})
				}
				return "not valid: " + errClass(verr) + " (its encoding decodes to a valid definition)", nil, fs
			}
		}
		return "not valid: " + errClass(verr), nil, fs
	}
	if p := guard(true, func() { enc = rd.MarshalBytes() }); p != nil {
		fs = append(fs, Finding{"C17/marshal-panics", fmt.Sprintf("MarshalBytes panicked on a valid definition: %s\n%s%s", p.val, describeDef(d), trimStack(p.stack)), cs})
		return "valid: marshal panicked", nil, fs
	}
	var back svc.EventTriggerDefinition
	var uerr error
	if p := guard(true, func() { uerr = back.UnmarshalBytes(enc) }); p != nil {
		fs = append(fs, Finding{"C17/unmarshal-panics", fmt.Sprintf("UnmarshalBytes panicked on MarshalBytes output %x: %s\n%s", enc, p.val, trimStack(p.stack)), cs})
		return "valid: unmarshal panicked", enc, fs
	}
	if uerr != nil {
		fs = append(fs, Finding{"C17/roundtrip-rejected", fmt.Sprintf("valid definition does not decode from its own encoding %x: %v\n%s", enc, uerr, describeDef(d)), cs})
		return "valid: own encoding rejected", enc, fs
	}
	if !Equivalent(rd, &back) {
		fs = append(fs, Finding{"C17/roundtrip-not-equivalent", fmt.Sprintf("Unmarshal(Marshal(d)) differs from d; encoding %x\n original:\n%s decoded:\n%s", enc, describeDef(d), describeDef(FromReal(&back))), cs})
		return "valid: round trip changed the definition", enc, fs
	}
	if e, _ := SafeValidate(&back); e != nil {
		fs = append(fs, Finding{"C17/decoded-definition-invalid", fmt.Sprintf("decoded definition fails Validate: %v (encoding %x)", e, enc), cs})
	}
	return fmt.Sprintf("valid: round trip ok (%d predicates)", len(d.Preds)), enc, fs
}

// CheckDecode: bytes that UnmarshalBytes accepts must yield a definition that
// passes Validate (and, by the third clause, has a filter).
// accepted is the decoded definition or nil.
func CheckDecode(b []byte) (class string, accepted *Def, fs []Finding) {
	cs := Case{Kind: "decode", Bytes: hex.EncodeToString(b)}
	var rd svc.EventTriggerDefinition
	var err error
	if p := guard(true, func() { err = rd.UnmarshalBytes(b) }); p != nil {
		fs = append(fs, Finding{"C17/unmarshal-panics", fmt.Sprintf("UnmarshalBytes panicked on %x: %s\n%s", b, p.val, trimStack(p.stack)), cs})
		return "decode panicked", nil, fs
	}
	if err != nil {
		return "decode rejected: " + errClass(err), nil, nil
	}
	verr, vp := SafeValidate(&rd)
	if verr != nil || vp != nil {
		fs = append(fs, Finding{"C17/decoded-definition-invalid", fmt.Sprintf("UnmarshalBytes accepted %x but the result fails Validate: %v %v\n%s", b, verr, vp, describeDef(FromReal(&rd))), cs})
		return "decode accepted: INVALID definition", nil, fs
	}
	d := FromReal(&rd)
	var re []byte
	class = fmt.Sprintf("decode accepted: valid definition, %d predicates", len(d.Preds))
	if p := guard(false, func() { re = rd.MarshalBytes() }); p == nil && !bytes.Equal(re, b) {
		class += " (non-canonical input)"
	}
	return class, d, fs
}
