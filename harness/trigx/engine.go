package trigx

// The enumeration proper ("fast path"). It runs only inside the supervised
// child process (child.go): every call of the real Match may panic, allocate
// gigabytes or kill the process on the unchanged tree.
//
// Work is cut into units with a global numbering:
//
//	[0, rtUnits)               round trip: blocks of rtBlock definitions of the validation space
//	[rtUnits, +decUnits)       decoder inputs: one base encoding with all its mutations, or a block of short strings
//	[.., +matchUnits)          Match/filter: one candidate definition against all logs built for it
//
// Unit u belongs to shard u % NShards. Before every call of the real code the
// child stores (unit, ord, sub) in a shared page, so a dead child is
// attributed to the exact input.

import (
	"encoding/hex"
	"fmt"
	"runtime"
	"time"

	"github.com/ethereum/go-ethereum/core/types"
	svc "github.com/shutter-network/rolling-shutter/rolling-shutter/keyperimpl/shutterservice"
)

const rtBlock = 4096

type Plan struct {
	Thorough   bool
	RT         *DefSpace
	Dec        *DecoderSpace
	M          *DefSpace
	Logs       *LogSpace
	rtUnits    int
	decUnits   int
	matchUnits int
	BaseNotes  []string
}

func NewPlan(thorough bool) *Plan {
	p := &Plan{Thorough: thorough, RT: RoundTripDefSpace(thorough), M: MatchDefSpace(thorough), Logs: NewLogSpace(thorough)}
	p.Dec = &DecoderSpace{Subs: 3, Thorough: thorough}
	if thorough {
		p.Dec.Subs = 6
	}
	for i, d := range BaseDefs(thorough) {
		rd := ToReal(d)
		var b []byte
		if pi := guard(false, func() { b = rd.MarshalBytes() }); pi != nil {
			p.BaseNotes = append(p.BaseNotes, fmt.Sprintf("base %d: MarshalBytes panicked: %s", i, pi.val))
			b = []byte{svc.Version}
		}
		p.Dec.Bases = append(p.Dec.Bases, b)
	}
	p.rtUnits = (p.RT.Size() + rtBlock - 1) / rtBlock
	p.decUnits = p.Dec.Units()
	p.matchUnits = p.M.Size()
	return p
}

func (p *Plan) Units() int { return p.rtUnits + p.decUnits + p.matchUnits }

// Phase returns the phase of a unit and its index inside the phase.
func (p *Plan) Phase(u int) (string, int) {
	switch {
	case u < p.rtUnits:
		return "roundtrip", u
	case u < p.rtUnits+p.decUnits:
		return "decode", u - p.rtUnits
	}
	return "match", u - p.rtUnits - p.decUnits
}

// Pos identifies one call of the real code: unit, ordinal inside the unit, and
// sub (decode units only: 0 = the decoder itself, k+1 = Match of the decoded
// definition against log k).
type Pos struct {
	Unit int `json:"unit"`
	Ord  int `json:"ord"`
	Sub  int `json:"sub"`
}

// CaseAt rebuilds the input at a position without calling Match (used by the
// supervisor after a child died). Decoding a definition again (sub > 0) calls
// the real decoder, which had already returned normally for that input.
func (p *Plan) CaseAt(pos Pos) (cs Case, slug string) {
	ph, i := p.Phase(pos.Unit)
	switch ph {
	case "roundtrip":
		d := p.RT.At(i*rtBlock + pos.Ord)
		return Case{Kind: "roundtrip", Def: d.JSON()}, "roundtrip"
	case "decode":
		b, note := p.Dec.At(i, pos.Ord)
		if pos.Sub == 0 {
			return Case{Kind: "decode", Bytes: hex.EncodeToString(b), Note: note}, "decode"
		}
		_, d, _ := CheckDecode(b)
		if d == nil {
			return Case{Kind: "decode", Bytes: hex.EncodeToString(b), Note: note}, "decode"
		}
		return p.matchCase(d, pos.Sub-1, "decoded from "+note)
	}
	return p.matchCase(p.M.At(i), pos.Ord, "")
}

func (p *Plan) matchCase(d *Def, logIdx int, note string) (Case, string) {
	ls := p.Logs.For(d)
	l := ls.Logs[logIdx]
	slug := "definition"
	for _, pr := range d.Preds {
		if r := Resolve(pr.Ref, l.Topics, l.Data); !r.Class.WellFormed() && pr.Ref.Dynamic {
			slug = r.Class.Slug()
			break
		}
	}
	return Case{Kind: "match", Def: d.JSON(), Log: l.JSON(d.Contract), Note: note}, slug
}

// Flush is one message of the child to its supervisor.
type Flush struct {
	Through     int              `json:"through"` // last completed unit
	Evaluations int64            `json:"evaluations"`
	Classes     map[string]int64 `json:"classes,omitempty"`
	Counters    map[string]int64 `json:"counters,omitempty"`
	Samples     []any            `json:"samples,omitempty"`
	Findings    []Finding        `json:"findings,omitempty"`
	Cap         string           `json:"cap,omitempty"`
	Done        bool             `json:"done,omitempty"`
}

type Engine struct {
	plan     *Plan
	spec     *Spec
	progress func(Pos)
	skip     map[Pos]bool
	out      *Flush
	seen     map[string]int // signature / predicted-slug throttles
	realLogs map[*LogSet][]*types.Log
	sampled  map[string]bool
	mclass   [5][32]int64
	resBuf   []Resolution
}

type mkey struct {
	outcome uint8 // 0 false 1 true 2 error 3 panic 4 not executed
	sit     uint8 // 0 other contract, 1..5 well-formed kinds, 10+RefClass silent
}

var outcomeNames = [...]string{"match=false", "match=true", "match returned an error", "MATCH PANICKED", "not executed (huge length; crash class already recorded in this worker)"}
var kindNames = [...]string{"", "no predicates", "topics only", "static data", "dynamic data", "topics and data"}

func (k mkey) String() string {
	s := outcomeNames[k.outcome] + " | "
	switch {
	case k.sit == 0:
		return s + "log of another contract"
	case k.sit < 10:
		return s + "well-formed: " + kindNames[k.sit]
	}
	return s + "docs silent: " + RefClass(k.sit-10).String()
}

func newEngine(plan *Plan, spec *Spec, progress func(Pos)) *Engine {
	e := &Engine{plan: plan, spec: spec, progress: progress, skip: map[Pos]bool{}, seen: map[string]int{}, realLogs: map[*LogSet][]*types.Log{}, sampled: map[string]bool{}}
	for _, s := range spec.Skip {
		e.skip[s] = true
	}
	for k, v := range spec.Seen {
		e.seen[k] = v
	}
	e.reset(-1)
	return e
}

func (e *Engine) reset(through int) {
	e.out = &Flush{Through: through, Classes: map[string]int64{}, Counters: map[string]int64{}}
}

func (e *Engine) class(c string) { e.out.Classes[c]++ }

// wantSample is checked before a sample value is built (building is expensive).
// Each worker contributes one kind of sample so that the merged evidence shows all kinds.
func (e *Engine) wantSample(kind string) bool {
	return e.spec.From == 0 && !e.sampled[kind] && sampleKinds[e.spec.Shard%len(sampleKinds)] == kind
}

var sampleKinds = []string{"match-true-dynamic", "silent", "decode-accepted", "roundtrip", "decode-rejected"}

func (e *Engine) sample(kind string, v any) {
	if e.wantSample(kind) {
		e.sampled[kind] = true
		e.out.Samples = append(e.out.Samples, v)
	}
}

func (e *Engine) findings(fs []Finding) {
	for _, f := range fs {
		e.seen[f.Signature]++
		if e.seen[f.Signature] <= 1 {
			e.out.Findings = append(e.out.Findings, f)
		}
		e.out.Counters["violating cases: "+f.Signature]++
	}
}

// Run executes all units of the shard from spec.From on; emit is called with
// every flush message.
func (e *Engine) Run(emit func(*Flush)) {
	deadline := time.Unix(e.spec.DeadlineUnix, 0)
	last := time.Now()
	total := e.plan.Units()
	for u := e.spec.From; u < total; u++ {
		if u%e.spec.NShards != e.spec.Shard {
			continue
		}
		switch ph, i := e.plan.Phase(u); ph {
		case "roundtrip":
			e.unitRoundTrip(u, i)
		case "decode":
			e.unitDecode(u, i)
		default:
			e.unitMatch(u, i)
		}
		e.out.Through = u
		if time.Since(last) > 700*time.Millisecond {
			e.flushClasses()
			emit(e.out)
			e.reset(u)
			last = time.Now()
			if e.spec.DeadlineUnix != 0 && last.After(deadline) {
				ph, i := e.plan.Phase(u)
				e.out.Cap = fmt.Sprintf("time budget reached in phase %s (thorough=%v)", ph, e.plan.Thorough)
				_ = i
				e.out.Done = true
				emit(e.out)
				return
			}
		}
	}
	e.flushClasses()
	e.out.Through = total
	e.out.Done = true
	emit(e.out)
}

func (e *Engine) flushClasses() {
	for o := range e.mclass {
		for st, v := range e.mclass[o] {
			if v != 0 {
				e.out.Classes[mkey{uint8(o), uint8(st)}.String()] += v
			}
		}
	}
	e.mclass = [5][32]int64{}
}

func (e *Engine) unitRoundTrip(u, blk int) {
	n := e.plan.RT.Size()
	for ord := 0; ord < rtBlock && blk*rtBlock+ord < n; ord++ {
		pos := Pos{Unit: u, Ord: ord}
		if e.skip[pos] {
			continue
		}
		e.progress(pos)
		d := e.plan.RT.At(blk*rtBlock + ord)
		class, enc, fs := CheckRoundTrip(d)
		e.out.Evaluations++
		e.class("roundtrip " + class)
		e.findings(fs)
		if enc != nil && len(d.Preds) == 2 && d.Preds[0].Ref.Dynamic && e.wantSample("roundtrip") {
			e.sample("roundtrip", map[string]any{"kind": "round trip", "definition": d.JSON(), "encoding": hex.EncodeToString(enc), "outcome": class})
		}
	}
}

func (e *Engine) unitDecode(u, i int) {
	n := e.plan.Dec.UnitSize(i)
	for ord := 0; ord < n; ord++ {
		pos := Pos{Unit: u, Ord: ord}
		if e.skip[pos] {
			continue
		}
		e.progress(pos)
		b, note := e.plan.Dec.At(i, ord)
		class, d, fs := CheckDecode(b)
		e.out.Evaluations++
		e.class(class)
		e.findings(fs)
		if d == nil {
			if len(b) > 20 && e.wantSample("decode-rejected") {
				e.sample("decode-rejected", map[string]any{"kind": "decoder input", "input": hex.EncodeToString(b), "mutation": note, "outcome": class})
			}
			continue
		}
		if i < len(e.plan.Dec.Bases) && ord != len(e.plan.Dec.Bases[i]) && e.wantSample("decode-accepted") {
			e.sample("decode-accepted", map[string]any{"kind": "decoder input", "input": hex.EncodeToString(b), "mutation": note, "outcome": class, "decoded": d.JSON()})
		}
		// a decoded definition is a valid definition: clauses 2 and 3 apply to it
		e.matchDef(d, func(logIdx int) Pos { return Pos{Unit: u, Ord: ord, Sub: logIdx + 1} }, "decoded definition: ")
	}
}

func (e *Engine) unitMatch(u, i int) {
	d := e.plan.M.At(i)
	e.matchDef(d, func(logIdx int) Pos { return Pos{Unit: u, Ord: logIdx} }, "")
}

func (e *Engine) logsFor(d *Def) (*LogSet, []*types.Log) {
	ls := e.plan.Logs.For(d)
	if d.Contract != Contract {
		out := make([]*types.Log, len(ls.Logs))
		for i, l := range ls.Logs {
			out[i] = RealLog(d.Contract, l)
		}
		return ls, out
	}
	if r, ok := e.realLogs[ls]; ok {
		return ls, r
	}
	out := make([]*types.Log, len(ls.Logs))
	for i, l := range ls.Logs {
		out[i] = RealLog(Contract, l)
	}
	e.realLogs[ls] = out
	return ls, out
}

const batch = 64

func kindOf(d *Def) uint8 {
	if len(d.Preds) == 0 {
		return 1
	}
	t, s, dy := false, false, false
	for _, p := range d.Preds {
		switch {
		case p.Ref.IsTopic():
			t = true
		case p.Ref.Dynamic:
			dy = true
		default:
			s = true
		}
	}
	switch {
	case t && (s || dy):
		return 5
	case t:
		return 2
	case dy:
		return 4
	}
	return 3
}

// truthOf returns (cached per log set) the table of documented results of
// predicate p per log: 0 not yet computed, 1 false, 2 true.
func (ls *LogSet) truthOf(p Pred) []uint8 {
	if ls.tr == nil {
		ls.tr = map[Pred][]uint8{}
	}
	t := ls.tr[p]
	if t == nil {
		t = make([]uint8, len(ls.Logs))
		ls.tr[p] = t
	}
	return t
}

// matchDef checks clauses 2 and 3 of the statement for one definition.
func (e *Engine) matchDef(d *Def, posOf func(logIdx int) Pos, prefix string) {
	rd := ToReal(d)
	if err, p := SafeValidate(rd); err != nil || p != nil {
		msg := "validate panicked"
		if err != nil {
			msg = errClass(err)
		}
		e.class("match space: candidate rejected by Validate (" + msg + ")")
		return
	}
	e.out.Counters["valid definitions matched against their log space"]++
	fAddrs, fTopics, fOK, ffs := CheckFilterOf(d, rd)
	e.findings(ffs)
	if fOK {
		e.class(fmt.Sprintf("%sfilter derived with %d topic positions", prefix, len(fTopics)))
	} else {
		e.class(prefix + "NO FILTER for a valid definition")
	}
	ls, lgs := e.logsFor(d)
	np := len(d.Preds)
	resAll := make([][]Resolution, np)
	truth := make([][]uint8, np)
	hasDyn := false
	for i, p := range d.Preds {
		resAll[i] = ls.Resolutions(p.Ref)
		truth[i] = ls.truthOf(p)
		hasDyn = hasDyn || p.Ref.Dynamic
	}
	var nMatchPass, nNoMatchPass, nNoMatchReject int64
	if cap(e.resBuf) < np {
		e.resBuf = make([]Resolution, np)
	}
	res := e.resBuf[:np]
	kind := kindOf(d)
	var got, gerr, pan, skipped [batch]bool
	var m0, m1 runtime.MemStats
	n := len(lgs)
	for start := 0; start < n; start += batch {
		end := min(n, start+batch)
		runtime.ReadMemStats(&m0)
		for i := start; i < end; i++ {
			k := i - start
			pos := posOf(i)
			skipped[k] = (len(e.skip) > 0 && e.skip[pos]) || (e.spec.SkipHuge && hasDyn && ls.Logs[i].HasHuge)
			if skipped[k] {
				continue
			}
			e.progress(pos)
			ok, err, p := callMatch(rd, lgs[i])
			got[k], gerr[k], pan[k] = ok, err != nil, p
		}
		runtime.ReadMemStats(&m1)
		// Allocation: the whole batch is measured; if it allocated more than 32 KiB
		// the calls are re-measured one by one - first those whose log holds a
		// large head/length value (only an ordering hint: if what the batch
		// allocated beyond them is small, every other call is within the bound).
		suspicious := m1.TotalAlloc-m0.TotalAlloc > 32<<10
		var single [batch]uint64
		var haveSingle [batch]bool
		if suspicious {
			rest := m1.TotalAlloc - m0.TotalAlloc
			for pass := 0; pass < 2 && rest > 32<<10; pass++ {
				for i := start; i < end; i++ {
					k := i - start
					if skipped[k] || haveSingle[k] || (pass == 0 && !ls.Logs[i].HasLarge) {
						continue
					}
					e.progress(posOf(i))
					single[k] = measured(func() { _, _, _ = callMatch(rd, lgs[i]) })
					haveSingle[k] = true
					if pass == 0 {
						rest -= min(rest, single[k])
					}
				}
			}
		}
		for i := start; i < end; i++ {
			k := i - start
			l := ls.Logs[i]
			firstIll := -1
			for j := 0; j < np; j++ {
				res[j] = resAll[j][i]
				if firstIll < 0 && !res[j].Class.WellFormed() {
					firstIll = j
				}
			}
			sit := uint8(0)
			if l.SameAddr {
				sit = kind
				if firstIll >= 0 {
					sit = 10 + uint8(res[firstIll].Class)
				}
			}
			if skipped[k] {
				e.mclass[4][sit]++
				continue
			}
			e.out.Evaluations++
			want := RefSilent
			switch {
			case !l.SameAddr:
				want = RefFalse
			case firstIll < 0:
				want = RefTrue
				for j := 0; j < np; j++ {
					t := truth[j][i]
					if t == 0 {
						t = 1
						if EvalOp(d.Preds[j].VP, res[j].Value) {
							t = 2
						}
						truth[j][i] = t
					}
					if t == 1 {
						want = RefFalse
						break
					}
				}
			}
			answer := got[k] && !gerr[k]
			outcome := uint8(0)
			switch {
			case pan[k]:
				outcome = 3
			case gerr[k]:
				outcome = 2
			case got[k]:
				outcome = 1
			}
			e.mclass[outcome][sit]++
			addr := d.Contract
			if !l.SameAddr {
				addr = OtherAddress
			}
			passes := fOK && FilterPasses(fAddrs, fTopics, addr, l.Topics)
			if fOK && !pan[k] {
				switch {
				case answer && passes:
					nMatchPass++
				case !answer && passes:
					nNoMatchPass++
				case !answer:
					nNoMatchReject++
				}
			}
			bad := ""
			switch {
			case pan[k]:
				slug := "well-formed-data"
				if firstIll >= 0 {
					slug = res[firstIll].Class.Slug()
				}
				bad = "panic:" + slug
			case want != RefSilent && answer != (want == RefTrue):
				bad = "differs"
			case answer && fOK && !passes:
				bad = "hidden"
			case haveSingle[k]:
				if single[k] > AllocBound(len(l.Data)) {
					slug := "well-formed-data"
					if firstIll >= 0 {
						slug = res[firstIll].Class.Slug()
					}
					bad = "alloc:" + slug
				}
			}
			if bad != "" {
				e.seen[bad]++
				if e.seen[bad] > 3 {
					e.out.Counters["further violating cases (not re-diagnosed): "+bad]++
				} else {
					e.progress(posOf(i))
					fs, _ := CheckMatchCase(d, addr, l.Topics, l.Data)
					if len(fs) == len(ffs) {
						// the slow path did not confirm what the fast path saw
						e.out.Counters["fast-path suspicion not confirmed by single-case run: "+bad]++
					}
					e.findings(fs[len(ffs):])
				}
			}
			if want == RefTrue && kind == 4 && np > 0 && len(l.Data) >= 96 && len(l.Topics) > 0 && d.Preds[0].VP.Op == 5 && e.wantSample("match-true-dynamic") {
				e.sample("match-true-dynamic", map[string]any{"kind": "match", "definition": d.JSON(), "log": l.JSON(d.Contract), "match": answer, "documented": true})
			}
			if want == RefSilent && !pan[k] && hasDyn && e.wantSample("silent") {
				e.sample("silent", map[string]any{"kind": "match", "definition": d.JSON(), "log": l.JSON(d.Contract), "match": answer, "documented": "silent: " + res[firstIll].Class.String()})
			}
		}
	}
	e.out.Counters["matching logs that pass the derived filter"] += nMatchPass
	e.out.Counters["non-matching logs that pass the derived filter"] += nNoMatchPass
	e.out.Counters["non-matching logs rejected by the derived filter"] += nNoMatchReject
}
