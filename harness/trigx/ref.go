package trigx

// Independent reference implementation of docs/event.md ("Matching Logs
// Against Definitions", "LogValueRef", "Operators") and of eth_getLogs filter
// semantics. It shares no code with eventtrigger.go and works on the harness's
// own types.
//
// docs/event.md defines a value only when the referenced ranges exist:
//   topic i            -> topics[i]                       (needs i < len(topics))
//   static word w      -> data[32w : 32w+32]              (needs 32w+32 <= len(data))
//   dynamic word w     -> IOIB = uint64(data[32w:32w+32]) (needs the word inside and < 2^64)
//                         length = uint64(data[IOIB:IOIB+32]) (inside, < 2^64)
//                         data[IOIB+32 : IOIB+32+length]  (inside)
// Everything else is classified as "the document is silent".

import (
	"bytes"
	"math/big"
)

type RefClass uint8

const (
	TopicPresent RefClass = iota
	StaticInside
	DynInside
	// --- document silent below ---
	TopicAbsent
	StaticPartial
	StaticBeyond
	DynHeadPartial
	DynHeadBeyond
	DynHeadNotUint64
	DynOffsetPartial // length word straddles the data end
	DynOffsetBeyond  // length word entirely beyond the data
	DynLengthNotUint64
	DynLengthBeyond // slice exceeds the data
	numRefClasses
)

// WellFormed: the documented semantics determine the referenced value. Besides
// the references that lie inside the log this holds for a static data word that
// straddles or lies beyond the end of the data: GetValue's contract (its doc
// comment in eventtrigger.go) is that the missing bytes read as zeros.
func (c RefClass) WellFormed() bool { return c <= DynInside || c == StaticPartial || c == StaticBeyond }

var refClassNames = [...]string{
	"topic present", "static word inside", "dynamic slice inside",
	"topic absent", "static word straddles data end", "static word beyond data",
	"dynamic head straddles data end", "dynamic head beyond data", "dynamic head >= 2^64",
	"dynamic offset: length word straddles data end", "dynamic offset beyond data", "dynamic length word >= 2^64",
	"dynamic length beyond data",
}

func (c RefClass) String() string { return refClassNames[c] }

// Slug is the part of a violation signature naming where the reference points.
func (c RefClass) Slug() string {
	switch c {
	case TopicPresent, StaticInside, DynInside:
		return "well-formed-data"
	case TopicAbsent:
		return "absent-topic"
	case StaticPartial, StaticBeyond:
		return "static-word-beyond-data"
	case DynHeadPartial, DynHeadBeyond:
		return "dynamic-head-beyond-data"
	case DynHeadNotUint64, DynOffsetPartial, DynOffsetBeyond:
		return "dynamic-offset-beyond-data"
	default:
		return "dynamic-length-beyond-data"
	}
}

type Resolution struct {
	Class RefClass
	Value []byte // only if Class.WellFormed()
}

var refTwo64 = new(big.Int).Lsh(big.NewInt(1), 64)

// Resolve evaluates a LogValueRef as documented.
func Resolve(r Ref, topics [][]byte, data []byte) Resolution {
	n := uint64(len(data))
	if r.Offset < 4 {
		if r.Offset < uint64(len(topics)) {
			return Resolution{TopicPresent, topics[r.Offset]}
		}
		return Resolution{Class: TopicAbsent}
	}
	if r.Offset-4 > n {
		// the referenced word starts beyond the data whatever the arithmetic width
		// (offsets near multiples of 2^59 must not wrap around to a word inside)
		if r.Dynamic {
			return Resolution{Class: DynHeadBeyond}
		}
		return Resolution{StaticBeyond, make([]byte, 32)}
	}
	start := (r.Offset - 4) * 32 // Offset-4 <= len(data): no overflow
	if !r.Dynamic {
		switch {
		case start+32 <= n:
			return Resolution{StaticInside, data[start : start+32]}
		case start < n:
			v := make([]byte, 32)
			copy(v, data[start:])
			return Resolution{StaticPartial, v}
		}
		return Resolution{StaticBeyond, make([]byte, 32)}
	}
	switch {
	case start >= n:
		return Resolution{Class: DynHeadBeyond}
	case start+32 > n:
		return Resolution{Class: DynHeadPartial}
	}
	head := new(big.Int).SetBytes(data[start : start+32])
	if head.Cmp(refTwo64) >= 0 {
		return Resolution{Class: DynHeadNotUint64}
	}
	ioib := head.Uint64()
	switch {
	case ioib >= n:
		return Resolution{Class: DynOffsetBeyond}
	case n-ioib < 32:
		return Resolution{Class: DynOffsetPartial}
	}
	lw := new(big.Int).SetBytes(data[ioib : ioib+32])
	if lw.Cmp(refTwo64) >= 0 {
		return Resolution{Class: DynLengthNotUint64}
	}
	length := lw.Uint64()
	avail := n - ioib - 32
	if length > avail {
		return Resolution{Class: DynLengthBeyond}
	}
	return Resolution{DynInside, data[ioib+32 : ioib+32+length]}
}

// EvalOp is the documented operator semantics: operators 0..4 compare the
// value, read as an unsigned big-endian integer, with the integer argument;
// operator 5 is byte-wise equality (hence equal length).
func EvalOp(vp *VP, value []byte) bool {
	if vp.Op == 5 {
		return bytes.Equal(value, vp.Bytes[0])
	}
	c := new(big.Int).SetBytes(value).Cmp(vp.Ints[0])
	switch vp.Op {
	case 0:
		return c < 0
	case 1:
		return c <= 0
	case 2:
		return c == 0
	case 3:
		return c > 0
	case 4:
		return c >= 0
	}
	panic("EvalOp: operator outside the documented set")
}

type Verdict uint8

const (
	RefSilent Verdict = iota // the document does not determine the answer
	RefFalse
	RefTrue
)

// RefMatch: 1. the address must be equal; 2. logical AND of all predicates.
// Determined only if the address differs (false) or every predicate's
// reference is well-formed. firstIll is the index of the first predicate whose
// reference is not well-formed (-1 if none).
func RefMatch(d *Def, sameAddr bool, res []Resolution) (v Verdict, firstIll int) {
	firstIll = -1
	for i := range res {
		if !res[i].Class.WellFormed() {
			firstIll = i
			break
		}
	}
	if !sameAddr {
		return RefFalse, firstIll
	}
	if firstIll >= 0 {
		return RefSilent, firstIll
	}
	for i, p := range d.Preds {
		if !EvalOp(p.VP, res[i].Value) {
			return RefFalse, -1
		}
	}
	return RefTrue, -1
}

// FilterPasses is eth_getLogs semantics for the address / topics part of a
// filter: the address must be in the address list (empty list = any); the log
// needs at least as many topics as the filter has positions; position i
// passes if its list is empty/nil (wildcard) or contains the log's topic i.
func FilterPasses(addresses [][20]byte, topics [][][32]byte, logAddr [20]byte, logTopics [][]byte) bool {
	if len(addresses) > 0 {
		ok := false
		for _, a := range addresses {
			if a == logAddr {
				ok = true
			}
		}
		if !ok {
			return false
		}
	}
	if len(topics) > len(logTopics) {
		return false
	}
	for i, alts := range topics {
		if len(alts) == 0 {
			continue
		}
		ok := false
		for _, t := range alts {
			if bytes.Equal(t[:], logTopics[i]) {
				ok = true
			}
		}
		if !ok {
			return false
		}
	}
	return true
}
