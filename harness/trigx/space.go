// Package trigx is the harness of check C17 (event-trigger definitions):
// the enumerated input spaces (definitions, logs, decoder inputs), an
// independent reference implementation of docs/event.md and of eth_getLogs
// filter semantics, guarded calls into the real shutterservice functions, and
// the supervised child process in which every call of the real code runs.
//
// This file: pools and enumerated spaces. Everything is indexable (index ->
// case) so that a crashed child can be attributed to the exact input by
// (unit, ordinal) alone.
package trigx

import (
	"encoding/hex"
	"fmt"
	"math"
	"math/big"
	"sort"
)

// ---------- harness-side representation (shares nothing with the repository) ----------

type Ref struct {
	Dynamic bool
	Offset  uint64
}

func (r Ref) IsTopic() bool { return r.Offset < 4 }

// VP is a value predicate: operator code (0..5 documented) and arguments.
type VP struct {
	Op    uint64
	Ints  []*big.Int // nil element = nil pointer (only in the validation space)
	Bytes [][]byte
	Name  string
}

type Pred struct {
	Ref Ref
	VP  *VP
}

type Def struct {
	Contract [20]byte
	Preds    []Pred
}

// LogCase is one log of the enumerated space.
type LogCase struct {
	SameAddr bool
	Topics   [][]byte // each 32 bytes
	Data     []byte
	HasHuge  bool // data contains a head/length value >= 2^20 (harness knowledge, used to avoid re-crashing)
	HasLarge bool // data contains a head/length value >= 2^16 (only an ordering hint for allocation re-measurement)
}

// ---------- JSON forms (samples, replay values) ----------

type PredJSON struct {
	Dynamic  bool     `json:"dynamic"`
	Offset   uint64   `json:"offset"`
	Op       uint64   `json:"op"`
	IntArgs  []string `json:"int_args"`  // decimal, "nil" for a nil pointer
	ByteArgs []string `json:"byte_args"` // hex
}

type DefJSON struct {
	Contract string     `json:"contract"`
	Preds    []PredJSON `json:"predicates"`
}

type LogJSON struct {
	Address string   `json:"address"`
	Topics  []string `json:"topics"`
	Data    string   `json:"data"`
}

func (d *Def) JSON() *DefJSON {
	out := &DefJSON{Contract: hex.EncodeToString(d.Contract[:]), Preds: []PredJSON{}}
	for _, p := range d.Preds {
		pj := PredJSON{Dynamic: p.Ref.Dynamic, Offset: p.Ref.Offset, Op: p.VP.Op, IntArgs: []string{}, ByteArgs: []string{}}
		for _, i := range p.VP.Ints {
			if i == nil {
				pj.IntArgs = append(pj.IntArgs, "nil")
			} else {
				pj.IntArgs = append(pj.IntArgs, i.String())
			}
		}
		for _, b := range p.VP.Bytes {
			pj.ByteArgs = append(pj.ByteArgs, hex.EncodeToString(b))
		}
		out.Preds = append(out.Preds, pj)
	}
	return out
}

func (j *DefJSON) Def() (*Def, error) {
	d := &Def{}
	b, err := hex.DecodeString(j.Contract)
	if err != nil || len(b) != 20 {
		return nil, fmt.Errorf("bad contract %q", j.Contract)
	}
	copy(d.Contract[:], b)
	for _, pj := range j.Preds {
		vp := &VP{Op: pj.Op}
		for _, s := range pj.IntArgs {
			if s == "nil" {
				vp.Ints = append(vp.Ints, nil)
				continue
			}
			n, ok := new(big.Int).SetString(s, 10)
			if !ok {
				return nil, fmt.Errorf("bad int %q", s)
			}
			vp.Ints = append(vp.Ints, n)
		}
		for _, s := range pj.ByteArgs {
			bb, err := hex.DecodeString(s)
			if err != nil {
				return nil, err
			}
			vp.Bytes = append(vp.Bytes, bb)
		}
		d.Preds = append(d.Preds, Pred{Ref: Ref{Dynamic: pj.Dynamic, Offset: pj.Offset}, VP: vp})
	}
	return d, nil
}

func (l *LogCase) JSON(contract [20]byte) *LogJSON {
	a := contract
	if !l.SameAddr {
		a = OtherAddress
	}
	out := &LogJSON{Address: hex.EncodeToString(a[:]), Topics: []string{}, Data: hex.EncodeToString(l.Data)}
	for _, t := range l.Topics {
		out.Topics = append(out.Topics, hex.EncodeToString(t))
	}
	return out
}

// LogFromJSON returns the log and its address.
func LogFromJSON(j *LogJSON) (addr [20]byte, topics [][]byte, data []byte, err error) {
	b, err := hex.DecodeString(j.Address)
	if err != nil || len(b) != 20 {
		return addr, nil, nil, fmt.Errorf("bad address %q", j.Address)
	}
	copy(addr[:], b)
	for _, t := range j.Topics {
		tb, err := hex.DecodeString(t)
		if err != nil || len(tb) != 32 {
			return addr, nil, nil, fmt.Errorf("bad topic %q", t)
		}
		topics = append(topics, tb)
	}
	data, err = hex.DecodeString(j.Data)
	return addr, topics, data, err
}

// ---------- pools ----------

var (
	Contract     = addr(0xC0)
	OtherAddress = addr(0x0D)

	two256  = new(big.Int).Lsh(big.NewInt(1), 256)
	max256  = new(big.Int).Sub(two256, big.NewInt(1))
	two64   = new(big.Int).Lsh(big.NewInt(1), 64)
	IntPool = []*big.Int{big.NewInt(0), big.NewInt(1), max256, two256}

	// Pat is the content pattern of dynamic values; no zero bytes, Pat[0] != 0.
	Pat = func() []byte {
		p := make([]byte, 96)
		for i := range p {
			p[i] = byte(0xA1 + 7*i)
			if p[i] == 0 {
				p[i] = 0x5A
			}
		}
		return p
	}()
	W0   = make([]byte, 32)
	W1   = word(big.NewInt(1))
	WMax = word(max256)
	WA   = Pat[:32]
	// Filler is what unreferenced topics / data bytes hold.
	FillerTopic = rep(0xF1, 32)

	BytesPool = [][]byte{{}, Pat[:5], W0, W1, WA, Pat[:33], Pat[:64]}
)

func addr(b byte) (a [20]byte) {
	for i := range a {
		a[i] = b
	}
	return a
}

func rep(b byte, n int) []byte {
	out := make([]byte, n)
	for i := range out {
		out[i] = b
	}
	return out
}

// word returns the 32-byte big-endian word of v mod 2^256.
func word(v *big.Int) []byte {
	w := make([]byte, 32)
	m := new(big.Int).Mod(v, two256)
	m.FillBytes(w)
	return w
}

func wordU(v uint64) []byte { return word(new(big.Int).SetUint64(v)) }

var opNames = []string{"UintLt", "UintLte", "UintEq", "UintGt", "UintGte", "BytesEq"}

// ValidVPs: 5 integer operators x IntPool + BytesEq x BytesPool (27).
func ValidVPs() []*VP {
	var out []*VP
	for op := uint64(0); op < 5; op++ {
		for _, a := range IntPool {
			out = append(out, &VP{Op: op, Ints: []*big.Int{a}, Name: fmt.Sprintf("%s(%s)", opNames[op], shortInt(a))})
		}
	}
	for i, b := range BytesPool {
		tag := ""
		switch i {
		case 2:
			tag = " zero"
		case 3:
			tag = " one"
		}
		out = append(out, &VP{Op: 5, Bytes: [][]byte{b}, Name: fmt.Sprintf("BytesEq(len %d%s)", len(b), tag)})
	}
	return out
}

// OddVPs are value predicates that should not validate (used by the round-trip
// / validation space only).
func OddVPs() []*VP {
	one := big.NewInt(1)
	return []*VP{
		{Op: 0, Name: "UintLt()"},
		{Op: 2, Ints: []*big.Int{one, one}, Name: "UintEq(1,1)"},
		{Op: 5, Name: "BytesEq()"},
		{Op: 5, Ints: []*big.Int{one}, Bytes: [][]byte{WA}, Name: "BytesEq(int,bytes)"},
		{Op: 3, Ints: []*big.Int{one}, Bytes: [][]byte{Pat[:5]}, Name: "UintGt(int,bytes)"},
		{Op: 6, Ints: []*big.Int{one}, Name: "op6(1)"},
		{Op: 6, Name: "op6()"},
		{Op: math.MaxUint64, Bytes: [][]byte{WA}, Name: "opMax(bytes)"},
		{Op: 0, Ints: []*big.Int{big.NewInt(-1)}, Name: "UintLt(-1)"},
		{Op: 4, Ints: []*big.Int{nil}, Name: "UintGte(nil)"},
	}
}

func shortInt(a *big.Int) string {
	switch {
	case a.Cmp(max256) == 0:
		return "2^256-1"
	case a.Cmp(two256) == 0:
		return "2^256"
	}
	return a.String()
}

const FarOffset = math.MaxUint32 // largest offset Validate admits

// ValidRefs: topics 0..3, static 4/5/2^32-1, dynamic 4/5/2^32-1 (10).
func ValidRefs() []Ref {
	return []Ref{{false, 0}, {false, 1}, {false, 2}, {false, 3}, {false, 4}, {false, 5}, {false, FarOffset}, {true, 4}, {true, 5}, {true, FarOffset}}
}

// OddRefs: dynamic topics and offsets from 2^32 on (must not validate): 2^32, and
// offsets whose distance to a multiple of 2^59 is small (2^59+4, 2^60+4, 7*2^59+5,
// 2^63+4, 2^64-1): multiplied by the word size they wrap around in 64 bits.
func OddRefs() []Ref {
	return []Ref{{true, 0}, {true, 1}, {true, 2}, {true, 3}, {false, 1 << 32}, {true, 1 << 32},
		{false, 1<<59 + 4}, {true, 1<<59 + 4}, {false, 1<<60 + 4}, {true, 7<<59 + 5}, {false, 1<<63 + 4}, {false, math.MaxUint64}, {true, math.MaxUint64}}
}

func cross(refs []Ref, vps []*VP) []Pred {
	var out []Pred
	for _, r := range refs {
		for _, v := range vps {
			out = append(out, Pred{Ref: r, VP: v})
		}
	}
	return out
}

// ---------- definition spaces ----------

// DefSpace enumerates definitions with 0..K predicates: all tuples of length
// <= K2 over Pool and (if K3) all triples over Pool3.
type DefSpace struct {
	Pool  []Pred
	Pool3 []Pred
	K2    int // 0..K2 predicates over Pool (K2 <= 2)
	K3    bool
	// Contracts used for 0- and 1-predicate definitions (index 0 for all others).
	Contracts [][20]byte
}

func (s *DefSpace) Size() int {
	n := len(s.Contracts) // k = 0
	if s.K2 >= 1 {
		n += len(s.Contracts) * len(s.Pool)
	}
	if s.K2 >= 2 {
		n += len(s.Pool) * len(s.Pool)
	}
	if s.K3 {
		n += len(s.Pool3) * len(s.Pool3) * len(s.Pool3)
	}
	return n
}

func (s *DefSpace) At(i int) *Def {
	nc := len(s.Contracts)
	if i < nc {
		return &Def{Contract: s.Contracts[i]}
	}
	i -= nc
	if s.K2 >= 1 {
		if i < nc*len(s.Pool) {
			return &Def{Contract: s.Contracts[i%nc], Preds: []Pred{s.Pool[i/nc]}}
		}
		i -= nc * len(s.Pool)
	}
	if s.K2 >= 2 {
		n := len(s.Pool)
		if i < n*n {
			return &Def{Contract: s.Contracts[0], Preds: []Pred{s.Pool[i/n], s.Pool[i%n]}}
		}
		i -= n * n
	}
	n := len(s.Pool3)
	return &Def{Contract: s.Contracts[0], Preds: []Pred{s.Pool3[i/(n*n)], s.Pool3[(i/n)%n], s.Pool3[i%n]}}
}

// reducedVPs is the value-predicate pool of the third predicate dimension.
func reducedVPs(thorough bool) []*VP {
	all := ValidVPs()
	pick := func(names ...string) []*VP {
		var out []*VP
		for _, n := range names {
			for _, v := range all {
				if v.Name == n {
					out = append(out, v)
				}
			}
		}
		if len(out) != len(names) {
			panic("reducedVPs: name not found")
		}
		return out
	}
	if !thorough {
		return pick("UintEq(1)", "UintLt(2^256-1)", "UintGte(2^256)", "UintEq(0)", "BytesEq(len 32)", "BytesEq(len 33)", "BytesEq(len 0)")
	}
	return pick("UintEq(0)", "UintEq(1)", "UintEq(2^256-1)", "UintEq(2^256)", "UintLt(1)", "UintLt(2^256-1)", "UintGt(0)", "UintGte(2^256)", "UintLte(0)",
		"BytesEq(len 0)", "BytesEq(len 32)", "BytesEq(len 33)", "BytesEq(len 32 zero)")
}

// MatchDefSpace: candidates for the Match / filter phase. The real Validate
// decides which of them are valid.
func MatchDefSpace(thorough bool) *DefSpace {
	// also references whose offset must not validate (offsets that wrap around when
	// multiplied by the word size): should Validate let one through, Match is held to
	// the documented semantics for it like for any other valid definition
	refs := append(ValidRefs(), Ref{false, 1<<59 + 4}, Ref{true, 1<<59 + 4}, Ref{false, 7<<59 + 5})
	s := &DefSpace{Pool: cross(refs, ValidVPs()), K2: 2, Contracts: [][20]byte{Contract}}
	s.K3 = true
	s.Pool3 = cross(ValidRefs(), reducedVPs(thorough))
	return s
}

// RoundTripDefSpace: valid and invalid definitions.
func RoundTripDefSpace(thorough bool) *DefSpace {
	refs := append(ValidRefs(), OddRefs()...)
	vps := append(ValidVPs(), OddVPs()...)
	s := &DefSpace{Pool: cross(refs, vps), K2: 2, Contracts: [][20]byte{Contract, {}, addr(0xff)}}
	if thorough {
		s.K3 = true
		s.Pool3 = cross(ValidRefs(), ValidVPs())
	}
	return s
}

// ---------- log spaces ----------

const (
	useStatic  = 1
	useDynamic = 2
)

// sig is what a definition references; logs are built relative to it.
type sig struct {
	topics   [4]bool
	w0, w1   uint8 // useStatic|useDynamic for data words 0 and 1 (offsets 4 and 5)
	far      uint8
	full     bool // all references on one data slot: full-resolution data space
	thorough bool
}

func sigOf(d *Def, thorough bool) sig {
	s := sig{thorough: thorough}
	slots := 0
	for _, p := range d.Preds {
		u := uint8(useStatic)
		if p.Ref.Dynamic {
			u = useDynamic
		}
		switch {
		case p.Ref.Offset < 4:
			s.topics[p.Ref.Offset] = true
		case p.Ref.Offset == 4:
			s.w0 |= u
		case p.Ref.Offset == 5:
			s.w1 |= u
		default:
			s.far |= u
		}
	}
	for _, t := range s.topics {
		if t {
			slots++
		}
	}
	nd := 0
	for _, u := range []uint8{s.w0, s.w1, s.far} {
		if u != 0 {
			slots++
			nd++
		}
	}
	s.full = nd == 1 && slots == 1
	return s
}

// LogSet is the list of logs for one reference signature plus caches.
type LogSet struct {
	Logs []*LogCase
	res  map[Ref][]Resolution
	tr   map[Pred][]uint8 // documented truth of a predicate per log (engine.go)
}

// Resolutions returns (cached) the reference resolution of ref on every log.
func (ls *LogSet) Resolutions(r Ref) []Resolution {
	if v, ok := ls.res[r]; ok {
		return v
	}
	out := make([]Resolution, len(ls.Logs))
	for i, l := range ls.Logs {
		out[i] = Resolve(r, l.Topics, l.Data)
	}
	ls.res[r] = out
	return out
}

type LogSpace struct {
	Thorough bool
	cache    map[sig]*LogSet
}

func NewLogSpace(thorough bool) *LogSpace {
	return &LogSpace{Thorough: thorough, cache: map[sig]*LogSet{}}
}

func (sp *LogSpace) For(d *Def) *LogSet {
	s := sigOf(d, sp.Thorough)
	if ls, ok := sp.cache[s]; ok {
		return ls
	}
	ls := buildLogSet(s)
	sp.cache[s] = ls
	return ls
}

func topicVariants(s sig) [][][]byte {
	vals := [][]byte{W0, W1, WA, WMax}
	var out [][][]byte
	for n := 0; n <= 4; n++ {
		cur := [][][]byte{{}}
		for i := 0; i < n; i++ {
			var next [][][]byte
			opts := [][]byte{FillerTopic}
			if s.topics[i] {
				opts = vals
			}
			for _, c := range cur {
				for _, o := range opts {
					next = append(next, append(append([][]byte{}, c...), o))
				}
			}
			cur = next
		}
		out = append(out, cur...)
	}
	return out
}

type dataVariant struct {
	data  []byte
	huge  bool
	large bool
}

func buildLogSet(s sig) *LogSet {
	tv := topicVariants(s)
	var dv []dataVariant
	switch {
	case s.w0 == 0 && s.w1 == 0 && s.far == 0:
		dv = []dataVariant{{data: []byte{}}, {data: rep(0xEE, 64)}}
	case s.w0 == 0 && s.w1 == 0:
		lens := []int{0, 32, 96}
		if s.full {
			lens = []int{0, 1, 32, 64, 65, 96}
		}
		for _, n := range lens {
			dv = append(dv, dataVariant{data: rep(0xEE, n)})
		}
	case s.full:
		slot, use := 0, s.w0
		if s.w1 != 0 {
			slot, use = 1, s.w1
		}
		dv = fullData(slot, use, s.thorough)
	default:
		dv = reducedData(s.w0, s.w1, s.thorough)
	}
	ls := &LogSet{res: map[Ref][]Resolution{}}
	for ti, t := range tv {
		for di, d := range dv {
			ls.Logs = append(ls.Logs, &LogCase{SameAddr: true, Topics: t, Data: d.data, HasHuge: d.huge, HasLarge: d.large || d.huge})
			if ti == 0 || di == 0 {
				ls.Logs = append(ls.Logs, &LogCase{SameAddr: false, Topics: t, Data: d.data, HasHuge: d.huge, HasLarge: d.large || d.huge})
			}
		}
	}
	return ls
}

func staticWords() [][]byte { return [][]byte{W0, W1, WMax, WA} }

// bigvals returns deduplicated non-negative candidates as 32-byte words; the
// last entries (2^64, 2^256-1) do not fit in uint64.
func candWords(vals []*big.Int) [][]byte {
	seen := map[string]bool{}
	var out [][]byte
	for _, v := range vals {
		if v.Sign() < 0 || v.Cmp(two256) >= 0 {
			continue
		}
		w := word(v)
		if !seen[string(w)] {
			seen[string(w)] = true
			out = append(out, w)
		}
	}
	return out
}

func bi(v int64) *big.Int { return big.NewInt(v) }

func pow2(n uint) *big.Int { return new(big.Int).Lsh(big.NewInt(1), n) }

// headWords: values of a dynamic head word for data length n:
// {0, 32, 64, n-32, n-1, n, n+1, 2^20, 2^32, 2^63, 2^64-1, 2^64, 2^256-1} (+ unaligned n-33 in thorough).
func headWords(n int, thorough bool) [][]byte {
	v := []*big.Int{bi(0), bi(32), bi(64), bi(int64(n - 32)), bi(int64(n - 1)), bi(int64(n)), bi(int64(n + 1)),
		pow2(20), pow2(32), pow2(63), new(big.Int).Sub(two64, bi(1)), two64, max256}
	if thorough {
		v = append(v, bi(int64(n-33)), bi(int64(n-64)), bi(96), bi(33), new(big.Int).Add(two64, bi(32)))
	}
	return candWords(v)
}

// lengthWords: values of the length word at h for data length n (rem = bytes after the length word).
func lengthWords(n, h int, thorough bool) [][]byte {
	rem := n - h - 32
	v := []*big.Int{bi(0), bi(5), bi(32), bi(33), bi(64), bi(int64(rem - 1)), bi(int64(rem)), bi(int64(rem + 1)),
		bi(int64(n - 32)), bi(int64(n - 1)), bi(int64(n)), bi(int64(n + 1)),
		pow2(17), pow2(20), pow2(32), pow2(63), new(big.Int).Sub(two64, bi(1)), two64, max256}
	if thorough {
		v = append(v, bi(1), bi(31), bi(int64(rem+32)), new(big.Int).Sub(two64, bi(int64(h+32))), new(big.Int).Sub(two64, bi(int64(h+31))), new(big.Int).Add(two64, bi(5)))
	}
	return candWords(v)
}

const (
	cPat = iota
	cZero
	cFF
	cBE1   // last byte of the L-byte slice is 1 (value 1)
	cLead1 // first byte is 1 (value 256^(L-1); 2^256 for L = 33)
)

func fillContent(d []byte, start int, kind int, l *big.Int) {
	if start >= len(d) {
		return
	}
	region := d[start:]
	for i := range region {
		switch kind {
		case cPat:
			region[i] = Pat[i%len(Pat)]
		case cFF:
			region[i] = 0xff
		default:
			region[i] = 0
		}
	}
	switch kind {
	case cBE1:
		if l.IsInt64() && l.Int64() >= 1 && l.Int64() <= int64(len(region)) {
			region[l.Int64()-1] = 1
		}
	case cLead1:
		region[0] = 1
	}
}

func isHugeWord(w []byte) bool  { return new(big.Int).SetBytes(w).Cmp(pow2(20)) >= 0 }
func isLargeWord(w []byte) bool { return new(big.Int).SetBytes(w).Cmp(pow2(16)) >= 0 }

func putWord(d []byte, at int, w []byte) {
	if at < len(d) {
		copy(d[at:], w) // truncated at the data end
	}
}

func fullLens(thorough bool) []int {
	if thorough {
		return []int{0, 1, 31, 32, 33, 63, 64, 65, 95, 96, 97, 128, 129, 160, 192, 224}
	}
	return []int{0, 31, 32, 33, 64, 65, 96, 128, 160}
}

// fullData: the full-resolution data space for one referenced word (slot 0 or 1).
func fullData(slot int, use uint8, thorough bool) []dataVariant {
	var out []dataVariant
	at := slot * 32
	for _, n := range fullLens(thorough) {
		var words [][]byte
		seen := map[string]bool{}
		addW := func(ws [][]byte) {
			for _, w := range ws {
				if !seen[string(w)] {
					seen[string(w)] = true
					words = append(words, w)
				}
			}
		}
		if use&useStatic != 0 {
			addW(staticWords())
		}
		if use&useDynamic != 0 {
			addW(headWords(n, thorough))
		}
		if at >= n {
			// the referenced word is entirely beyond the data: its value cannot be stored
			out = append(out, dataVariant{data: rep(0xEE, n)})
			continue
		}
		for _, hw := range words {
			base := rep(0xEE, n)
			putWord(base, at, hw)
			huge := isHugeWord(hw)
			hb := new(big.Int).SetBytes(hw)
			writable := use&useDynamic != 0 && at+32 <= n && hb.IsInt64() && hb.Int64()+32 <= int64(n)
			if writable {
				h := int(hb.Int64())
				if h < at+32 && h+32 > at { // length word overlaps the head word itself
					writable = false
				}
			}
			if !writable {
				out = append(out, dataVariant{data: base, huge: huge})
				continue
			}
			h := int(hb.Int64())
			rem := n - h - 32
			for _, lw := range lengthWords(n, h, thorough) {
				lb := new(big.Int).SetBytes(lw)
				kinds := []int{cPat}
				if lb.IsInt64() && lb.Int64() >= 1 && lb.Int64() <= int64(rem) {
					kinds = []int{cPat, cZero, cFF, cBE1, cLead1}
				}
				for _, k := range kinds {
					d := append([]byte{}, base...)
					putWord(d, h, lw)
					fillContent(d, h+32, k, lb)
					out = append(out, dataVariant{data: d, huge: huge || isHugeWord(lw), large: isLargeWord(lw)})
				}
			}
		}
	}
	return dedupData(out)
}

// slotScenario is one configuration of a referenced word in the reduced
// (multi-slot) layout of 256 bytes:
//
//	word0 | word1 | L0 @64 | content0 [96,160) | L1 @160 | content1 [192,256)
type slotScenario struct {
	head    []byte
	length  []byte // nil: none written
	content int
}

func reducedScenarios(slot int, use uint8, thorough bool) []slotScenario {
	var out []slotScenario
	if use&useStatic != 0 {
		for _, w := range staticWords() {
			out = append(out, slotScenario{head: w})
		}
	}
	if use&useDynamic != 0 {
		t := 64 + 96*slot
		rem := 64
		th := wordU(uint64(t))
		for _, lc := range []struct {
			l int
			c int
		}{{0, cPat}, {5, cPat}, {32, cPat}, {33, cPat}, {64, cPat}, {32, cZero}, {32, cBE1}, {32, cFF}, {33, cLead1}} {
			out = append(out, slotScenario{head: th, length: wordU(uint64(lc.l)), content: lc.c})
		}
		heads := []*big.Int{bi(256), new(big.Int).Sub(two64, bi(1)), two64}
		lens := []*big.Int{bi(int64(rem + 1)), pow2(20), pow2(32), new(big.Int).Sub(two64, bi(1))}
		if thorough {
			heads = append(heads, bi(255), bi(225), pow2(63), pow2(32))
			lens = append(lens, pow2(63), two64, max256, bi(int64(256)))
		}
		for _, h := range candWords(heads) {
			out = append(out, slotScenario{head: h})
		}
		for _, l := range candWords(lens) {
			out = append(out, slotScenario{head: th, length: l, content: cPat})
		}
	}
	return out
}

func reducedData(w0, w1 uint8, thorough bool) []dataVariant {
	s0 := []slotScenario{{}}
	s1 := []slotScenario{{}}
	if w0 != 0 {
		s0 = reducedScenarios(0, w0, thorough)
	}
	if w1 != 0 {
		s1 = reducedScenarios(1, w1, thorough)
	}
	build := func(a, b slotScenario, n int) dataVariant {
		d := rep(0xEE, 256)
		huge, large := false, false
		for slot, sc := range []slotScenario{a, b} {
			if sc.head == nil {
				continue
			}
			putWord(d, slot*32, sc.head)
			huge = huge || isHugeWord(sc.head)
			if sc.length != nil {
				t := 64 + 96*slot
				putWord(d, t, sc.length)
				huge = huge || isHugeWord(sc.length)
				large = large || isLargeWord(sc.length)
				tail := d[:t+32+64]
				fillContent(tail, t+32, sc.content, new(big.Int).SetBytes(sc.length))
			}
		}
		return dataVariant{data: d[:n], huge: huge, large: large}
	}
	var out []dataVariant
	for _, a := range s0 {
		for _, b := range s1 {
			out = append(out, build(a, b, 256))
		}
	}
	// truncations of the first scenarios of every slot
	trunc := []int{0, 33, 70, 200}
	if thorough {
		trunc = []int{0, 1, 32, 33, 64, 70, 96, 128, 161, 200, 255}
	}
	k0, k1 := min(len(s0), 3), min(len(s1), 3)
	if thorough {
		k0, k1 = min(len(s0), 6), min(len(s1), 6)
	}
	for _, n := range trunc {
		for _, a := range s0[:k0] {
			for _, b := range s1[:k1] {
				out = append(out, build(a, b, n))
			}
		}
	}
	return dedupData(out)
}

func dedupData(in []dataVariant) []dataVariant {
	seen := map[string]bool{}
	var out []dataVariant
	for _, v := range in {
		if !seen[string(v.data)] {
			seen[string(v.data)] = true
			out = append(out, v)
		}
	}
	return out
}

// ---------- decoder input space ----------

// DecoderInputs is indexable: unit u is either one base encoding with all its
// mutations, or a block of short strings.
type DecoderSpace struct {
	Bases    [][]byte // valid encodings (produced by the real MarshalBytes by the caller)
	Subs     int      // substitutions per byte
	Thorough bool
}

const shortBlock = 4096
const shortTotal = 1 + 256 + 65536

func (s *DecoderSpace) Units() int { return len(s.Bases) + (shortTotal+shortBlock-1)/shortBlock }

func (s *DecoderSpace) UnitSize(u int) int {
	if u < len(s.Bases) {
		n := len(s.Bases[u])
		return n + 1 + s.Subs*n
	}
	b := u - len(s.Bases)
	return min(shortBlock, shortTotal-b*shortBlock)
}

// At returns input ord of unit u and a short description.
func (s *DecoderSpace) At(u, ord int) ([]byte, string) {
	if u < len(s.Bases) {
		base := s.Bases[u]
		n := len(base)
		if ord <= n {
			return append([]byte{}, base[:ord]...), fmt.Sprintf("prefix %d/%d of base %d", ord, n, u)
		}
		ord -= n + 1
		pos, k := ord/s.Subs, ord%s.Subs
		out := append([]byte{}, base...)
		b := base[pos]
		switch k {
		case 0:
			out[pos] = 0x00
		case 1:
			out[pos] = 0xff
		case 2:
			out[pos] = b + 1
		case 3:
			out[pos] = b - 1
		case 4:
			out[pos] = b ^ 0x80
		case 5:
			out[pos] = b ^ 0x01
		}
		return out, fmt.Sprintf("byte %d of base %d: %#02x -> %#02x", pos, u, b, out[pos])
	}
	i := (u-len(s.Bases))*shortBlock + ord
	switch {
	case i == 0:
		return []byte{}, "empty string"
	case i < 257:
		return []byte{byte(i - 1)}, "1-byte string"
	default:
		i -= 257
		return []byte{byte(i >> 8), byte(i)}, "2-byte string"
	}
}

// BaseDefs are the definitions whose encodings seed the decoder space.
func BaseDefs(thorough bool) []*Def {
	var out []*Def
	out = append(out, &Def{Contract: Contract}, &Def{})
	valid := cross(ValidRefs(), ValidVPs())
	byName := func(r Ref, name string) Pred {
		for _, p := range valid {
			if p.Ref == r && p.VP.Name == name {
				return p
			}
		}
		panic("BaseDefs: " + name)
	}
	if thorough {
		for _, p := range valid {
			out = append(out, &Def{Contract: Contract, Preds: []Pred{p}})
		}
	} else {
		names := []string{"UintLt(0)", "UintEq(1)", "UintGte(2^256-1)", "UintGt(2^256)", "BytesEq(len 0)", "BytesEq(len 5)", "BytesEq(len 32)", "BytesEq(len 33)", "BytesEq(len 64)"}
		for _, r := range []Ref{{false, 0}, {false, 3}, {false, 4}, {true, 5}, {true, FarOffset}} {
			for _, n := range names {
				out = append(out, &Def{Contract: Contract, Preds: []Pred{byName(r, n)}})
			}
		}
	}
	t := func(i uint64) Pred { return byName(Ref{false, i}, "BytesEq(len 32)") }
	out = append(out,
		&Def{Contract: Contract, Preds: []Pred{t(0), t(1)}},
		&Def{Contract: Contract, Preds: []Pred{t(0), byName(Ref{true, 4}, "BytesEq(len 33)"), byName(Ref{false, 5}, "UintGte(2^256-1)")}},
		&Def{Contract: addr(0xff), Preds: []Pred{t(0), t(1), t(2), t(3)}},
		&Def{Contract: Contract, Preds: []Pred{byName(Ref{false, 2}, "UintEq(0)"), byName(Ref{false, 2}, "UintLt(1)"), byName(Ref{true, 5}, "UintEq(2^256)"), byName(Ref{false, FarOffset}, "UintEq(0)")}},
	)
	return out
}

// SortedKeys is a tiny helper for deterministic map output.
func SortedKeys[V any](m map[string]V) []string {
	ks := make([]string, 0, len(m))
	for k := range m {
		ks = append(ks, k)
	}
	sort.Strings(ks)
	return ks
}
