package fakechain

import (
	"fmt"
	"math/big"

	"github.com/ethereum/go-ethereum/accounts/abi"
	"github.com/ethereum/go-ethereum/common"
	triggerRegistryV1Bindings "github.com/shutter-network/contracts/v2/bindings/shuttereventtriggerregistryv1"
	registryBindings "github.com/shutter-network/contracts/v2/bindings/shutterregistry"
	sequencerBindings "github.com/shutter-network/gnosh-contracts/gnoshcontracts/sequencer"
)

// Logs are built from the ABI of the real abigen bindings (event ID as topic 0,
// indexed arguments as further topics, the non-indexed arguments ABI-packed as
// data), so the bindings' Filter... iterators decode them through their real path.

func mustABI(get func() (*abi.ABI, error)) *abi.ABI {
	a, err := get()
	if err != nil || a == nil {
		panic(fmt.Sprintf("fakechain: binding ABI: %v", err))
	}
	return a
}

var (
	registryABI        = mustABI(registryBindings.ShutterregistryMetaData.GetAbi)
	triggerRegistryABI = mustABI(triggerRegistryV1Bindings.Shuttereventtriggerregistryv1MetaData.GetAbi)
	sequencerABI       = mustABI(sequencerBindings.SequencerMetaData.GetAbi)
)

func packEvent(a *abi.ABI, name string, indexed []common.Hash, nonIndexed ...interface{}) ([]common.Hash, []byte) {
	ev, ok := a.Events[name]
	if !ok {
		panic("fakechain: binding has no event " + name)
	}
	nIdx := 0
	for _, in := range ev.Inputs {
		if in.Indexed {
			nIdx++
		}
	}
	if nIdx != len(indexed) {
		panic(fmt.Sprintf("fakechain: event %s has %d indexed arguments, %d given", name, nIdx, len(indexed)))
	}
	data, err := ev.Inputs.NonIndexed().Pack(nonIndexed...)
	if err != nil {
		panic(fmt.Sprintf("fakechain: packing %s: %v", name, err))
	}
	return append([]common.Hash{ev.ID}, indexed...), data
}

func uint64Topic(v uint64) common.Hash { return common.BigToHash(new(big.Int).SetUint64(v)) }

// IdentityRegistered is ShutterRegistry's
// event IdentityRegistered(uint64 eon, bytes32 identityPrefix, address sender, uint64 timestamp).
func IdentityRegistered(contract common.Address, eon uint64, prefix [32]byte, sender common.Address, timestamp uint64) LogSpec {
	topics, data := packEvent(registryABI, "IdentityRegistered", nil, eon, prefix, sender, timestamp)
	return LogSpec{Address: contract, Topics: topics, Data: data}
}

// EventTriggerRegistered is ShutterEventTriggerRegistryV1's
// event EventTriggerRegistered(uint64 indexed eon, bytes32 identityPrefix, address sender, bytes triggerDefinition, uint64 expirationBlockNumber).
func EventTriggerRegistered(contract common.Address, eon uint64, prefix [32]byte, sender common.Address, definition []byte, expirationBlockNumber uint64) LogSpec {
	topics, data := packEvent(triggerRegistryABI, "EventTriggerRegistered", []common.Hash{uint64Topic(eon)}, prefix, sender, definition, expirationBlockNumber)
	return LogSpec{Address: contract, Topics: topics, Data: data}
}

// TransactionSubmitted is the Gnosis Sequencer's
// event TransactionSubmitted(uint64 eon, uint64 txIndex, bytes32 identityPrefix, address sender, bytes encryptedTransaction, uint256 gasLimit).
func TransactionSubmitted(contract common.Address, eon, txIndex uint64, prefix [32]byte, sender common.Address, encryptedTx []byte, gasLimit *big.Int) LogSpec {
	topics, data := packEvent(sequencerABI, "TransactionSubmitted", nil, eon, txIndex, prefix, sender, encryptedTx, gasLimit)
	return LogSpec{Address: contract, Topics: topics, Data: data}
}
