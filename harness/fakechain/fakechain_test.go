package fakechain

import (
	"context"
	"math/big"
	"testing"

	"github.com/ethereum/go-ethereum"
	"github.com/ethereum/go-ethereum/accounts/abi/bind"
	"github.com/ethereum/go-ethereum/common"
	triggerRegistryV1Bindings "github.com/shutter-network/contracts/v2/bindings/shuttereventtriggerregistryv1"
	registryBindings "github.com/shutter-network/contracts/v2/bindings/shutterregistry"
	sequencerBindings "github.com/shutter-network/gnosh-contracts/gnoshcontracts/sequencer"
)

var (
	regAddr = common.HexToAddress("0x1000000000000000000000000000000000000001")
	etrAddr = common.HexToAddress("0x1000000000000000000000000000000000000002")
	seqAddr = common.HexToAddress("0x1000000000000000000000000000000000000003")
	sender  = common.HexToAddress("0x2000000000000000000000000000000000000009")
)

func TestTreeHeadersAndLogs(t *testing.T) {
	ctx := context.Background()
	c := New(1000)
	defer c.Close()
	p := [32]byte{1}
	b1 := c.AddBlock(0, "t", IdentityRegistered(regAddr, 3, p, sender, 77))
	b2 := c.AddBlock(b1, "t", EventTriggerRegistered(etrAddr, 4, p, sender, []byte{2, 0xc0}, 99),
		TransactionSubmitted(seqAddr, 5, 6, p, sender, []byte("enc"), big.NewInt(21000)))
	a2 := c.AddBlock(b1, "a")
	a3 := c.AddBlock(a2, "a", IdentityRegistered(regAddr, 8, p, sender, 78))
	c.SetHead(b2)
	cl := c.Client()

	h, err := cl.HeaderByNumber(ctx, nil)
	if err != nil || h.Hash() != c.Block(b2).Hash || h.ParentHash != c.Block(b1).Hash {
		t.Fatalf("latest header: %v %v", h, err)
	}
	h1, err := cl.HeaderByNumber(ctx, big.NewInt(1))
	if err != nil || h1.Hash() != c.Block(b1).Hash || h1.Time != 1005 {
		t.Fatalf("header 1: %v %v", h1, err)
	}
	if _, err := cl.HeaderByNumber(ctx, big.NewInt(3)); err != ethereum.NotFound {
		t.Fatalf("header above head: %v", err)
	}
	blk, err := cl.BlockByNumber(ctx, big.NewInt(2))
	if err != nil || blk.Hash() != c.Block(b2).Hash {
		t.Fatalf("block 2: %v", err)
	}
	hh, err := cl.HeaderByHash(ctx, c.Block(a3).Hash)
	if err != nil || hh.Number.Uint64() != 3 {
		t.Fatalf("by hash: %v", err)
	}
	n, err := cl.BlockNumber(ctx)
	if err != nil || n != 2 {
		t.Fatalf("blockNumber %d %v", n, err)
	}
	id, err := cl.ChainID(ctx)
	if err != nil || id.Uint64() != 100 {
		t.Fatalf("chain id %v %v", id, err)
	}

	reg, _ := registryBindings.NewShutterregistry(regAddr, cl)
	end := uint64(3)
	it, err := reg.FilterIdentityRegistered(&bind.FilterOpts{Start: 0, End: &end, Context: ctx})
	if err != nil {
		t.Fatal(err)
	}
	var got []uint64
	for it.Next() {
		got = append(got, it.Event.Eon)
		if it.Event.Raw.BlockHash != c.Block(b1).Hash || it.Event.Raw.BlockNumber != 1 || it.Event.Timestamp != 77 || it.Event.Sender != sender {
			t.Fatalf("decoded %+v", it.Event)
		}
	}
	if len(got) != 1 || got[0] != 3 {
		t.Fatalf("registry events on trunk: %v", got)
	}
	c.SetHead(a3)
	it, _ = reg.FilterIdentityRegistered(&bind.FilterOpts{Start: 2, End: &end, Context: ctx})
	got = nil
	for it.Next() {
		got = append(got, it.Event.Eon)
	}
	if len(got) != 1 || got[0] != 8 {
		t.Fatalf("registry events on branch a: %v", got)
	}
	c.SetHead(b2)

	etr, _ := triggerRegistryV1Bindings.NewShuttereventtriggerregistryv1(etrAddr, cl)
	it2, err := etr.FilterEventTriggerRegistered(&bind.FilterOpts{Start: 0, End: &end, Context: ctx}, []uint64{})
	if err != nil {
		t.Fatal(err)
	}
	k := 0
	for it2.Next() {
		k++
		e := it2.Event
		if e.Eon != 4 || e.ExpirationBlockNumber != 99 || string(e.TriggerDefinition) != "\x02\xc0" || e.Raw.Index != 0 || e.Raw.TxIndex != 0 {
			t.Fatalf("decoded %+v", e)
		}
	}
	if k != 1 {
		t.Fatalf("%d trigger events", k)
	}
	it2, _ = etr.FilterEventTriggerRegistered(&bind.FilterOpts{Start: 0, End: &end, Context: ctx}, []uint64{5})
	if it2.Next() {
		t.Fatal("eon topic filter did not filter")
	}
	seq, _ := sequencerBindings.NewSequencer(seqAddr, cl)
	it3, err := seq.FilterTransactionSubmitted(&bind.FilterOpts{Start: 2, End: &end, Context: ctx})
	if err != nil {
		t.Fatal(err)
	}
	k = 0
	for it3.Next() {
		k++
		e := it3.Event
		if e.Eon != 5 || e.TxIndex != 6 || e.GasLimit.Int64() != 21000 || e.Raw.Index != 1 || e.Raw.TxIndex != 1 || e.Raw.BlockHash != c.Block(b2).Hash {
			t.Fatalf("decoded %+v", e)
		}
	}
	if k != 1 {
		t.Fatalf("%d sequencer events", k)
	}

	// blockHash query, OR-lists, wildcard position
	bh := c.Block(a3).Hash
	logs, err := cl.FilterLogs(ctx, ethereum.FilterQuery{BlockHash: &bh})
	if err != nil || len(logs) != 1 {
		t.Fatalf("by block hash: %v %v", logs, err)
	}
	logs, err = cl.FilterLogs(ctx, ethereum.FilterQuery{FromBlock: big.NewInt(0), ToBlock: big.NewInt(9),
		Addresses: []common.Address{etrAddr, seqAddr}, Topics: [][]common.Hash{{logs[0].Topics[0], sequencerABI.Events["TransactionSubmitted"].ID}}})
	if err != nil || len(logs) != 1 || logs[0].Address != seqAddr {
		t.Fatalf("or-list: %v %v", logs, err)
	}
	logs, err = cl.FilterLogs(ctx, ethereum.FilterQuery{FromBlock: big.NewInt(0), ToBlock: big.NewInt(2), Topics: [][]common.Hash{nil, {uint64Topic(4)}}})
	if err != nil || len(logs) != 1 || logs[0].Address != etrAddr {
		t.Fatalf("wildcard: %v %v", logs, err)
	}
	if _, err = cl.FilterLogs(ctx, ethereum.FilterQuery{FromBlock: big.NewInt(2), ToBlock: big.NewInt(1)}); err == nil {
		t.Fatal("inverted range accepted")
	}
}

func TestSeams(t *testing.T) {
	ctx := context.Background()
	c := New(1000)
	defer c.Close()
	b1 := c.AddBlock(0, "t")
	c.SetHead(b1)
	cl := c.Client()
	c.ResetCalls()
	c.KeepCallLog(true)
	c.FailAt(1)
	if _, err := cl.HeaderByNumber(ctx, nil); err != nil {
		t.Fatal(err)
	}
	_, err := cl.BlockNumber(ctx)
	if !IsInjected(err) {
		t.Fatalf("call 1 should fail: %v", err)
	}
	if _, err := cl.BlockNumber(ctx); err != nil {
		t.Fatal(err)
	}
	if c.Calls() != 3 || len(c.CallLog()) != 3 || !c.CallLog()[1].Failed {
		t.Fatalf("calls %d %v", c.Calls(), c.CallLog())
	}
	_, err = cl.SuggestGasPrice(ctx)
	if !IsMethodNotFound(err) || IsInjected(err) {
		t.Fatalf("unimplemented method: %v", err)
	}
	d := c.Clone()
	defer d.Close()
	d.AddBlock(b1, "x")
	if c.Len() != 2 || d.Len() != 3 || d.Head().ID != b1 || d.Calls() != 3 {
		t.Fatal("clone is not independent")
	}
}
