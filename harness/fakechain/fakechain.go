// Package fakechain is an Ethereum execution node for the syncers under
// verification: an in-process JSON-RPC server (rpc.NewServer, reached by the
// real ethclient.Client through an in-memory HTTP round trip; no sockets, no
// goroutines) whose "eth" namespace serves a generated block TREE.
//
//   - A block is (number, parent, timestamp, extra/branch tag, logs). Its hash is
//     the real types.Header.Hash() of exactly the header that is sent to the
//     client (the reply is the header's own MarshalJSON, which is what geth's
//     RPCMarshalHeader produces), so the hash the client computes from the decoded
//     header equals the hash the tree is indexed by, and the parent-hash checks
//     inside the syncers are the real ones.
//   - A "current canonical head" pointer selects the branch every by-number
//     query is answered on. It only moves through SetHead, i.e. between Sync
//     calls of the code under test (assumption A-HEAD).
//   - eth_getLogs has the real filter semantics (block range or block hash,
//     address list, positional topic OR-lists with wildcards) evaluated on the
//     CURRENT canonical branch.
//   - Logs carry BlockNumber, BlockHash, TxHash, TxIndex and Index like a node's.
//   - Seams: every RPC call is counted; FailAt(k) makes call k answer with a
//     JSON-RPC error; Clone() copies the whole chain state; SetHead(id).
//
// Any eth_ method that is not implemented here is answered by the rpc server
// with "method not found"; IsMethodNotFound lets a harness turn that into a loud
// harness error instead of mistaking it for an injected failure.
package fakechain

import (
	"context"
	"encoding/binary"
	"encoding/json"
	"errors"
	"fmt"
	"math/big"
	"net/http"
	"net/http/httptest"
	"strings"
	"sync"

	"github.com/ethereum/go-ethereum/common"
	"github.com/ethereum/go-ethereum/common/hexutil"
	"github.com/ethereum/go-ethereum/core/types"
	"github.com/ethereum/go-ethereum/crypto"
	"github.com/ethereum/go-ethereum/ethclient"
	"github.com/ethereum/go-ethereum/rpc"
)

// BlockID identifies a block of the tree (index in creation order, genesis = 0).
type BlockID int

// NoBlock is the parent of the genesis block.
const NoBlock BlockID = -1

// LogSpec is what a contract emits: the consensus part of a log.
type LogSpec struct {
	Address common.Address
	Topics  []common.Hash
	Data    []byte
}

// Block is one node of the block tree. It is immutable once added.
type Block struct {
	ID     BlockID
	Parent BlockID
	Number uint64
	Time   uint64
	Tag    string // branch tag; becomes the header's extra data
	Header *types.Header
	Hash   common.Hash
	Logs   []types.Log // complete logs as a node would return them

	rpcJSON json.RawMessage // the eth_getBlockBy... reply, rendered once
}

// Call is one served RPC call.
type Call struct {
	Seq    int
	Method string
	Failed bool // answered with the injected error
}

// Chain is the block tree plus the canonical-head pointer and the RPC seams.
type Chain struct {
	mu      sync.Mutex
	blocks  []*Block
	byHash  map[common.Hash]BlockID
	head    BlockID
	canon   []BlockID // canon[n] = canonical block at height n (derived from head)
	ChainID uint64
	// BlockTime is the timestamp distance between a block and its parent.
	BlockTime uint64
	// LenientRanges: eth_getLogs with fromBlock > toBlock is answered with an empty
	// result instead of geth's "invalid block range params" (clients differ).
	LenientRanges bool

	calls   int
	failAt  map[int]bool
	callLog []Call
	keepLog bool

	server *rpc.Server
	client *ethclient.Client
}

// InjectedError is the JSON-RPC error answered at an armed call.
type InjectedError struct{ Seq int }

func (e *InjectedError) Error() string {
	return fmt.Sprintf("fakechain: injected failure at rpc call %d", e.Seq)
}
func (e *InjectedError) ErrorCode() int { return -32000 }

// InjectedText is contained in the message of every injected error (the client
// side only sees the message).
const InjectedText = "fakechain: injected failure"

// IsInjected reports whether err (as seen by the RPC client) is an injected failure.
func IsInjected(err error) bool {
	return err != nil && strings.Contains(err.Error(), InjectedText)
}

// IsMethodNotFound reports whether err is the rpc server's answer for a method
// the fake does not implement.
func IsMethodNotFound(err error) bool {
	if err == nil {
		return false
	}
	s := err.Error()
	return strings.Contains(s, "does not exist/is not available") || strings.Contains(s, "method not found")
}

// New creates a chain that consists of a genesis block (number 0) with the given timestamp.
func New(genesisTime uint64) *Chain {
	c := &Chain{byHash: map[common.Hash]BlockID{}, ChainID: 100, BlockTime: 5, failAt: map[int]bool{}}
	c.add(NoBlock, 0, genesisTime, "genesis", nil)
	c.setHead(0)
	return c
}

func (c *Chain) add(parent BlockID, number, time uint64, tag string, logs []LogSpec) BlockID {
	h := &types.Header{
		UncleHash:   types.EmptyUncleHash,
		Coinbase:    common.Address{},
		Root:        types.EmptyRootHash,
		TxHash:      types.EmptyTxsHash,
		ReceiptHash: logsDigest(logs),
		Difficulty:  big.NewInt(0),
		Number:      new(big.Int).SetUint64(number),
		GasLimit:    30_000_000,
		GasUsed:     0,
		Time:        time,
		Extra:       []byte(tag),
		BaseFee:     big.NewInt(7),
	}
	if parent != NoBlock {
		h.ParentHash = c.blocks[parent].Hash
	}
	id := BlockID(len(c.blocks))
	b := &Block{ID: id, Parent: parent, Number: number, Time: time, Tag: tag, Header: h, Hash: h.Hash()}
	if other, dup := c.byHash[b.Hash]; dup {
		panic(fmt.Sprintf("fakechain: block %d would have the same hash as block %d (same parent, time, tag and logs)", id, other))
	}
	for i, l := range logs {
		var txSeed [40]byte
		copy(txSeed[:], b.Hash[:])
		binary.BigEndian.PutUint64(txSeed[32:], uint64(i))
		b.Logs = append(b.Logs, types.Log{
			Address:     l.Address,
			Topics:      append([]common.Hash(nil), l.Topics...),
			Data:        append([]byte(nil), l.Data...),
			BlockNumber: number,
			TxHash:      crypto.Keccak256Hash(txSeed[:]),
			TxIndex:     uint(i), // one transaction per log
			BlockHash:   b.Hash,
			Index:       uint(i),
		})
	}
	b.rpcJSON = marshalBlock(b)
	c.blocks = append(c.blocks, b)
	c.byHash[b.Hash] = id
	return id
}

// logsDigest makes the header (hence the hash) depend on the block's logs, as
// the receipts root does on a real chain.
func logsDigest(logs []LogSpec) common.Hash {
	if len(logs) == 0 {
		return types.EmptyReceiptsHash
	}
	var buf []byte
	for _, l := range logs {
		buf = append(buf, l.Address[:]...)
		buf = append(buf, byte(len(l.Topics)))
		for _, t := range l.Topics {
			buf = append(buf, t[:]...)
		}
		var n [8]byte
		binary.BigEndian.PutUint64(n[:], uint64(len(l.Data)))
		buf = append(buf, n[:]...)
		buf = append(buf, l.Data...)
	}
	return crypto.Keccak256Hash(buf)
}

// AddBlock appends a child of parent carrying the given logs and returns its id.
// The canonical head is not moved.
func (c *Chain) AddBlock(parent BlockID, tag string, logs ...LogSpec) BlockID {
	c.mu.Lock()
	defer c.mu.Unlock()
	p := c.blocks[parent]
	return c.add(parent, p.Number+1, p.Time+c.BlockTime, tag, logs)
}

// Block returns a block of the tree.
func (c *Chain) Block(id BlockID) *Block {
	c.mu.Lock()
	defer c.mu.Unlock()
	return c.blocks[id]
}

// Len is the number of blocks in the tree.
func (c *Chain) Len() int {
	c.mu.Lock()
	defer c.mu.Unlock()
	return len(c.blocks)
}

// ByHash finds a block of the tree (on any branch).
func (c *Chain) ByHash(h common.Hash) (*Block, bool) {
	c.mu.Lock()
	defer c.mu.Unlock()
	id, ok := c.byHash[h]
	if !ok {
		return nil, false
	}
	return c.blocks[id], true
}

func (c *Chain) setHead(id BlockID) {
	c.head = id
	n := c.blocks[id].Number
	c.canon = make([]BlockID, n+1)
	for b := c.blocks[id]; ; b = c.blocks[b.Parent] {
		c.canon[b.Number] = b.ID
		if b.Parent == NoBlock {
			break
		}
	}
}

// SetHead makes id the canonical head: by-number queries are answered on the
// branch that ends in id.
func (c *Chain) SetHead(id BlockID) {
	c.mu.Lock()
	defer c.mu.Unlock()
	c.setHead(id)
}

// Head returns the canonical head.
func (c *Chain) Head() *Block {
	c.mu.Lock()
	defer c.mu.Unlock()
	return c.blocks[c.head]
}

// Canonical returns the canonical block at the given height (nil above the head).
func (c *Chain) Canonical(number uint64) *Block {
	c.mu.Lock()
	defer c.mu.Unlock()
	return c.canonical(number)
}

func (c *Chain) canonical(number uint64) *Block {
	if number >= uint64(len(c.canon)) {
		return nil
	}
	return c.blocks[c.canon[number]]
}

// Ancestor returns the ancestor of id at the given height (id itself if it is
// at that height); nil if the height is above the block.
func (c *Chain) Ancestor(id BlockID, number uint64) *Block {
	c.mu.Lock()
	defer c.mu.Unlock()
	b := c.blocks[id]
	if number > b.Number {
		return nil
	}
	for b.Number > number {
		b = c.blocks[b.Parent]
	}
	return b
}

// IsAncestorOrSelf reports whether a lies on the chain that ends in b.
func (c *Chain) IsAncestorOrSelf(a, b BlockID) bool {
	x := c.Ancestor(b, c.Block(a).Number)
	return x != nil && x.ID == a
}

// CommonAncestor returns the highest block that lies on both chains.
func (c *Chain) CommonAncestor(a, b BlockID) *Block {
	c.mu.Lock()
	defer c.mu.Unlock()
	x, y := c.blocks[a], c.blocks[b]
	for x.Number > y.Number {
		x = c.blocks[x.Parent]
	}
	for y.Number > x.Number {
		y = c.blocks[y.Parent]
	}
	for x.ID != y.ID {
		x, y = c.blocks[x.Parent], c.blocks[y.Parent]
	}
	return x
}

// Clone copies the whole chain state (tree, head, call counter, armed
// failures). Blocks are immutable and shared. The clone gets its own RPC server
// on first use.
func (c *Chain) Clone() *Chain {
	c.mu.Lock()
	defer c.mu.Unlock()
	n := &Chain{
		blocks:    append([]*Block(nil), c.blocks...),
		byHash:    make(map[common.Hash]BlockID, len(c.byHash)),
		head:      c.head,
		canon:     append([]BlockID(nil), c.canon...),
		ChainID:   c.ChainID,
		BlockTime: c.BlockTime,
		calls:     c.calls,

		LenientRanges: c.LenientRanges,
		failAt:        map[int]bool{},
		keepLog:       c.keepLog,
		callLog:       append([]Call(nil), c.callLog...),
	}
	for k, v := range c.byHash {
		n.byHash[k] = v
	}
	for k, v := range c.failAt {
		n.failAt[k] = v
	}
	return n
}

// ---------- RPC seams ----------

// ResetCalls sets the call counter to zero, disarms all failures and clears the call log.
func (c *Chain) ResetCalls() {
	c.mu.Lock()
	c.calls = 0
	c.failAt = map[int]bool{}
	c.callLog = nil
	c.mu.Unlock()
}

// Calls returns the number of RPC calls served since ResetCalls.
func (c *Chain) Calls() int {
	c.mu.Lock()
	defer c.mu.Unlock()
	return c.calls
}

// FailAt arms an injected JSON-RPC error for the call with sequence number k
// (0-based, counted from the last ResetCalls).
func (c *Chain) FailAt(k int) {
	c.mu.Lock()
	c.failAt[k] = true
	c.mu.Unlock()
}

// KeepCallLog switches recording of served calls on or off.
func (c *Chain) KeepCallLog(on bool) {
	c.mu.Lock()
	c.keepLog = on
	c.mu.Unlock()
}

// CallLog returns the recorded calls.
func (c *Chain) CallLog() []Call {
	c.mu.Lock()
	defer c.mu.Unlock()
	return append([]Call(nil), c.callLog...)
}

// enter is called at the start of every RPC method. It must be called with c.mu held.
func (c *Chain) enter(method string) error {
	k := c.calls
	c.calls++
	fail := c.failAt[k]
	if c.keepLog {
		c.callLog = append(c.callLog, Call{Seq: k, Method: method, Failed: fail})
	}
	if fail {
		return &InjectedError{Seq: k}
	}
	return nil
}

// inMemoryTransport hands every HTTP request of the RPC client directly to the
// RPC server's ServeHTTP, in the caller's goroutine: no socket, no pipe, no
// background reader, no deadline. (rpc.DialInProc was used first; its net.Pipe
// codec sets a 10 s write deadline and the server drops a response whose write
// times out, which on an overloaded machine leaves the client waiting forever.)
type inMemoryTransport struct{ srv *rpc.Server }

func (t inMemoryTransport) RoundTrip(req *http.Request) (*http.Response, error) {
	rec := httptest.NewRecorder()
	t.srv.ServeHTTP(rec, req)
	return rec.Result(), nil
}

// Client returns the *ethclient.Client connected in-process to this chain
// (JSON-RPC over an in-memory HTTP round trip into rpc.Server).
func (c *Chain) Client() *ethclient.Client {
	c.mu.Lock()
	defer c.mu.Unlock()
	if c.client == nil {
		c.server = rpc.NewServer()
		if err := c.server.RegisterName("eth", &ethAPI{c}); err != nil {
			panic(err)
		}
		rc, err := rpc.DialOptions(context.Background(), "http://fakechain.invalid",
			rpc.WithHTTPClient(&http.Client{Transport: inMemoryTransport{c.server}}))
		if err != nil {
			panic(err)
		}
		c.client = ethclient.NewClient(rc)
	}
	return c.client
}

// Close shuts the RPC client and server down.
func (c *Chain) Close() {
	c.mu.Lock()
	cl, srv := c.client, c.server
	c.client, c.server = nil, nil
	c.mu.Unlock()
	if cl != nil {
		cl.Close()
	}
	if srv != nil {
		srv.Stop()
	}
}

// ---------- the eth namespace ----------

type ethAPI struct{ c *Chain }

func (a *ethAPI) resolve(n rpc.BlockNumber) (*Block, error) {
	c := a.c
	switch n {
	case rpc.LatestBlockNumber, rpc.PendingBlockNumber, rpc.SafeBlockNumber, rpc.FinalizedBlockNumber:
		return c.blocks[c.head], nil
	case rpc.EarliestBlockNumber:
		return c.blocks[0], nil
	}
	if n < 0 {
		return nil, fmt.Errorf("fakechain: unsupported block tag %d", n)
	}
	return c.canonical(uint64(n)), nil
}

// marshalBlock renders the reply for a block: the header's own MarshalJSON
// (gencodec; the fields of geth's RPCMarshalHeader incl. "hash") plus the body
// fields of an empty block.
func marshalBlock(b *Block) json.RawMessage {
	raw, err := json.Marshal(b.Header)
	if err != nil {
		panic(err)
	}
	m := map[string]interface{}{}
	if err := json.Unmarshal(raw, &m); err != nil {
		panic(err)
	}
	m["size"] = hexutil.Uint64(600)
	m["transactions"] = []interface{}{}
	m["uncles"] = []interface{}{}
	out, err := json.Marshal(m)
	if err != nil {
		panic(err)
	}
	return out
}

var jsonNull = json.RawMessage("null") // ethclient reports ethereum.NotFound

func blockReply(b *Block) json.RawMessage {
	if b == nil {
		return jsonNull
	}
	return b.rpcJSON
}

func (a *ethAPI) GetBlockByNumber(ctx context.Context, number rpc.BlockNumber, fullTx bool) (json.RawMessage, error) {
	a.c.mu.Lock()
	defer a.c.mu.Unlock()
	if err := a.c.enter("eth_getBlockByNumber"); err != nil {
		return nil, err
	}
	b, err := a.resolve(number)
	if err != nil {
		return nil, err
	}
	return blockReply(b), nil
}

func (a *ethAPI) GetBlockByHash(ctx context.Context, hash common.Hash, fullTx bool) (json.RawMessage, error) {
	a.c.mu.Lock()
	defer a.c.mu.Unlock()
	if err := a.c.enter("eth_getBlockByHash"); err != nil {
		return nil, err
	}
	id, ok := a.c.byHash[hash]
	if !ok {
		return jsonNull, nil
	}
	return a.c.blocks[id].rpcJSON, nil
}

func (a *ethAPI) BlockNumber(ctx context.Context) (hexutil.Uint64, error) {
	a.c.mu.Lock()
	defer a.c.mu.Unlock()
	if err := a.c.enter("eth_blockNumber"); err != nil {
		return 0, err
	}
	return hexutil.Uint64(a.c.blocks[a.c.head].Number), nil
}

func (a *ethAPI) ChainId(ctx context.Context) (*hexutil.Big, error) {
	a.c.mu.Lock()
	defer a.c.mu.Unlock()
	if err := a.c.enter("eth_chainId"); err != nil {
		return nil, err
	}
	return (*hexutil.Big)(new(big.Int).SetUint64(a.c.ChainID)), nil
}

// FilterCriteria is the argument of eth_getLogs with geth's JSON decoding rules.
type FilterCriteria struct {
	BlockHash *common.Hash
	FromBlock *rpc.BlockNumber
	ToBlock   *rpc.BlockNumber
	Addresses []common.Address
	Topics    [][]common.Hash // nil entry = wildcard
}

func decodeHash(s string) (common.Hash, error) {
	b, err := hexutil.Decode(s)
	if err != nil {
		return common.Hash{}, err
	}
	if len(b) != common.HashLength {
		return common.Hash{}, fmt.Errorf("hex has invalid length %d after decoding; expected %d for topic", len(b), common.HashLength)
	}
	return common.BytesToHash(b), nil
}

func decodeAddr(s string) (common.Address, error) {
	b, err := hexutil.Decode(s)
	if err != nil {
		return common.Address{}, err
	}
	if len(b) != common.AddressLength {
		return common.Address{}, fmt.Errorf("hex has invalid length %d after decoding; expected %d for address", len(b), common.AddressLength)
	}
	return common.BytesToAddress(b), nil
}

// UnmarshalJSON follows go-ethereum/eth/filters.FilterCriteria.UnmarshalJSON.
func (f *FilterCriteria) UnmarshalJSON(data []byte) error {
	var raw struct {
		BlockHash *common.Hash     `json:"blockHash"`
		FromBlock *rpc.BlockNumber `json:"fromBlock"`
		ToBlock   *rpc.BlockNumber `json:"toBlock"`
		Addresses interface{}      `json:"address"`
		Topics    []interface{}    `json:"topics"`
	}
	if err := json.Unmarshal(data, &raw); err != nil {
		return err
	}
	if raw.BlockHash != nil {
		if raw.FromBlock != nil || raw.ToBlock != nil {
			return errors.New("cannot specify both BlockHash and FromBlock/ToBlock, choose one or the other")
		}
		f.BlockHash = raw.BlockHash
	} else {
		f.FromBlock, f.ToBlock = raw.FromBlock, raw.ToBlock
	}
	switch x := raw.Addresses.(type) {
	case nil:
	case string:
		a, err := decodeAddr(x)
		if err != nil {
			return fmt.Errorf("invalid address: %v", err)
		}
		f.Addresses = []common.Address{a}
	case []interface{}:
		for i, e := range x {
			s, ok := e.(string)
			if !ok {
				return fmt.Errorf("non-string address at index %d", i)
			}
			a, err := decodeAddr(s)
			if err != nil {
				return fmt.Errorf("invalid address at index %d: %v", i, err)
			}
			f.Addresses = append(f.Addresses, a)
		}
	default:
		return errors.New("invalid addresses in query")
	}
	if len(raw.Topics) > 4 {
		return errors.New("exceed max topics")
	}
	f.Topics = make([][]common.Hash, len(raw.Topics))
	for i, t := range raw.Topics {
		switch x := t.(type) {
		case nil:
		case string:
			h, err := decodeHash(x)
			if err != nil {
				return err
			}
			f.Topics[i] = []common.Hash{h}
		case []interface{}:
			for _, e := range x {
				if e == nil { // a null member makes the position a wildcard
					f.Topics[i] = nil
					break
				}
				s, ok := e.(string)
				if !ok {
					return errors.New("invalid topic(s)")
				}
				h, err := decodeHash(s)
				if err != nil {
					return err
				}
				f.Topics[i] = append(f.Topics[i], h)
			}
		default:
			return errors.New("invalid topic(s)")
		}
	}
	return nil
}

// Matches is the reference filter predicate of eth_getLogs.
func (f *FilterCriteria) Matches(l *types.Log) bool {
	if len(f.Addresses) > 0 {
		ok := false
		for _, a := range f.Addresses {
			if a == l.Address {
				ok = true
				break
			}
		}
		if !ok {
			return false
		}
	}
	if len(f.Topics) > len(l.Topics) {
		return false
	}
	for i, alts := range f.Topics {
		if len(alts) == 0 {
			continue
		}
		ok := false
		for _, t := range alts {
			if t == l.Topics[i] {
				ok = true
				break
			}
		}
		if !ok {
			return false
		}
	}
	return true
}

func (a *ethAPI) GetLogs(ctx context.Context, crit FilterCriteria) ([]*types.Log, error) {
	c := a.c
	c.mu.Lock()
	defer c.mu.Unlock()
	if err := c.enter("eth_getLogs"); err != nil {
		return nil, err
	}
	out := []*types.Log{}
	collect := func(b *Block) {
		for i := range b.Logs {
			if crit.Matches(&b.Logs[i]) {
				l := b.Logs[i]
				out = append(out, &l)
			}
		}
	}
	if crit.BlockHash != nil {
		id, ok := c.byHash[*crit.BlockHash]
		if !ok {
			return nil, errors.New("unknown block")
		}
		collect(c.blocks[id])
		return out, nil
	}
	head := c.blocks[c.head].Number
	bound := func(n *rpc.BlockNumber, dflt uint64) (uint64, error) {
		if n == nil {
			return dflt, nil
		}
		switch *n {
		case rpc.LatestBlockNumber, rpc.SafeBlockNumber, rpc.FinalizedBlockNumber:
			return head, nil
		case rpc.EarliestBlockNumber:
			return 0, nil
		case rpc.PendingBlockNumber:
			return 0, errors.New("pending logs are not supported")
		}
		if *n < 0 {
			return 0, errors.New("negative block number")
		}
		return uint64(*n), nil
	}
	from, err := bound(crit.FromBlock, head)
	if err != nil {
		return nil, err
	}
	to, err := bound(crit.ToBlock, head)
	if err != nil {
		return nil, err
	}
	if from > to {
		if c.LenientRanges {
			return out, nil
		}
		return nil, errors.New("invalid block range params")
	}
	if to > head { // a node answers for the part of the range it has
		to = head
	}
	for n := from; n <= to; n++ {
		collect(c.canonical(n))
	}
	return out, nil
}
