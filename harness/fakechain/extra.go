package fakechain

// AddBlockAt is AddBlock with an explicit timestamp (block timestamps are
// chosen by the explorer in checks about release times; they may even go
// backwards, which a node following reorganisations can observe).
func (c *Chain) AddBlockAt(parent BlockID, tag string, time uint64, logs ...LogSpec) BlockID {
	c.mu.Lock()
	defer c.mu.Unlock()
	p := c.blocks[parent]
	return c.add(parent, p.Number+1, time, tag, logs)
}
