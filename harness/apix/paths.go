package apix

import (
	"encoding/json"
	"fmt"
	"regexp"
	"strings"

	"github.com/getkin/kin-openapi/openapi3"
)

// Path is one generated request path (without the /v1 mount prefix unless
// stated) and how it was made.
type Path struct {
	Template string `json:"template"`
	How      string `json:"how"`
	Target   string `json:"target"` // full request-target, including the prefix
}

const Prefix = "/v1"

var patRe = regexp.MustCompile(`^\^0x\[0-9a-f\]\{(\d+)\}\$$`)

// validValue derives a value that satisfies a parameter / property schema.
func validValue(s *openapi3.Schema) string {
	if s == nil {
		return "1"
	}
	switch s.Type {
	case "integer", "number":
		return "1"
	case "boolean":
		return "true"
	case "string":
		if m := patRe.FindStringSubmatch(s.Pattern); m != nil {
			var n int
			fmt.Sscan(m[1], &n)
			if n == 64 {
				return ExistingEpochID
			}
			return "0x" + strings.Repeat("1", n)
		}
		return "x"
	}
	return "1"
}

// MinimalBody builds the minimal valid JSON body of an operation, "" if it has none.
func MinimalBody(op *openapi3.Operation) string {
	if op == nil || op.RequestBody == nil || op.RequestBody.Value == nil {
		return ""
	}
	mt := op.RequestBody.Value.Content.Get("application/json")
	if mt == nil || mt.Schema == nil || mt.Schema.Value == nil {
		return "{}"
	}
	sch := mt.Schema.Value
	obj := map[string]any{}
	for _, name := range sch.Required {
		ps := sch.Properties[name]
		if ps == nil || ps.Value == nil {
			obj[name] = 1
			continue
		}
		switch ps.Value.Type {
		case "integer", "number":
			obj[name] = 7
		case "boolean":
			obj[name] = true
		default:
			obj[name] = validValue(ps.Value)
		}
	}
	b, _ := json.Marshal(obj)
	return string(b)
}

type seg struct {
	lit   string // literal text, or
	param string // parameter name
}

func splitTemplate(t string) []seg {
	var out []seg
	for _, p := range strings.Split(strings.TrimPrefix(t, "/"), "/") {
		if strings.HasPrefix(p, "{") && strings.HasSuffix(p, "}") {
			out = append(out, seg{param: p[1 : len(p)-1]})
		} else {
			out = append(out, seg{lit: p})
		}
	}
	return out
}

func paramSchema(item *openapi3.PathItem, name string) *openapi3.Schema {
	for _, op := range item.Operations() {
		for _, p := range op.Parameters {
			if p.Value != nil && p.Value.Name == name && p.Value.Schema != nil {
				return p.Value.Schema.Value
			}
		}
	}
	for _, p := range item.Parameters {
		if p.Value != nil && p.Value.Name == name && p.Value.Schema != nil {
			return p.Value.Schema.Value
		}
	}
	return nil
}

// literals of all templates (for "another template's literal segment").
func allLiterals(templates []string) []string {
	seen := map[string]bool{}
	var out []string
	for _, t := range templates {
		for _, s := range splitTemplate(t) {
			if s.lit != "" && !seen[s.lit] {
				seen[s.lit] = true
				out = append(out, s.lit)
			}
		}
	}
	return out
}

// Canonical is the template instantiated with valid parameter values.
func Canonical(spec *openapi3.T, t string) string {
	var parts []string
	for _, s := range splitTemplate(t) {
		if s.param != "" {
			parts = append(parts, validValue(paramSchema(spec.Paths[t], s.param)))
		} else {
			parts = append(parts, s.lit)
		}
	}
	return "/" + strings.Join(parts, "/")
}

// paramValues: valid, a second valid one, invalid ones, values containing "/",
// "%2F", "..", braces, and every literal segment of every template.
func paramValues(sch *openapi3.Schema, literals []string) []string {
	v := validValue(sch)
	out := []string{v}
	if sch != nil && (sch.Type == "integer" || sch.Type == "number") {
		out = append(out, "2", "0", "-1", "01", "1.0", "99999999999999999999", "abc", "+1", "0x1")
	} else {
		out = append(out, "0x"+strings.Repeat("2", 64), "0x"+strings.Repeat("1", 63), "0x"+strings.Repeat("1", 65), "0x"+strings.Repeat("A", 64), strings.Repeat("1", 64), "0xzz", "abc")
	}
	out = append(out, "", "1/2", "1%2F2", "..", "%2e%2e", ".", "{"+"x"+"}", "{eon}", "a b", "a%20b", "%", "%zz", "é", "%00", "x?y", "x%3Fy", "x#y", ";", "*")
	out = append(out, literals...)
	return out
}

// Substitutions yields the template with every parameter value combination
// (one parameter varied over its pool while the others hold each of {valid,
// first invalid}; thorough: the full product).
func Substitutions(spec *openapi3.T, templates []string, t string, thorough bool) []Path {
	segs := splitTemplate(t)
	lits := allLiterals(templates)
	var pools [][]string
	for _, s := range segs {
		if s.param != "" {
			pools = append(pools, paramValues(paramSchema(spec.Paths[t], s.param), lits))
		}
	}
	if len(pools) == 0 {
		return nil
	}
	var combos [][]string
	if thorough {
		combos = [][]string{nil}
		for _, pool := range pools {
			var next [][]string
			for _, c := range combos {
				for _, v := range pool {
					next = append(next, append(append([]string{}, c...), v))
				}
			}
			combos = next
		}
	} else {
		seen := map[string]bool{}
		for i, pool := range pools {
			for _, v := range pool {
				for _, others := range []int{0, 7} { // 0 = valid, 7 = an invalid value
					c := make([]string, len(pools))
					for j := range pools {
						k := others
						if k >= len(pools[j]) {
							k = 0
						}
						c[j] = pools[j][k]
					}
					c[i] = v
					key := strings.Join(c, "\x00")
					if !seen[key] {
						seen[key] = true
						combos = append(combos, c)
					}
				}
			}
		}
	}
	var out []Path
	for _, c := range combos {
		var parts []string
		k := 0
		for _, s := range segs {
			if s.param != "" {
				parts = append(parts, c[k])
				k++
			} else {
				parts = append(parts, s.lit)
			}
		}
		out = append(out, Path{Template: t, How: fmt.Sprintf("params=%q", c), Target: Prefix + "/" + strings.Join(parts, "/")})
	}
	return out
}

func pct(c byte, upper bool) string {
	if upper {
		return fmt.Sprintf("%%%02X", c)
	}
	return fmt.Sprintf("%%%02x", c)
}

// Spellings yields the spelling mutations of one concrete path p (which starts
// with "/" and carries no prefix): trailing slash, doubled slash at each
// position, case of each literal segment and of the prefix, %-encoding of each
// single character, prefix variants, dot segments, query strings, fragments,
// absolute-form targets.
func Spellings(t, p string, literalSegs []string) []Path {
	var out []Path
	add := func(how, target string) { out = append(out, Path{Template: t, How: how, Target: target}) }
	full := Prefix + p
	add("canonical", full)
	add("trailing slash", full+"/")
	add("two trailing slashes", full+"//")
	for i := 0; i < len(full); i++ {
		if full[i] == '/' {
			add(fmt.Sprintf("doubled slash at %d", i), full[:i]+"/"+full[i:])
			add(fmt.Sprintf("slash at %d %%-encoded", i), full[:i]+"%2F"+full[i+1:])
			add(fmt.Sprintf("slash at %d replaced by backslash", i), full[:i]+`\`+full[i+1:])
		}
	}
	// case of each literal segment and of the prefix
	for _, l := range append([]string{strings.TrimPrefix(Prefix, "/")}, literalSegs...) {
		for _, v := range []string{strings.ToUpper(l), strings.ToLower(l), strings.ToUpper(l[:1]) + l[1:], l[:len(l)-1] + strings.ToUpper(l[len(l)-1:])} {
			if v != l {
				add(fmt.Sprintf("segment %q spelled %q", l, v), strings.Replace(full, "/"+l, "/"+v, 1))
			}
		}
	}
	// %-encoding of each single character (lower and upper hex digits)
	for i := 0; i < len(full); i++ {
		if full[i] == '/' {
			continue
		}
		add(fmt.Sprintf("char %d (%q) %%-encoded", i, full[i]), full[:i]+pct(full[i], true)+full[i+1:])
		if lo := pct(full[i], false); lo != pct(full[i], true) {
			add(fmt.Sprintf("char %d (%q) %%-encoded lower", i, full[i]), full[:i]+lo+full[i+1:])
		}
	}
	add("everything %-encoded", Prefix+func() string {
		var sb strings.Builder
		for i := 0; i < len(p); i++ {
			if p[i] == '/' {
				sb.WriteByte('/')
			} else {
				sb.WriteString(pct(p[i], true))
			}
		}
		return sb.String()
	}())
	// prefix variants
	add("without prefix", p)
	add("prefix twice", Prefix+Prefix+p)
	add("prefix without slash", Prefix+strings.TrimPrefix(p, "/"))
	add("other version prefix", "/v2"+p)
	add("prefix only", Prefix)
	add("prefix and slash", Prefix+"/")
	// dot segments
	add("/v1/../v1/…", Prefix+"/.."+Prefix+p)
	add("/v1/./…", Prefix+"/."+p)
	add("…/.", full+"/.")
	add("…/..", full+"/..")
	add("/v1/x/../…", Prefix+"/x/.."+p)
	add("/../v1/…", "/.."+full)
	add("%2e%2e dot segments", Prefix+"/%2e%2e"+Prefix+p)
	add("/v1/shutdown/../…", Prefix+"/shutdown/.."+p)
	add("…/../shutdown", full+"/../shutdown")
	// query, fragment, matrix
	add("query", full+"?x=1")
	add("empty query", full+"?")
	add("query naming another path", full+"?/v1/shutdown")
	add("fragment", full+"#frag")
	add("matrix parameter", full+";x=1")
	add("encoded query mark", full+"%3Fx=1")
	add("NUL appended", full+"%00")
	add("space appended", full+"%20")
	add("newline appended", full+"%0A")
	add("non-ASCII appended", full+"%C3%A9")
	// absolute-form and odd targets
	add("absolute-form", "http://keyper.example"+full)
	add("absolute-form other host", "http://other.example"+full)
	add("no leading slash", strings.TrimPrefix(full, "/"))
	add("asterisk-form", "*")
	return out
}

// LiteralSegs of a template.
func LiteralSegs(t string) []string {
	var out []string
	for _, s := range splitTemplate(t) {
		if s.lit != "" {
			out = append(out, s.lit)
		}
	}
	return out
}
