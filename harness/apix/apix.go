// Package apix closes the environment of the keyper's HTTP API
// (rolling-shutter/keyper/kprapi + kproapi) for the C18 check: the real router
// from (*Server).VerifRouter() on a minipg keyper database, deterministic
// receivers on the trigger and shutdown channels, request construction through
// net/http's own request parser, and path generation from the embedded OpenAPI
// document.
package apix

import (
	"bufio"
	"context"
	"database/sql"
	"encoding/json"
	"fmt"
	"github.com/jackc/pgx/v4/minipg"
	"io"
	"log"
	"net/http"
	"net/http/httptest"
	"net/url"
	"strings"
	"sync"

	chimiddleware "github.com/deepmap/oapi-codegen/pkg/chi-middleware"
	"github.com/ethereum/go-ethereum/common"
	"github.com/getkin/kin-openapi/openapi3"
	"github.com/go-chi/chi/v5"
	"github.com/go-chi/chi/v5/middleware"
	"github.com/jackc/pgx/v4/pgxpool"
	"github.com/rs/zerolog"

	kprdatabase "github.com/shutter-network/rolling-shutter/rolling-shutter/keyper/database"
	"github.com/shutter-network/rolling-shutter/rolling-shutter/keyper/epochkghandler"
	"github.com/shutter-network/rolling-shutter/rolling-shutter/keyper/kprapi"
	"github.com/shutter-network/rolling-shutter/rolling-shutter/keyper/kproapi"
	"github.com/shutter-network/rolling-shutter/rolling-shutter/medley/broker"
	"github.com/shutter-network/rolling-shutter/rolling-shutter/medley/db"
	"github.com/shutter-network/rolling-shutter/rolling-shutter/medley/retry"
	"github.com/shutter-network/rolling-shutter/rolling-shutter/p2pmsg"
)

func init() {
	zerolog.SetGlobalLevel(zerolog.Disabled)
	// chi's request logger stays mounted (it is part of the router under test)
	// but writes nowhere.
	middleware.DefaultLogger = middleware.RequestLogger(&middleware.DefaultLogFormatter{Logger: log.New(io.Discard, "", 0), NoColor: true})
}

// ExistingEpochID is the identity for which the database holds a decryption key (eon 1).
const ExistingEpochID = "0x1111111111111111111111111111111111111111111111111111111111111111"

type config struct{ writes bool }

func (c config) GetHTTPListenAddress() string { return "127.0.0.1:0" }
func (c config) GetAddress() common.Address {
	return common.HexToAddress("0x00000000000000000000000000000000000000c1")
}
func (c config) GetInstanceID() uint64          { return 42 }
func (c config) GetEnableWriteOperations() bool { return c.writes }

type p2pStub struct{ sent int }

func (p *p2pStub) SendMessage(context.Context, p2pmsg.Message, ...retry.Option) error {
	p.sent++
	return nil
}

// receiver drains one channel in a single goroutine; flush hands over what was
// received so far. Because the handlers send on unbuffered channels, a send
// that completed before flush is called has been taken by this goroutine's
// receive case, and the goroutine cannot serve the flush case before it has
// recorded the value: flush is deterministic without sleeping.
type receiver[T any] struct {
	flush chan chan []T
	stop  chan struct{}
}

func newReceiver[T any](ch <-chan T) *receiver[T] {
	r := &receiver[T]{flush: make(chan chan []T), stop: make(chan struct{})}
	go func() {
		var buf []T
		for {
			select {
			case <-r.stop:
				return
			case v, ok := <-ch:
				if !ok {
					return
				}
				buf = append(buf, v)
			case reply := <-r.flush:
				reply <- buf
				buf = nil
			}
		}
	}()
	return r
}

func (r *receiver[T]) take() []T {
	reply := make(chan []T)
	r.flush <- reply
	return <-reply
}

// Env is one server instance (write operations on or off) with its database.
type Env struct {
	Writes   bool
	Pool     *pgxpool.Pool
	Srv      *kprapi.Server
	Router   http.Handler
	P2P      *p2pStub
	shutdown *receiver[struct{}]
	trigger  *receiver[*broker.Event[*epochkghandler.DecryptionTrigger]]
	baseDump string
	p2pSeen  int
	name     string
}

var (
	envCounter      int
	envTemplateOnce sync.Once
	envTemplate     *minipg.DB
)

// NewEnv builds the real HTTP service on a fresh minipg keyper database that
// holds two eons (one without, one with a failed DKG result) and one
// decryption key.
func NewEnv(writes bool) *Env { return newEnv(writes, nil) }

// NewEnvWithSpec builds the same service, but assembles the API router in the
// harness exactly as kprapi.setupAPIRouter does, with
// kproapi.ConfigMiddlewareWithSpec reading the given document (used to vary the
// x-read-only marks; the embedded document cannot be varied).
func NewEnvWithSpec(writes bool, spec *openapi3.T) *Env { return newEnv(writes, spec) }

func newEnv(writes bool, variant *openapi3.T) *Env {
	ctx := context.Background()
	envCounter++
	name := fmt.Sprintf("apix-%d", envCounter)
	envTemplateOnce.Do(func() {
		pool, err := pgxpool.Connect(ctx, "minipg://apix-template")
		if err != nil {
			panic(err)
		}
		if err := db.InitDB(ctx, pool, "keyper-test", kprdatabase.Definition); err != nil {
			panic(fmt.Sprintf("apix: InitDB: %v", err))
		}
		q := kprdatabase.New(pool)
		must := func(err error) {
			if err != nil {
				panic(fmt.Sprintf("apix: populate: %v", err))
			}
		}
		must(q.InsertEon(ctx, kprdatabase.InsertEonParams{Eon: 1, Height: 10, ActivationBlockNumber: 100, KeyperConfigIndex: 1}))
		must(q.InsertEon(ctx, kprdatabase.InsertEonParams{Eon: 2, Height: 20, ActivationBlockNumber: 200, KeyperConfigIndex: 2}))
		must(q.InsertDKGResult(ctx, kprdatabase.InsertDKGResultParams{Eon: 2, Success: false, Error: sql.NullString{String: "failed", Valid: true}}))
		_, err = q.InsertDecryptionKey(ctx, kprdatabase.InsertDecryptionKeyParams{Eon: 1, EpochID: common.FromHex(ExistingEpochID), DecryptionKey: []byte{0xde, 0xc0, 0xde}})
		must(err)
		envTemplate = pool.DB()
	})
	// every environment works on its own copy of the populated template database
	edb := envTemplate.Clone()
	minipg.Register(name, edb)
	pool := pgxpool.NewWithDB(name, edb)

	p2p := &p2pStub{}
	srv := kprapi.NewHTTPService(pool, config{writes}, p2p)
	e := &Env{Writes: writes, Pool: pool, Srv: srv, P2P: p2p, name: name}
	if variant == nil {
		e.Router = srv.VerifRouter()
	} else {
		// the composition of kprapi.setupRouter/setupAPIRouter, with the middleware
		// reading the given document variant instead of the embedded one
		api := chi.NewRouter()
		api.Use(chimiddleware.OapiRequestValidator(variant))
		api.Use(kproapi.ConfigMiddlewareWithSpec(writes, func() (*openapi3.T, error) { return variant, nil }))
		_ = kproapi.HandlerFromMux(srv, api)
		outer := chi.NewRouter()
		outer.Use(middleware.Logger)
		outer.Use(middleware.Recoverer)
		outer.Mount("/v1", http.StripPrefix("/v1", api))
		e.Router = outer
	}
	e.shutdown = newReceiver[struct{}](srv.VerifShutdownSig())
	e.trigger = newReceiver[*broker.Event[*epochkghandler.DecryptionTrigger]](srv.VerifTrigger())
	e.baseDump = pool.DB().Dump()
	return e
}

// Request is one HTTP request as it appears on the wire.
type Request struct {
	Method string `json:"method"`
	Target string `json:"target"`         // request-target of the request line
	Body   string `json:"body,omitempty"` // "" = no body
	CType  string `json:"ctype,omitempty"`
	// Headers are further raw header lines ("Name: value").
	Headers []string `json:"headers,omitempty"`
	// Synthetic: instead of parsing Target, build the URL with exactly this
	// Path and RawPath (a request object the net/http server cannot produce; it
	// models an upstream handler that rewrote the URL inconsistently).
	SynthPath    string `json:"synth_path,omitempty"`
	SynthRawPath string `json:"synth_raw_path,omitempty"`
}

func (r Request) String() string {
	if r.SynthPath != "" {
		return fmt.Sprintf("%s URL{Path:%q RawPath:%q} body=%q", r.Method, r.SynthPath, r.SynthRawPath, r.Body)
	}
	if len(r.Headers) > 0 {
		return fmt.Sprintf("%s %s body=%q headers=%q", r.Method, r.Target, r.Body, r.Headers)
	}
	return fmt.Sprintf("%s %s body=%q", r.Method, r.Target, r.Body)
}

// Build turns the wire form into an *http.Request with net/http's own parser
// (http.ReadRequest, the function the server uses). ok=false: net/http refuses
// the request line, the router is never called.
func (r Request) Build() (*http.Request, bool) {
	if r.SynthPath != "" {
		req := httptest.NewRequest(r.Method, "/", strings.NewReader(r.Body))
		req.URL = &url.URL{Path: r.SynthPath, RawPath: r.SynthRawPath}
		req.RequestURI = r.SynthRawPath
		if r.CType != "" {
			req.Header.Set("Content-Type", r.CType)
		}
		for _, h := range r.Headers {
			if i := strings.Index(h, ":"); i > 0 {
				req.Header.Add(strings.TrimSpace(h[:i]), strings.TrimSpace(h[i+1:]))
			}
		}
		return req, true
	}
	var sb strings.Builder
	fmt.Fprintf(&sb, "%s %s HTTP/1.1\r\nHost: keyper.example\r\n", r.Method, r.Target)
	if r.CType != "" {
		fmt.Fprintf(&sb, "Content-Type: %s\r\n", r.CType)
	}
	for _, h := range r.Headers {
		fmt.Fprintf(&sb, "%s\r\n", h)
	}
	if r.Body != "" {
		fmt.Fprintf(&sb, "Content-Length: %d\r\n", len(r.Body))
	}
	sb.WriteString("\r\n")
	sb.WriteString(r.Body)
	req, err := http.ReadRequest(bufio.NewReader(strings.NewReader(sb.String())))
	if err != nil {
		return nil, false
	}
	req.RemoteAddr = "192.0.2.1:1234"
	return req, true
}

// Obs is what one request did.
type Obs struct {
	Parsed    bool     `json:"parsed"`
	Status    int      `json:"status"`
	Body      string   `json:"body"`
	Shutdowns int      `json:"shutdowns"`
	Triggers  []string `json:"triggers,omitempty"` // rendered decryption triggers received
	DBChanged bool     `json:"db_changed"`
	P2PSent   int      `json:"p2p_sent"`
	Panic     string   `json:"panic,omitempty"` // a panic that escaped the router
	// Reached is the route the inner chi router dispatched to (pattern of the
	// endpoint whose handler was invoked), "" if none; only filled by DoTraced.
	Reached string `json:"reached,omitempty"`
}

// Key renders the externally visible part (everything but Reached).
func (o Obs) Key() string {
	return fmt.Sprintf("parsed=%v status=%d body=%q shutdowns=%d triggers=%v db_changed=%v p2p=%d panic=%q", o.Parsed, o.Status, o.Body, o.Shutdowns, o.Triggers, o.DBChanged, o.P2PSent, o.Panic)
}

func renderTrigger(ev *broker.Event[*epochkghandler.DecryptionTrigger]) string {
	if ev == nil || ev.Value == nil {
		return "<nil>"
	}
	var ids []string
	for _, p := range ev.Value.IdentityPreimages {
		ids = append(ids, fmt.Sprintf("%x", []byte(p)))
	}
	return fmt.Sprintf("block=%d ids=%v", ev.Value.BlockNumber, ids)
}

// Do serves the request exactly as the server would (no instrumentation).
func (e *Env) Do(r Request) Obs { return e.do(r, false) }

// DoTraced serves the request with a pre-allocated chi routing context, which
// chi then uses instead of one from its pool; afterwards the context tells
// which endpoint pattern the inner router dispatched to.
func (e *Env) DoTraced(r Request) Obs { return e.do(r, true) }

func (e *Env) do(r Request, traced bool) (o Obs) {
	req, ok := r.Build()
	if !ok {
		return Obs{Parsed: false}
	}
	o.Parsed = true
	var rctx *chi.Context
	if traced {
		rctx = chi.NewRouteContext()
		req = req.WithContext(context.WithValue(req.Context(), chi.RouteCtxKey, rctx))
	}
	rtBefore := e.Pool.DB().RoundTrips()
	p2pBefore := e.P2P.sent
	rec := httptest.NewRecorder()
	func() {
		defer func() {
			if p := recover(); p != nil {
				o.Panic = fmt.Sprint(p)
			}
		}()
		e.Router.ServeHTTP(rec, req)
	}()
	o.Status = rec.Code
	o.Body = rec.Body.String()
	o.Shutdowns = len(e.shutdown.take())
	for _, t := range e.trigger.take() {
		o.Triggers = append(o.Triggers, renderTrigger(t))
	}
	o.P2PSent = e.P2P.sent - p2pBefore
	if e.Pool.DB().RoundTrips() != rtBefore {
		if d := e.Pool.DB().Dump(); d != e.baseDump {
			o.DBChanged = true
			e.baseDump = d
		}
	}
	if traced {
		// patterns: outer "/v1/*" then the inner endpoint pattern, appended by
		// chi only when an endpoint handler for the method was found
		if n := len(rctx.RoutePatterns); n >= 2 && rctx.RoutePatterns[0] == "/v1/*" {
			o.Reached = rctx.RoutePatterns[n-1]
		}
	}
	return o
}

// Close releases the environment (receiver goroutines, database registration).
func (e *Env) Close() {
	close(e.shutdown.stop)
	close(e.trigger.stop)
	minipg.Drop(e.name)
}

// Serve answers one request without the per-request effect accounting of Do
// (several requests may be in flight, see Effects): status, body, panic and the
// route the inner router dispatched to.
func (e *Env) Serve(r Request) (o Obs) {
	req, ok := r.Build()
	if !ok {
		return Obs{Parsed: false}
	}
	o.Parsed = true
	rctx := chi.NewRouteContext()
	req = req.WithContext(context.WithValue(req.Context(), chi.RouteCtxKey, rctx))
	rec := httptest.NewRecorder()
	func() {
		defer func() {
			if p := recover(); p != nil {
				o.Panic = fmt.Sprint(p)
			}
		}()
		e.Router.ServeHTTP(rec, req)
	}()
	o.Status = rec.Code
	o.Body = rec.Body.String()
	if n := len(rctx.RoutePatterns); n >= 2 && rctx.RoutePatterns[0] == "/v1/*" {
		o.Reached = rctx.RoutePatterns[n-1]
	}
	return o
}

// Effects reports (and resets) what the server did since the environment was
// built or Effects was last called: shutdown signals, decryption triggers,
// database change, p2p messages.
func (e *Env) Effects() (shutdowns int, triggers []string, dbChanged bool, p2pSent int) {
	shutdowns = len(e.shutdown.take())
	for _, t := range e.trigger.take() {
		triggers = append(triggers, renderTrigger(t))
	}
	if d := e.Pool.DB().Dump(); d != e.baseDump {
		dbChanged = true
		e.baseDump = d
	}
	p2pSent = e.P2P.sent - e.p2pSeen
	e.p2pSeen = e.P2P.sent
	return
}

// Op is one operation of the OpenAPI document.
type Op struct {
	Template    string
	Method      string
	OperationID string
	ReadOnly    bool // marked x-read-only: true
	Params      []string
	NeedsBody   bool
}

func (o Op) String() string { return o.Method + " " + o.Template }

// readOnlyMark reads the x-read-only extension directly from the document
// (independently of kproapi's middleware).
func readOnlyMark(op *openapi3.Operation) bool {
	v, ok := op.Extensions["x-read-only"]
	if !ok {
		return false
	}
	switch x := v.(type) {
	case json.RawMessage:
		var b bool
		return json.Unmarshal(x, &b) == nil && b
	case bool:
		return x
	}
	return false
}

// Spec loads the embedded document and lists its templates and operations in
// sorted order.
func Spec() (*openapi3.T, []string, []Op) {
	spec, err := kproapi.GetSwagger()
	if err != nil {
		panic(err)
	}
	spec.Servers = nil
	t, ops := Ops(spec)
	return spec, t, ops
}

// Ops lists templates and operations of a document.
func Ops(spec *openapi3.T) ([]string, []Op) {
	var templates []string
	for t := range spec.Paths {
		templates = append(templates, t)
	}
	sortStrings(templates)
	var ops []Op
	for _, t := range templates {
		item := spec.Paths[t]
		for _, m := range []string{"GET", "POST", "PUT", "DELETE", "PATCH", "HEAD", "OPTIONS", "TRACE", "CONNECT"} {
			op := item.GetOperation(m)
			if op == nil {
				continue
			}
			o := Op{Template: t, Method: m, OperationID: op.OperationID, ReadOnly: readOnlyMark(op), NeedsBody: op.RequestBody != nil}
			ops = append(ops, o)
		}
	}
	return templates, ops
}

// MarkVariants are the ways the x-read-only extension of one operation is varied.
var MarkVariants = []string{"absent", "false (raw JSON)", "true (raw JSON)", "false (bool)", "true (bool)"}

// Variant returns a fresh copy of the embedded document in which the
// x-read-only mark of the given operation is set as described.
func Variant(template, method string, mark int) *openapi3.T {
	spec, _, _ := Spec()
	op := spec.Paths[template].GetOperation(method)
	if op.Extensions == nil {
		op.Extensions = map[string]interface{}{}
	}
	switch mark {
	case 0:
		delete(op.Extensions, "x-read-only")
	case 1:
		op.Extensions["x-read-only"] = json.RawMessage("false")
	case 2:
		op.Extensions["x-read-only"] = json.RawMessage("true")
	case 3:
		op.Extensions["x-read-only"] = false
	case 4:
		op.Extensions["x-read-only"] = true
	}
	return spec
}

func sortStrings(s []string) {
	for i := 1; i < len(s); i++ {
		for j := i; j > 0 && s[j] < s[j-1]; j-- {
			s[j], s[j-1] = s[j-1], s[j]
		}
	}
}
