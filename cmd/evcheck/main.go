// Command evcheck holds the check of the shuttermint event codec and of the
// keyper's event handling (C14). Every evaluation is a call into the real
// rolling-shutter/keyper/shutterevents, keyper/smobserver and app packages.
package main

import (
	"verif/report"
)

func main() {
	report.Main(map[string]*report.Check{
		"C14": c14(),
	})
}
