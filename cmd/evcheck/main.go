package main

import (
	"fmt"
	"math/big"
	"time"

	"github.com/ethereum/go-ethereum/common"
	"github.com/shutter-network/rolling-shutter/rolling-shutter/keyper/shutterevents"

	"verif/harness/evx"
	abcitypes "github.com/tendermint/tendermint/abci/types"
)

func main() {
	t := time.Now()
	s := evx.NewSim()
	fmt.Println("base:", s.BaseOutcome.Class(), time.Since(t))
	me := s.MyAddr()
	u := s.U
	t = time.Now()
	o := s.Hand(evx.Dealing, shutterevents.PolyEval{Sender: u.Addrs[0], Eon: 1, Receivers: []common.Address{u.Addrs[2], me}, EncryptedEvals: [][]byte{{1}}}.MakeABCIEvent(), false)
	fmt.Println(o.Class(), time.Since(t))
	fmt.Println(o.Stack)
	o = s.Hand(evx.Apologizing, shutterevents.Apology{Sender: u.Addrs[0], Eon: 1, Accusers: []common.Address{u.Addrs[2], me}, PolyEval: []*big.Int{big.NewInt(1)}}.MakeABCIEvent(), false)
	fmt.Println(o.Class())
	o = s.Hand(evx.Dealing, shutterevents.PolyEval{Sender: u.Addrs[0], Eon: 1, Receivers: []common.Address{u.Addrs[2], me}, EncryptedEvals: [][]byte{{1},{2}}}.MakeABCIEvent(), false)
	fmt.Println(o.Class())
	o = s.HandSeq(evx.Dealing, []abcitypes.Event{
		shutterevents.BatchConfig{Keypers: u.AddrsOf([]int{0,1,2}), Threshold: 1<<63, KeyperConfigIndex: 2}.MakeABCIEvent(),
		shutterevents.EonStarted{Eon: 2, KeyperConfigIndex: 2}.MakeABCIEvent()})
	fmt.Println(o.Class())
	fmt.Println(o.Stack)
}
