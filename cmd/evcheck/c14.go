package main

import (
	"encoding/json"
	"fmt"
	"math"
	"math/big"
	"regexp"
	"runtime/debug"
	"strings"
	"time"

	"github.com/ethereum/go-ethereum/common"
	abcitypes "github.com/tendermint/tendermint/abci/types"

	"github.com/shutter-network/shutter/shlib/shcrypto"

	"github.com/shutter-network/rolling-shutter/rolling-shutter/keyper/shutterevents"
	"github.com/shutter-network/rolling-shutter/rolling-shutter/keyper/shutterevents/evtype"
	"github.com/shutter-network/rolling-shutter/rolling-shutter/shmsg"

	"verif/harness/appx"
	"verif/harness/evx"
	"verif/report"
)

// C14 — keypers read chain events exactly as shuttermint wrote them.
//
// Five bounded-exhaustive parts, all on the real functions:
//
//	(a) value enumeration: MakeEvent(x.MakeABCIEvent(), h) equals x with Height=h
//	    for the cartesian product of the field pools of every event type;
//	(b) end to end: the same values sent as signed transactions through a real
//	    app.ShutterApp; the events of the DeliverTx response are decoded and
//	    compared with what was sent;
//	(c) decoder totality: every mutation of the attribute list, of each value
//	    string and of the type string of valid encoded events: MakeEvent does not
//	    panic, and a successful decode is stable under re-encoding;
//	(d) never crashes the keyper: every mutant of (c) that decodes and every
//	    structurally odd but decodable event of a cartesian pool is injected into
//	    a block that a real keyper (smobserver on minipg, fed by the real
//	    SyncAppWithDB -> handleBlock -> makeEvents -> HandleEvent path, in a closed
//	    loop with the real application) handles while its DKG is in the matching
//	    phase; the scenario then runs on to finalisation;
//	(e) the same for two-event sequences "config accepted, eon started" with
//	    boundary thresholds and keyper lists.

type wireEvent struct {
	Type  string      `json:"type"`
	Attrs [][2]string `json:"attrs"`
	Index []bool      `json:"index,omitempty"`
}

func toWire(ev abcitypes.Event) wireEvent {
	w := wireEvent{Type: ev.Type}
	for _, a := range ev.Attributes {
		w.Attrs = append(w.Attrs, [2]string{a.Key, a.Value})
		w.Index = append(w.Index, a.Index)
	}
	return w
}

func (w wireEvent) event() abcitypes.Event {
	ev := abcitypes.Event{Type: w.Type}
	for i, a := range w.Attrs {
		at := abcitypes.EventAttribute{Key: a[0], Value: a[1]}
		if i < len(w.Index) {
			at.Index = w.Index[i]
		}
		ev.Attributes = append(ev.Attributes, at)
	}
	return ev
}

type c14Replay struct {
	Part    string       `json:"part"`
	Desc    string       `json:"desc"`
	Event   *wireEvent   `json:"event,omitempty"`
	Height  int64        `json:"height,omitempty"`
	Want    string       `json:"want,omitempty"`
	E2E     *evx.E2ECase `json:"e2e,omitempty"`
	Phase   string       `json:"phase,omitempty"`
	Last    bool         `json:"last,omitempty"`
	Restart bool         `json:"restart,omitempty"`
	Events  []wireEvent  `json:"events,omitempty"`
}

var allTypeNames = []string{evtype.CheckIn, evtype.BatchConfig, evtype.BatchConfigStarted, evtype.EonStarted, evtype.PolyCommitment, evtype.PolyEval, evtype.Accusation, evtype.Apology}

var typeOfName = map[string]string{
	evtype.CheckIn: "CheckIn", evtype.BatchConfig: "BatchConfig", evtype.BatchConfigStarted: "BatchConfigStarted", evtype.EonStarted: "EonStarted",
	evtype.PolyCommitment: "PolyCommitment", evtype.PolyEval: "PolyEval", evtype.Accusation: "Accusation", evtype.Apology: "Apology",
}

// safeEncode / safeDecode call the real codec with panic capture.
func safeEncode(x shutterevents.IEvent) (ev abcitypes.Event, pan string) {
	defer func() {
		if p := recover(); p != nil {
			pan = fmt.Sprintf("%v\n%s", p, shortStack())
		}
	}()
	return x.MakeABCIEvent(), ""
}

func safeDecode(ev abcitypes.Event, h int64) (x shutterevents.IEvent, err error, pan string) {
	defer func() {
		if p := recover(); p != nil {
			pan = fmt.Sprintf("%v\n%s", p, shortStack())
		}
	}()
	x, err = shutterevents.MakeEvent(ev, h)
	return x, err, ""
}

func shortStack() string {
	lines := strings.Split(string(debug.Stack()), "\n")
	if len(lines) > 30 {
		lines = lines[:30]
	}
	return strings.Join(lines, "\n")
}

// ---------------------------------------------------------------------------
// (a)

func c14RoundTrip(x shutterevents.IEvent, h int64) (sig, msg string, ev abcitypes.Event, want string) {
	typ := evx.TypeName(x)
	want = evx.Norm(evx.WithHeight(x, h))
	ev, pan := safeEncode(x)
	if pan != "" {
		return "C14/encoder-panics/" + typ, fmt.Sprintf("MakeABCIEvent panics on %s: %s", want, pan), ev, want
	}
	got, err, pan := safeDecode(ev, h)
	if pan != "" {
		return "C14/decoder-panics-on-valid-event/" + typ, fmt.Sprintf("MakeEvent panics on the encoding of %s: %s", want, pan), ev, want
	}
	if err != nil {
		return "C14/valid-event-rejected/" + typ, fmt.Sprintf("MakeEvent rejects the encoding of %s: %v\nevent: %v", want, err, ev), ev, want
	}
	if g := evx.Norm(got); g != want {
		return "C14/roundtrip-differs/" + typ, fmt.Sprintf("MakeEvent(MakeABCIEvent(x), %d) differs from x\nsent:    %s\ndecoded: %s\nevent: %v", h, want, g, ev), ev, want
	}
	return "", "", ev, want
}

func c14PartA(c *report.Ctx, u *appx.Universe, unit *int) {
	maxDeg := 2
	for _, typ := range evx.EventTypes {
		n := 0
		evx.EnumValues(u, typ, maxDeg, func(x shutterevents.IEvent) {
			for _, h := range evx.HeightPool() {
				*unit++
				if *unit%c.NShards != c.Shard {
					continue
				}
				n++
				c.Stats.Evaluations++
				sig, msg, ev, want := c14RoundTrip(x, h)
				if sig != "" {
					w := toWire(ev)
					c.Violation(sig, msg, c14Replay{Part: "a", Desc: "value round trip", Event: &w, Height: h, Want: want})
					c.Stats.Class("(a) " + typ + ": round trip FAILS")
					continue
				}
				c.Stats.Class("(a) " + typ + ": value round-trips")
				if n == 7 && typ == "Apology" {
					c.Stats.Sample(map[string]any{"part": "a", "value": want, "encoded": toWire(ev)})
				}
			}
		})
		c.Stats.Count("a_values_"+typ, int64(n))
	}
}

// ---------------------------------------------------------------------------
// (b)

func e2eCases(u *appx.Universe) []evx.E2ECase {
	var out []evx.E2ECase
	u64 := evx.Uint64Pool()
	zero := common.Address{}
	a := u.Addrs
	initialEons := []uint64{0, 1<<32 - 1, 1<<63 - 1, math.MaxUint64 - 1, math.MaxUint64}
	keyperLists := [][]common.Address{{a[0]}, {a[0], a[1]}, {a[1], a[0]}, {zero}, {zero, a[0]}, {a[0], zero}, {a[1]}, {}, {a[0], a[0]}}
	for _, e0 := range initialEons {
		for _, ks := range keyperLists {
			for _, thr := range []uint64{0, 1, 2, 3, 1 << 63, math.MaxUint64} {
				for _, act := range u64 {
					for _, idx := range u64 {
						m := shmsg.NewBatchConfig(act, ks, thr, idx)
						out = append(out, evx.E2ECase{InitialEon: e0, Msg: evx.MarshalMsg(m), Sender: 0,
							Desc: fmt.Sprintf("BatchConfig keypers=%d thr=%d act=%d idx=%d, initial eon %d", len(ks), thr, act, idx, e0)})
					}
				}
			}
		}
		// DKG messages and check-ins on a running eon with keypers {0,1,2}
		setup := evx.MarshalMsg(shmsg.NewBatchConfig(1, u.AddrsOf([]int{0, 1, 2}), 2, 7))
		eon := e0 + 1
		add := func(sender int, m *shmsg.Message, desc string) {
			out = append(out, evx.E2ECase{InitialEon: e0, Setup: setup, Msg: evx.MarshalMsg(m), Sender: sender, Desc: fmt.Sprintf("%s by participant %d, initial eon %d", desc, sender, e0)})
		}
		for _, sender := range []int{0, 1, 3} {
			for _, k := range evx.ECIESPool(u) {
				add(sender, shmsg.NewCheckIn(u.ValKeys[sender][0], k), "CheckIn")
			}
			for _, e := range []uint64{eon, eon + 1, 0} {
				for gi, g := range evx.GammasPool(2) {
					if e != eon && gi%8 != 0 {
						continue
					}
					add(sender, shmsg.NewPolyCommitment(e, g), fmt.Sprintf("PolyCommitment eon=%d gammas#%d", e, gi))
				}
				others := []common.Address{}
				for _, m := range []int{0, 1, 2} {
					if m != sender {
						others = append(others, a[m])
					}
				}
				lists := [][]common.Address{{}, {others[0]}, {others[1]}, {others[0], others[1]}, {others[1], others[0]}, {zero}, {others[0], others[0]}}
				for _, l := range lists {
					for _, evals := range evx.ByteListsOfLen(len(l)) {
						add(sender, shmsg.NewPolyEval(e, l, evals), fmt.Sprintf("PolyEval eon=%d receivers=%d", e, len(l)))
					}
					add(sender, shmsg.NewAccusation(e, l), fmt.Sprintf("Accusation eon=%d accused=%d", e, len(l)))
					for _, evals := range evx.BigListsOfLen(len(l)) {
						add(sender, shmsg.NewApology(e, l, evals), fmt.Sprintf("Apology eon=%d accusers=%d", e, len(l)))
					}
				}
			}
		}
	}
	return out
}

func c14CheckE2E(u *appx.Universe, cs evx.E2ECase) (sig, msg, class string, res evx.E2EResult) {
	res = evx.RunE2E(u, cs)
	if res.Refused != "" {
		return "", "", "(b) application refuses: " + res.Refused, res
	}
	typ := "?"
	if len(res.Raw) > 0 {
		var ts []string
		for _, r := range res.Raw {
			ts = append(ts, typeOfName[r.Type])
		}
		typ = strings.Join(ts, "+")
	}
	if res.DecodeErr != "" {
		return "C14/e2e-emitted-event-undecodable/" + typ, fmt.Sprintf("%s: the application emitted an event the keyper side rejects: %s\nevents: %v", cs.Desc, res.DecodeErr, res.Raw), "", res
	}
	if strings.Join(res.Got, "\n") != strings.Join(res.Want, "\n") {
		return "C14/e2e-differs/" + typ, fmt.Sprintf("%s: decoded events differ from what was sent\nsent:    %v\ndecoded: %v\nevents: %v", cs.Desc, res.Want, res.Got, res.Raw), "", res
	}
	return "", "", "(b) " + typ + ": transaction -> DeliverTx events -> MakeEvent equals what was sent", res
}

func c14PartB(c *report.Ctx, u *appx.Universe, unit *int) {
	cases := e2eCases(u)
	sampledB := false
	c.Stats.Count("b_cases", 0)
	for i, cs := range cases {
		*unit++
		if *unit%c.NShards != c.Shard {
			continue
		}
		if c.Expired() {
			c.Stats.Cap(fmt.Sprintf("(b) budget reached after %d of %d cases", i, len(cases)))
			return
		}
		c.Stats.Evaluations++
		c.Stats.Count("b_cases", 1)
		sig, msg, class, res := c14CheckE2E(u, cs)
		if sig != "" {
			cs := cs
			c.Violation(sig, msg, c14Replay{Part: "b", Desc: cs.Desc, E2E: &cs})
			c.Stats.Class("(b) end-to-end comparison FAILS")
			continue
		}
		c.Stats.Class(class)
		if !sampledB && res.Refused == "" && strings.HasPrefix(cs.Desc, "Apology") && len(res.Got) > 0 && strings.Contains(res.Got[0], " ") {
			sampledB = true
			c.Stats.Sample(map[string]any{"part": "b", "case": cs.Desc, "decoded": res.Got})
		}
	}
}

// ---------------------------------------------------------------------------
// (c) + (d)

type baseEvent struct {
	Name string
	X    shutterevents.IEvent
}

// baseEvents are the valid events whose encodings are mutated. The first one of
// each type is addressed to the keyper under test in the running eon, so that a
// mutant that still decodes is meaningful to the keyper.
func baseEvents(s *evx.Sim, thorough bool) []baseEvent {
	u := s.U
	me := s.MyAddr()
	a := u.Addrs
	order1 := evx.BigPool()[2]
	g := evx.GammasPool(1)
	realCommit := g[len(g)-1] // degree 1: [7G, 7G]
	out := []baseEvent{
		{"CheckIn of member 0", &shutterevents.CheckIn{Sender: a[0], EncryptionPublicKey: evx.PubOf(u.Keys[0])}},
		{"BatchConfig index 2 for the same set", &shutterevents.BatchConfig{Keypers: []common.Address{a[0], me, a[2]}, ActivationBlockNumber: 5, Threshold: 2, KeyperConfigIndex: 2}},
		{"BatchConfigStarted index 1", &shutterevents.BatchConfigStarted{KeyperConfigIndex: 1}},
		{"EonStarted eon 2 for config 1", &shutterevents.EonStarted{Eon: 2, ActivationBlockNumber: 5, KeyperConfigIndex: 1}},
		{"PolyCommitment of member 0, degree 1", &shutterevents.PolyCommitment{Sender: a[0], Eon: s.Eon, Gammas: realCommit}},
		{"PolyEval of member 0 to me and member 2", &shutterevents.PolyEval{Sender: a[0], Eon: s.Eon, Receivers: []common.Address{me, a[2]}, EncryptedEvals: [][]byte{s.ValidEvalForMe, {0xab, 0xcd}}}},
		{"Accusation of member 0 against me and member 2", &shutterevents.Accusation{Sender: a[0], Eon: s.Eon, Accused: []common.Address{me, a[2]}}},
		{"Apology of member 0 to me and member 2", &shutterevents.Apology{Sender: a[0], Eon: s.Eon, Accusers: []common.Address{me, a[2]}, PolyEval: []*big.Int{big.NewInt(5), order1}}},
		// boundary shapes
		{"BatchConfig all zero, no keypers", &shutterevents.BatchConfig{}},
		{"EonStarted max values", &shutterevents.EonStarted{Eon: math.MaxUint64, ActivationBlockNumber: math.MaxUint64, KeyperConfigIndex: math.MaxUint64}},
		{"PolyCommitment empty", &shutterevents.PolyCommitment{Sender: common.Address{}, Eon: 0, Gammas: &shcrypto.Gammas{}}},
		{"PolyEval one receiver, empty eval", &shutterevents.PolyEval{Sender: a[2], Eon: s.Eon, Receivers: []common.Address{me}, EncryptedEvals: [][]byte{{}}}},
		{"PolyEval no receivers", &shutterevents.PolyEval{Sender: a[2], Eon: s.Eon}},
		{"Accusation empty", &shutterevents.Accusation{Sender: a[2], Eon: s.Eon}},
		{"Apology zero eval", &shutterevents.Apology{Sender: a[2], Eon: s.Eon, Accusers: []common.Address{me}, PolyEval: []*big.Int{big.NewInt(0)}}},
	}
	if thorough {
		g2 := evx.GammasPool(2)
		out = append(out,
			baseEvent{"CheckIn of the zero address", &shutterevents.CheckIn{Sender: common.Address{}, EncryptionPublicKey: evx.PubOf(u.Keys[3])}},
			baseEvent{"PolyCommitment degree 2 with identity and generator", &shutterevents.PolyCommitment{Sender: me, Eon: 1 << 63, Gammas: g2[4+3+9+5]}},
			baseEvent{"PolyCommitment degree 0 identity", &shutterevents.PolyCommitment{Sender: a[2], Eon: s.Eon, Gammas: g2[1]}},
			baseEvent{"BatchConfig max values, zero address keyper", &shutterevents.BatchConfig{Keypers: []common.Address{{}, a[0]}, ActivationBlockNumber: math.MaxUint64, Threshold: math.MaxUint64, KeyperConfigIndex: math.MaxUint64}},
			baseEvent{"Apology empty", &shutterevents.Apology{Sender: me, Eon: 0}},
			baseEvent{"PolyEval [∅,x]", &shutterevents.PolyEval{Sender: a[0], Eon: s.Eon, Receivers: []common.Address{a[2], me}, EncryptedEvals: [][]byte{{}, {0}}}},
		)
	}
	return out
}

// c14Spelling compares, attribute by attribute, the value spelled by an
// accepted input string (harness's own lenient reading) with the value the
// decoder returned (read from its canonical re-encoding).
func c14Spelling(in, re abcitypes.Event, typ string) (sig, msg string) {
	kinds := evx.AttrKinds[typ]
	for i, kind := range kinds {
		if i >= len(in.Attributes) || i >= len(re.Attributes) {
			return "C14/mis-decode-missing-attribute/" + typ, fmt.Sprintf("attribute %d is missing but the event was accepted", i)
		}
		rin, ok := evx.Reading(kind, in.Attributes[i].Value)
		if !ok {
			return "C14/mis-decode-accepts-unreadable-string/" + typ, fmt.Sprintf("attribute %d (%s) %q spells no %s value, yet it was accepted and decoded as %q", i, in.Attributes[i].Key, in.Attributes[i].Value, kind, re.Attributes[i].Value)
		}
		rout, ok := evx.Reading(kind, re.Attributes[i].Value)
		if !ok || rin != rout {
			return "C14/mis-decode-value-differs-from-string/" + typ, fmt.Sprintf("attribute %d (%s) %q spells %s but was decoded as %q", i, in.Attributes[i].Key, in.Attributes[i].Value, rin, re.Attributes[i].Value)
		}
	}
	return "", ""
}

// matchingPhases: the DKG phase(s) in which the keyper acts on an event type.
func matchingPhases(typ string, all bool) []evx.Phase {
	if all {
		return evx.Phases
	}
	switch typ {
	case "Accusation":
		return []evx.Phase{evx.Accusing}
	case "Apology":
		return []evx.Phase{evx.Apologizing}
	}
	return []evx.Phase{evx.Dealing}
}

var sampledD bool

// hand injects one decodable event into the keyper scenario and reports a
// crash as a violation.
func c14Hand(c *report.Ctx, s *evx.Sim, part, desc string, ev abcitypes.Event, typ string, p evx.Phase, last, restart bool) {
	c.Stats.Evaluations++
	c.Stats.Count("d_keyper_scenarios", 1)
	out := s.Hand(p, ev, last, restart)
	how := ""
	if restart {
		how = " (keyper restarted just before)"
	}
	class := fmt.Sprintf("(d) %s handed to the keyper in phase %s%s: %s", typ, p, how, out.Class())
	c.Stats.Class(class)
	if !sampledD && out.Kind == "ok" && out.DKG != s.BaseOutcome.DKG {
		sampledD = true
		c.Stats.Sample(map[string]any{"part": "d", "case": desc, "event": toWire(ev), "phase": p, "outcome": out.Class()})
	}
	if out.Kind == "panic" || out.Kind == "fatal" {
		w := toWire(ev)
		c.Violation("C14/keyper-crash/"+out.Where,
			fmt.Sprintf("%s\nevent %v handed to a member keyper in DKG phase %s (block %d) the keyper ends with: %s\n%s", desc, ev, p, s.PhaseHeight(p), out.Msg, out.Stack),
			c14Replay{Part: part, Desc: desc, Event: &w, Phase: string(p), Last: last, Restart: restart})
	}
}

func c14PartCD(c *report.Ctx, s *evx.Sim, unit *int) {
	bases := baseEvents(s, c.Thorough)
	seen := map[string]bool{} // decoded values already handed to the keyper, per type+phase
	var nMut, nDecodes int64
	sampled := 0
	for bi, b := range bases {
		typ := evx.TypeName(b.X)
		enc, pan := safeEncode(b.X)
		if pan != "" {
			c.Violation("C14/encoder-panics/"+typ, "MakeABCIEvent panics on "+b.Name+": "+pan, c14Replay{Part: "c", Desc: b.Name})
			continue
		}
		// the base event itself goes to the keyper too
		*unit++
		if *unit%c.NShards == c.Shard {
			for _, p := range matchingPhases(typ, true) {
				c14Hand(c, s, "d", "valid base event: "+b.Name, enc, typ, p, false, false)
			}
		}
		evx.Mutate(enc, allTypeNames, func(desc string, m abcitypes.Event) {
			*unit++
			if *unit%c.NShards != c.Shard {
				return
			}
			if c.Expired() {
				c.Stats.Cap(fmt.Sprintf("(c)/(d) budget reached in base event %d of %d", bi+1, len(bases)))
				return
			}
			nMut++
			c.Stats.Evaluations++
			full := fmt.Sprintf("base %q, mutation: %s", b.Name, desc)
			const h = 7
			x, err, pan := safeDecode(m, h)
			if pan != "" {
				w := toWire(m)
				c.Violation("C14/decoder-panics/"+typ, fmt.Sprintf("%s\nMakeEvent panics on %v: %s", full, m, pan), c14Replay{Part: "c", Desc: full, Event: &w, Height: h})
				c.Stats.Class("(c) decoder PANICS")
				return
			}
			if err != nil {
				c.Stats.Class("(c) " + typ + " mutant rejected with an error")
				// (d'): the undecodable mutant goes to the keyper too (it has to report
				// the error and go on); once per kind of decoding error and type
				k := "rejected|" + typ + "|" + numRe.ReplaceAllString(firstWords(err.Error(), 8), "N")
				if !seen[k] {
					seen[k] = true
					c14Hand(c, s, "d", full+" (undecodable: "+err.Error()+")", m, typ+" (undecodable)", matchingPhases(typ, false)[0], false, false)
				}
				return
			}
			nDecodes++
			v1 := evx.Norm(x)
			dtyp := evx.TypeName(x)
			re, pan := safeEncode(x)
			var v2 string
			if pan == "" {
				var x2 shutterevents.IEvent
				var err2 error
				x2, err2, pan = safeDecode(re, h)
				if pan == "" {
					if err2 != nil {
						v2 = "error: " + err2.Error()
					} else {
						v2 = evx.Norm(x2)
					}
				}
			}
			if pan != "" {
				w := toWire(m)
				c.Violation("C14/reencode-panics/"+dtyp, fmt.Sprintf("%s\nre-encoding/decoding the decoded value %s panics: %s", full, v1, pan), c14Replay{Part: "c", Desc: full, Event: &w, Height: h})
				return
			}
			if v1 != v2 {
				w := toWire(m)
				c.Violation("C14/mis-decode-unstable/"+dtyp,
					fmt.Sprintf("%s\nthe mutated event %v decodes without error to\n  %s\nbut re-encoding that value and decoding again gives\n  %s", full, m, v1, v2),
					c14Replay{Part: "c", Desc: full, Event: &w, Height: h})
				c.Stats.Class("(c) mutant decodes to an UNSTABLE value")
				return
			}
			// the accepted strings must spell the value that was returned
			if sig, msg := c14Spelling(m, re, dtyp); sig != "" {
				w := toWire(m)
				c.Violation(sig, fmt.Sprintf("%s\nthe mutated event %v decodes without error to\n  %s\n%s", full, m, v1, msg), c14Replay{Part: "c", Desc: full, Event: &w, Height: h})
				c.Stats.Class("(c) mutant is MIS-DECODED")
				return
			}
			orig := evx.Norm(evx.WithHeight(b.X, h))
			if v1 == orig {
				c.Stats.Class("(c) " + typ + " mutant decodes to the original value (lenient spelling / ignored part)")
			} else {
				c.Stats.Class("(c) " + typ + " mutant decodes to a different value, stable under re-encoding")
				if sampled < 1 && strings.Contains(desc, "subst") {
					sampled++
					c.Stats.Sample(map[string]any{"part": "c", "mutation": full, "decoded": v1, "original": orig})
				}
			}
			// (d): the decodable mutant goes to the keyper
			for _, p := range matchingPhases(dtyp, c.Thorough) {
				k := string(p) + "|" + v1
				if seen[k] {
					c.Stats.Count("d_mutants_with_value_already_handed", 1)
					continue
				}
				seen[k] = true
				c14Hand(c, s, "d", full, m, dtyp, p, false, false)
			}
		})
	}
	c.Stats.Count("c_mutants", nMut)
	c.Stats.Count("c_mutants_that_decode", nDecodes)
}

// oddEvents yields the structurally odd but decodable events of part (d).
func oddEvents(s *evx.Sim, thorough bool, yield func(typ, desc string, x shutterevents.IEvent)) {
	u := s.U
	me := s.MyAddr()
	a := u.Addrs
	senders := []common.Address{a[0], me, a[2], a[4], {}}
	eons := []uint64{s.Eon, 0, s.Eon + 1, math.MaxUint64}
	lists := evx.AddrLists([]common.Address{me, a[0], a[2], a[4], {}}, 2)
	if thorough {
		lists = append(lists, []common.Address{me, a[0], a[2]}, []common.Address{a[0], a[2], me}, []common.Address{a[4], {}, me})
	}
	x := []byte{0xab}
	valid := s.ValidEvalForMe
	evalLists := [][][]byte{nil, {{}}, {x}, {valid}, {{}, x}, {valid, x}, {x, valid}, {x, x, x}}
	order := new(big.Int).Add(evx.BigPool()[2], big.NewInt(1))
	bigLists := [][]*big.Int{nil, {big.NewInt(0)}, {big.NewInt(1)}, {evx.BigPool()[2]}, {big.NewInt(0), big.NewInt(1)}, {order}, {big.NewInt(1), big.NewInt(1), big.NewInt(1)}, {evx.BigPool()[3]}, {big.NewInt(1), evx.BigPool()[4]}, {evx.BigPool()[5]}}
	gammas := evx.GammasPool(2)
	for si, snd := range senders {
		for ei, eon := range eons {
			// full product for the running eon; for the other eons (which the
			// keyper drops at the eon lookup) only the first sender, unless thorough
			if !thorough && ei > 0 && si > 0 {
				continue
			}
			for _, l := range lists {
				for _, ev := range evalLists {
					yield("PolyEval", fmt.Sprintf("PolyEval sender#%d eon=%d receivers=%d evals=%d", si, eon, len(l), len(ev)),
						&shutterevents.PolyEval{Sender: snd, Eon: eon, Receivers: l, EncryptedEvals: ev})
				}
				for _, bl := range bigLists {
					yield("Apology", fmt.Sprintf("Apology sender#%d eon=%d accusers=%d evals=%d", si, eon, len(l), len(bl)),
						&shutterevents.Apology{Sender: snd, Eon: eon, Accusers: l, PolyEval: bl})
				}
				yield("Accusation", fmt.Sprintf("Accusation sender#%d eon=%d accused=%d", si, eon, len(l)),
					&shutterevents.Accusation{Sender: snd, Eon: eon, Accused: l})
			}
			for gi, g := range gammas {
				yield("PolyCommitment", fmt.Sprintf("PolyCommitment sender#%d eon=%d gammas#%d (len %d)", si, eon, gi, len(*g)),
					&shutterevents.PolyCommitment{Sender: snd, Eon: eon, Gammas: g})
			}
		}
	}
	// set-up events with boundary values, one at a time
	for _, v := range evx.Uint64Pool() {
		yield("BatchConfigStarted", fmt.Sprintf("BatchConfigStarted idx=%d", v), &shutterevents.BatchConfigStarted{KeyperConfigIndex: v})
		for _, w := range evx.Uint64Pool() {
			for _, idx := range []uint64{0, 1, 2, math.MaxUint64} {
				yield("EonStarted", fmt.Sprintf("EonStarted eon=%d act=%d idx=%d", v, w, idx), &shutterevents.EonStarted{Eon: v, ActivationBlockNumber: w, KeyperConfigIndex: idx})
			}
			for _, ks := range [][]common.Address{nil, {me}, {a[0], me, a[2]}, {a[4]}, {me, me}} {
				for _, idx := range []uint64{1, 2, math.MaxUint64} {
					yield("BatchConfig", fmt.Sprintf("BatchConfig act=%d thr=%d keypers=%d idx=%d", v, w, len(ks), idx),
						&shutterevents.BatchConfig{ActivationBlockNumber: v, Threshold: w, Keypers: ks, KeyperConfigIndex: idx})
				}
			}
		}
	}
	for _, snd := range senders {
		for _, k := range evx.ECIESPool(u)[:2] {
			yield("CheckIn", "CheckIn", &shutterevents.CheckIn{Sender: snd, EncryptionPublicKey: k})
		}
	}
}

func c14PartD(c *report.Ctx, s *evx.Sim, unit *int) {
	n := 0
	capped := false
	oddEvents(s, c.Thorough, func(typ, desc string, x shutterevents.IEvent) {
		*unit++
		if *unit%c.NShards != c.Shard || capped {
			return
		}
		if c.Expired() {
			c.Stats.Cap(fmt.Sprintf("(d) budget reached after %d constructed events in this worker", n))
			capped = true
			return
		}
		n++
		ev, pan := safeEncode(x)
		if pan != "" {
			c.Violation("C14/encoder-panics/"+typ, "MakeABCIEvent panics on "+evx.Norm(x)+": "+pan, c14Replay{Part: "d", Desc: desc})
			return
		}
		// it must be decodable to belong to (d); a decoder that reports the odd
		// shape as an error has dealt with it
		_, err, pan := safeDecode(ev, 1)
		if pan != "" {
			w := toWire(ev)
			c.Violation("C14/decoder-panics/"+typ, fmt.Sprintf("MakeEvent panics on %v: %s", ev, pan), c14Replay{Part: "c", Desc: desc, Event: &w, Height: 1})
			return
		}
		if err != nil {
			c.Stats.Evaluations++
			c.Stats.Class("(d) constructed " + typ + " is reported as an error by the decoder (never reaches the keyper)")
			return
		}
		for _, p := range matchingPhases(typ, c.Thorough) {
			c14Hand(c, s, "d", "constructed event: "+desc, ev, typ, p, false, false)
		}
		if c.Thorough {
			// in the matching phase also as the last event of the block, and handed to
			// a keyper that was restarted just before (not in "dealing": a keyper
			// restarted before it has the commitments loses the DKG, see the report)
			for _, p := range matchingPhases(typ, false) {
				c14Hand(c, s, "d", "constructed event (last in block): "+desc, ev, typ, p, true, false)
				if p != evx.Dealing {
					c14Hand(c, s, "d", "constructed event (keyper restarted before): "+desc, ev, typ, p, false, true)
				}
			}
		}
	})
	c.Stats.Count("d_constructed_events", int64(n))
}

// ---------------------------------------------------------------------------
// (e) config accepted + eon started, as the application emits them in one
// transaction, with boundary thresholds. Thresholds whose 32-bit truncation is
// negative or huge would make the keyper allocate without bound and are left
// out (see "not covered").

func seqCases(s *evx.Sim) (out [][]shutterevents.IEvent, descs []string) {
	u := s.U
	me := s.MyAddr()
	a := u.Addrs
	for _, ks := range [][]common.Address{{a[0], me, a[2]}, {me}, {me, a[0]}, {a[0], a[2]}, nil, {me, me, a[0]}, {a[0], me, a[2], a[4]}} {
		for _, thr := range []uint64{0, 1, 2, 3, 4, 1 << 32, 1 << 63, 1<<32 + 2} {
			for _, eon := range []uint64{s.Eon + 1, s.Eon, 0, math.MaxUint64} {
				out = append(out, []shutterevents.IEvent{
					&shutterevents.BatchConfig{Keypers: ks, Threshold: thr, KeyperConfigIndex: 2, ActivationBlockNumber: 9},
					&shutterevents.EonStarted{Eon: eon, KeyperConfigIndex: 2, ActivationBlockNumber: 9},
				})
				descs = append(descs, fmt.Sprintf("BatchConfig(index 2, %d keypers, threshold %d) then EonStarted(eon %d, config 2)", len(ks), thr, eon))
			}
		}
	}
	return out, descs
}

func c14RunSeq(s *evx.Sim, p evx.Phase, evs []abcitypes.Event) evx.Outcome {
	return s.HandSeq(p, evs, false)
}

func c14PartE(c *report.Ctx, s *evx.Sim, unit *int) {
	cases, descs := seqCases(s)
	for i, cs := range cases {
		*unit++
		if *unit%c.NShards != c.Shard {
			continue
		}
		if c.Expired() {
			c.Stats.Cap("(e) budget reached")
			return
		}
		var evs []abcitypes.Event
		var ws []wireEvent
		for _, x := range cs {
			ev := x.MakeABCIEvent()
			evs = append(evs, ev)
			ws = append(ws, toWire(ev))
		}
		for _, p := range []evx.Phase{evx.Dealing, evx.Apologizing} {
			c.Stats.Evaluations++
			c.Stats.Count("e_sequences", 1)
			out := c14RunSeq(s, p, evs)
			c.Stats.Class("(e) config+eon-start sequence in phase " + string(p) + ": " + out.Class())
			if out.Kind == "panic" || out.Kind == "fatal" {
				c.Violation("C14/keyper-crash/"+out.Where,
					fmt.Sprintf("%s\nboth events decode without error; handled by a member keyper (first event in block %d) the keyper ends with: %s\n%s", descs[i], s.PhaseHeight(p), out.Msg, out.Stack),
					c14Replay{Part: "e", Desc: descs[i], Events: ws, Phase: string(p)})
			}
		}
	}
}

// ---------------------------------------------------------------------------

func c14() *report.Check {
	return &report.Check{
		Level: "exploration",
		Rule: "exhaustive over declared pools: (a) cartesian field pools per event type x 3 heights through MakeABCIEvent/MakeEvent; (b) the same values as signed txs through the real app, DeliverTx events decoded and compared; " +
			"(c) every attribute-list / value-string / type-string mutation of valid encoded events: no panic, successful decodes stable under re-encoding; " +
			"(d) every decodable mutant and a cartesian pool of odd events injected into a closed loop real app <-> real keyper (SyncAppWithDB..HandleEvent on minipg) in the matching DKG phase, scenario run to finalisation: no panic, no log.Fatal; " +
			"(e) config+eon-start sequences with boundary thresholds. classes = per part, event type, phase and how the keyper scenario ended",
		Assumptions: []string{
			"nil and empty slices are the same value (the codec cannot distinguish them and the statement speaks of 'empty lists'); curve points are compared by their compressed encoding, big integers by value, ECIES keys by coordinates, curve and parameter set",
			"polynomial evaluations are non-negative (the application builds them with SetBytes); a nil *Gammas is not a value the application emits and is not enumerated",
			"(a) enumerates receiver/eval and accuser/eval lists of equal length only (the application refuses other messages); unequal lengths are exercised in (d)",
			"(c) does not demand that every non-canonical spelling is an error (the decoder accepts unprefixed/uppercase hex in address lists, trailing base64 bits, extra attributes); it demands no panic and that a successful decode is a fixed point of encode-then-decode",
			"(d) 'crash' = panic or log.Fatal (os.Exit) anywhere in SyncAppWithDB/SendShutterMessages; an error returned by SyncAppWithDB is recorded as an outcome class, not a violation (the statement allows malformed data to be 'reported as an error')",
			"(d) the keyper under test is member 1 of a 3-keyper, threshold-2 eon, DKG phase length 3 blocks; the two co-keypers are scripted from real puredkg instances and do not react to the injected event; the keyper's own randomness (its polynomial, ECIES ephemeral keys) comes from crypto/rand and does not enter any observation",
			"PostgreSQL semantics as implemented by minipg; single-session serial execution",
			"zerolog's Fatal is intercepted by a hook (panic instead of os.Exit) so that a process exit is observable; all other log output is disabled",
		},
		Shards: func(bool) int { return 16 },
		Budget: func(t bool) time.Duration {
			if t {
				return 8 * time.Minute
			}
			return 45 * time.Second
		},
		Trivial: func(cl string) bool { return false },
		Run: func(c *report.Ctx) {
			u := appx.NewUniverse(5)
			unit := 0
			c14PartA(c, u, &unit)
			c14PartB(c, u, &unit)
			s := evx.NewSim()
			if c.Shard == 0 {
				c.Stats.SetExtra("keyper_scenario", map[string]any{
					"undisturbed_outcome": s.BaseOutcome.Class(), "members": 3, "threshold": 2, "phase_length_blocks": s.L,
					"eon_start_block": s.EonHeight, "injection_blocks": map[string]int64{"dealing": s.PhaseHeight(evx.Dealing), "accusing": s.PhaseHeight(evx.Accusing), "apologizing": s.PhaseHeight(evx.Apologizing)},
					"last_block": s.EndHeight,
				})
			}
			c14PartE(c, s, &unit)
			c14PartCD(c, s, &unit)
			c14PartD(c, s, &unit)
		},
		Replay: func(c *report.Ctx, raw json.RawMessage) string {
			var rp c14Replay
			if err := json.Unmarshal(raw, &rp); err != nil {
				return "bad replay: " + err.Error()
			}
			switch rp.Part {
			case "a":
				x, err, pan := safeDecode(rp.Event.event(), rp.Height)
				if pan != "" {
					return "MakeEvent panics: " + pan
				}
				if err != nil {
					return fmt.Sprintf("MakeEvent rejects the valid event: %v", err)
				}
				if g := evx.Norm(x); g != rp.Want {
					return fmt.Sprintf("decoded value differs\nsent:    %s\ndecoded: %s", rp.Want, g)
				}
				return ""
			case "b":
				sig, msg, _, _ := c14CheckE2E(appx.NewUniverse(5), *rp.E2E)
				if sig != "" {
					return msg
				}
				return ""
			case "c":
				if rp.Event == nil {
					return ""
				}
				x, err, pan := safeDecode(rp.Event.event(), rp.Height)
				if pan != "" {
					return "MakeEvent panics: " + pan
				}
				if err != nil {
					return ""
				}
				re, pan := safeEncode(x)
				if pan != "" {
					return "re-encoding panics: " + pan
				}
				x2, err2, pan := safeDecode(re, rp.Height)
				if pan != "" {
					return "decoding the re-encoded value panics: " + pan
				}
				if err2 != nil {
					return fmt.Sprintf("decoded to %s, whose re-encoding is rejected: %v", evx.Norm(x), err2)
				}
				if evx.Norm(x) != evx.Norm(x2) {
					return fmt.Sprintf("decoded to %s, re-encoded and decoded to %s", evx.Norm(x), evx.Norm(x2))
				}
				if sig, msg := c14Spelling(rp.Event.event(), re, evx.TypeName(x)); sig != "" {
					return fmt.Sprintf("decoded to %s: %s", evx.Norm(x), msg)
				}
				return ""
			case "d":
				s := evx.NewSim()
				out := s.Hand(evx.Phase(rp.Phase), rp.Event.event(), rp.Last, rp.Restart)
				if out.Kind == "panic" || out.Kind == "fatal" {
					return fmt.Sprintf("keyper crashes: %s in %s\n%s", out.Msg, out.Where, out.Stack)
				}
				return ""
			case "e":
				s := evx.NewSim()
				var evs []abcitypes.Event
				for _, w := range rp.Events {
					evs = append(evs, w.event())
				}
				out := s.HandSeq(evx.Phase(rp.Phase), evs, false)
				if out.Kind == "panic" || out.Kind == "fatal" {
					return fmt.Sprintf("keyper crashes: %s in %s\n%s", out.Msg, out.Where, out.Stack)
				}
				return ""
			}
			return "unknown replay part " + rp.Part
		},
	}
}

var numRe = regexp.MustCompile(`[0-9a-fA-Fx]{3,}|[0-9]+`)

func firstWords(s string, n int) string {
	f := strings.Fields(s)
	if len(f) > n {
		f = f[:n]
	}
	return strings.Join(f, " ")
}
