package main

import (
	"bytes"
	"encoding/json"
	"fmt"
	"runtime"
	"sort"
	"sync/atomic"

	"github.com/ethereum/go-ethereum/common"
	abcitypes "github.com/tendermint/tendermint/abci/types"
	tmcrypto "github.com/tendermint/tendermint/proto/tendermint/crypto"

	"github.com/shutter-network/rolling-shutter/rolling-shutter/app"

	"verif/explore"
	"verif/harness/appx"
	"verif/report"
)

// C12 — validator updates always lead to the intended, live validator set.
//
// (a) BFS over histories of check-ins (incl. key changes after the fork),
// config votes, block-seen reports and block ends on the real app. A reference
// Tendermint validator set is kept next to the app and every EndBlock's
// ValidatorUpdates are applied to it with Tendermint's rules (sorted, no
// duplicates, removals must exist, non-empty result). The resulting set is
// compared with an intended set computed by an independent reference that only
// looks at what the chain made observable (accepted/started config events,
// accepted check-in transactions).
// (b) DiffPowermaps over all ordered pairs of small power maps.

// refVal is the reference model riding along every BFS state.
type refVal struct {
	Configs    []refCfg
	Identities map[common.Address]string // accepted validator key per keyper
	Valset     map[string]int64          // reference tendermint validator set
	Seen       map[common.Address]uint64 // accepted block-seen reports (latest block number per keyper)
	ForkOn     bool
	ForkHeight int64
	Height     int64 // height of the block that is open (1 + number of blocks closed)
}

type refCfg struct {
	Keypers   []common.Address
	Threshold uint64
	Index     uint64
	Act       uint64 // activation block number
	Started   bool
	Quorum    bool // check-in quorum was met at some block end after the start
}

type c12node struct {
	node
	ref *refVal
	pre []appx.Op // scripted ops that led to the initial state this node descends from
}

func (r *refVal) clone() *refVal {
	n := &refVal{ForkOn: r.ForkOn, ForkHeight: r.ForkHeight, Height: r.Height, Identities: map[common.Address]string{}, Valset: map[string]int64{}, Seen: map[common.Address]uint64{}}
	n.Configs = append(n.Configs, r.Configs...)
	for k, v := range r.Seen {
		n.Seen[k] = v
	}
	for k, v := range r.Identities {
		n.Identities[k] = v
	}
	for k, v := range r.Valset {
		n.Valset[k] = v
	}
	return n
}

func quorum(n int, t uint64) uint64 {
	// max(t, n - ceil(n/3) + 1)
	ceil := (n + 2) / 3
	d := uint64(n - ceil + 1)
	if t > d {
		return t
	}
	return d
}

// intended computes the set the statement describes.
func (r *refVal) intended(genesis map[string]int64) map[string]int64 {
	for i := len(r.Configs) - 1; i >= 0; i-- {
		c := r.Configs[i]
		if c.Started && c.Quorum {
			out := map[string]int64{}
			for _, k := range c.Keypers {
				if key, ok := r.Identities[k]; ok {
					out[key] += 10
				} else {
					out[app.NonExistentValidator.Ed25519pubkey] += 10
				}
			}
			return out
		}
	}
	return genesis
}

// applyUpdates folds validator updates the way Tendermint's
// ValidatorSet.UpdateWithChangeSet does, returning an error for what Tendermint
// would reject.
func applyUpdates(set map[string]int64, ups []abcitypes.ValidatorUpdate) (map[string]int64, error) {
	out := map[string]int64{}
	for k, v := range set {
		out[k] = v
	}
	var prev []byte
	for i, u := range ups {
		key := u.PubKey.GetEd25519()
		if key == nil {
			return nil, fmt.Errorf("update %d has no ed25519 key", i)
		}
		if i > 0 {
			c := bytes.Compare(prev, key)
			if c == 0 {
				return nil, fmt.Errorf("duplicate update for key %x", key)
			}
			if c > 0 {
				return nil, fmt.Errorf("updates not sorted at %d", i)
			}
		}
		prev = key
		if u.Power < 0 {
			return nil, fmt.Errorf("negative power for %x", key)
		}
		if u.Power == 0 {
			if _, ok := out[string(key)]; !ok {
				return nil, fmt.Errorf("removal of validator %x that is not in the set", key)
			}
			delete(out, string(key))
			continue
		}
		out[string(key)] = u.Power
	}
	var total int64
	for _, p := range out {
		total += p
	}
	if total <= 0 {
		return nil, fmt.Errorf("validator set would become empty")
	}
	return out, nil
}

func setString(m map[string]int64) string {
	var ks []string
	for k := range m {
		ks = append(ks, k)
	}
	sort.Strings(ks)
	var sb bytes.Buffer
	for _, k := range ks {
		fmt.Fprintf(&sb, "%x:%d ", k[:4], m[k])
	}
	return sb.String()
}

type c12cfg struct {
	N, T    int
	Fork    bool
	Foreign bool
	// ForkHeight: height at which the check-in fork becomes active (with Fork)
	ForkHeight int64
	// Shape of the candidate configuration: "" = rotation (same size and threshold),
	// "grow" = the genesis keypers plus two more with threshold T+1, "shrink" = the
	// second genesis keyper alone with threshold 1 (needs N >= 2): the check-in quorum
	// of the new configuration differs from that of the old one.
	Shape string
}

func c12World(cf c12cfg) (*appx.World, appx.Genesis, []appx.Op) {
	total := cf.N + 1
	u := appx.NewUniverse(total + 2)
	members := make([]int, cf.N)
	for i := range members {
		members[i] = i
	}
	// candidate 0: rotate the set (drop keyper 0, add the extra participant N)
	rot := append(append([]int{}, members[1:]...), cf.N)
	t0 := uint64(cf.T)
	switch cf.Shape {
	case "grow":
		rot = append(append([]int{}, members...), cf.N, cf.N+1)
		t0 = uint64(cf.T + 1)
	case "shrink":
		rot = []int{1}
		t0 = 1
	}
	// candidate 1: rotate once more (drop the next keyper, add participant N+1)
	rot2 := append(append([]int{}, rot[1:]...), cf.N+1)
	w := &appx.World{U: u, Candidates: []appx.Candidate{
		{Members: rot, Threshold: t0, IndexPlus: 1, Act: 5},
		{Members: rot2, Threshold: uint64(cf.T), IndexPlus: 1, Act: 5},
	}, SeenBlocks: []uint64{5, 4}} // 4: a report below every activation block (an older report delivered late)
	g := appx.Genesis{Members: members, Threshold: uint64(cf.T), ForkEnabled: cf.Fork, ForkHeight: cf.ForkHeight}
	var ops []appx.Op
	last := cf.N
	if cf.Shape == "grow" {
		last = cf.N + 1
	}
	for s := 0; s <= last; s++ {
		ops = append(ops, op("checkin", s, 0, 0))
		if cf.Fork {
			ops = append(ops, op("checkin", s, 1, 0))
		}
		if s == 1 || s == cf.N {
			// a validator key shared with keyper 0
			ops = append(ops, op("checkin", s, 2, 0))
		}
		ops = append(ops, op("seen", s, 0, 0), op("cfg", s, 0, 0))
		if s == 0 {
			ops = append(ops, op("seen", s, 1, 0))
		}
		if s == 1 {
			// a check-in that must be refused (malformed encryption key) with a validator
			// key of its own: it must not count towards the quorum nor name a validator
			ops = append(ops, op("checkin", s, 1, 1))
		}
	}
	ops = append(ops, endblock)
	return w, g, ops
}

type c12Replay struct {
	Cfg c12cfg    `json:"cfg"`
	Ops []appx.Op `json:"ops"`
}

// c12Step applies one op to app and reference; returns a violation message.
func c12Step(w *appx.World, genesisSet map[string]int64, n c12node, o appx.Op, st *report.Stats) (c12node, string) {
	a := appx.Clone(n.a)
	ref := n.ref.clone()
	res := w.Step(a, o, n.nonce())
	next := c12node{node{a, n.nops + 1}, ref, n.pre}
	if res.Deliver != nil {
		if o.Kind == "checkin" {
			// whether a check-in counts is decided by the reference: the sender must be a
			// keyper of some accepted configuration, and a repeated check-in (key change)
			// only counts once the check-in fork is active (enabled and the open block's
			// height has reached the fork height)
			sender := w.U.Addrs[o.Sender]
			member := false
			for _, c := range ref.Configs {
				for _, k := range c.Keypers {
					member = member || k == sender
				}
			}
			_, again := ref.Identities[sender]
			want := member && (!again || (ref.ForkOn && ref.Height >= ref.ForkHeight)) && o.B == 0 // B=1: malformed encryption key
			if got := res.Deliver.Code == 0; got != want {
				return next, fmt.Sprintf("check-in of participant %d in block %d (member of an accepted configuration: %v, checked in before: %v, fork enabled: %v at height %d) is %s", o.Sender, ref.Height, member, again, ref.ForkOn, ref.ForkHeight, map[bool]string{true: "accepted although it must not count", false: "refused (" + res.Deliver.Log + ") although it must count"}[got])
			}
		}
		if res.Deliver.Code != 0 {
			return next, ""
		}
		switch o.Kind {
		case "checkin":
			ref.Identities[w.U.Addrs[o.Sender]] = string(w.U.ValKey(o.Sender, o.A))
		case "seen":
			// a keyper that reported block b has seen every block up to b: a lower report
			// delivered later takes nothing back
			if blk := w.SeenBlocks[o.A]; blk > ref.Seen[w.U.Addrs[o.Sender]] {
				ref.Seen[w.U.Addrs[o.Sender]] = blk
			}
		case "cfg":
			for _, ev := range res.Deliver.Events {
				if ev.Type == "shutter.batch-config" {
					c := w.Candidates[o.A]
					last := ref.Configs[len(ref.Configs)-1]
					ref.Configs = append(ref.Configs, refCfg{Keypers: w.U.AddrsOf(c.Members), Threshold: c.Threshold, Index: last.Index + uint64(c.IndexPlus), Act: c.Act})
				}
			}
		}
		return next, ""
	}
	ref.Height++
	// block end: which configurations start now is decided by the reference itself
	// (a configuration starts once a threshold of the preceding configuration's
	// keypers reported a main-chain block at or past its activation block; the
	// genesis configuration precedes itself) and compared with the application's events
	var wantStart []uint64
	for i := range ref.Configs {
		c := ref.Configs[i]
		if c.Started {
			continue
		}
		prev := ref.Configs[0]
		if i > 0 {
			prev = ref.Configs[i-1]
		}
		var cnt uint64
		for _, k := range prev.Keypers {
			if blk, ok := ref.Seen[k]; ok && blk >= c.Act {
				cnt++
			}
		}
		if cnt >= prev.Threshold {
			wantStart = append(wantStart, c.Index)
		}
	}
	var gotStart []uint64
	for _, ev := range res.End.Events {
		if ev.Type == "shutter.batch-config-started" {
			var idx uint64
			fmt.Sscanf(string(ev.Attributes[0].Value), "%d", &idx)
			gotStart = append(gotStart, idx)
		}
	}
	if fmt.Sprint(wantStart) != fmt.Sprint(gotStart) {
		return next, fmt.Sprintf("configurations started at this block end: %v, but a threshold of the preceding configuration's keypers has reported a block at or past the activation block exactly for %v (block reports %v)", gotStart, wantStart, len(ref.Seen))
	}
	for _, ev := range res.End.Events {
		if ev.Type == "shutter.batch-config-started" {
			var idx uint64
			fmt.Sscanf(string(ev.Attributes[0].Value), "%d", &idx)
			found := false
			for i := range ref.Configs {
				if ref.Configs[i].Index == idx && !ref.Configs[i].Started {
					ref.Configs[i].Started = true
					found = true
					break
				}
			}
			if !found {
				return next, fmt.Sprintf("config-started event for unknown or already started config index %d", idx)
			}
		}
	}
	for i := range ref.Configs {
		c := &ref.Configs[i]
		if c.Started && !c.Quorum {
			var cnt uint64
			for _, k := range c.Keypers {
				if _, ok := ref.Identities[k]; ok {
					cnt++
				}
			}
			if cnt >= quorum(len(c.Keypers), c.Threshold) {
				c.Quorum = true
			}
		}
	}
	before := setString(ref.Valset)
	newSet, err := applyUpdates(ref.Valset, res.End.ValidatorUpdates)
	if err != nil {
		return next, fmt.Sprintf("Tendermint would reject the validator updates %v: %v (set before: %s)", res.End.ValidatorUpdates, err, before)
	}
	ref.Valset = newSet
	want := ref.intended(genesisSet)
	if setString(newSet) != setString(want) {
		return next, fmt.Sprintf("validator set after block end is {%s}, intended {%s} (updates %v)", setString(newSet), setString(want), res.End.ValidatorUpdates)
	}
	if len(res.End.ValidatorUpdates) > 0 {
		st.Class(fmt.Sprintf("block end with %d validator updates", len(res.End.ValidatorUpdates)))
		// liveness: checked-in keypers hold > 2/3 of the power after the change
		var total, real int64
		for k, p := range newSet {
			total += p
			if k != app.NonExistentValidator.Ed25519pubkey {
				real += p
			}
		}
		if 3*real <= 2*total {
			return next, fmt.Sprintf("after the change checked-in keypers hold %d of %d power (not > 2/3): {%s}", real, total, setString(newSet))
		}
	} else {
		st.Class("block end without validator update")
	}
	return next, ""
}

// c12Parallel: the large configurations expand each BFS level on several goroutines
// (12-30 configurations are spread over 16 worker processes; the largest would
// otherwise decide the wall time alone).
func c12Parallel(cf c12cfg) int {
	if cf.N >= 3 && cf.Fork {
		return 6
	}
	if cf.N >= 3 {
		return 2
	}
	return 1
}

// c12Depth: the configurations added for other candidate shapes and a later fork
// height are searched one level less deep than the basic ones.
func c12Depth(cf c12cfg, depth int) int {
	if cf.Shape != "" || cf.ForkHeight != 0 {
		return depth - 1
	}
	return depth
}

func c12Key(n c12node) string {
	// the reference is a function of the observable history; two histories that
	// reach the same app state but different reference states are kept apart.
	b, _ := json.Marshal(n.ref.Configs)
	return appx.StateKey(n.a) + "|" + string(b) + "|" + setString(n.ref.Valset) + fmt.Sprint(len(n.ref.Identities))
}

func c12() *report.Check {
	return &report.Check{
		Level: "model_checking",
		Rule:  "BFS over check-in (also one that must be refused for its malformed encryption key) / config-vote / block-seen (also a lower report after a higher one) / block-end histories on the real app for every (n,t) in the bound, fork on and off; ValidatorUpdates of every EndBlock folded over a reference Tendermint validator set and compared with an independently computed intended set; plus DiffPowermaps over all ordered pairs of power maps on a 3-key universe. Classes = kinds of block end (number of updates) and diff shapes",
		Assumptions: []string{
			"Tendermint's update rules modelled from types.ValidatorSet.UpdateWithChangeSet: sorted by key, no duplicates, removals must exist, result non-empty",
			"validator keys are the two deterministic ed25519 keys per participant; nobody checks in with the placeholder key",
		},
		Shards:  func(bool) int { return 16 },
		Budget:  minutes(3, 20),
		Trivial: func(c string) bool { return c == "block end without validator update" },
		Run: func(c *report.Ctx) {
			var cfgs []c12cfg
			maxN, depth := 3, 8
			if c.Thorough {
				maxN, depth = 5, 10
			}
			for n := 1; n <= maxN; n++ {
				for t := 1; t <= n; t++ {
					for _, fork := range []bool{false, true} {
						cfgs = append(cfgs, c12cfg{N: n, T: t, Fork: fork})
					}
					// the check-in fork becomes active at height 2 (key changes before, at and
					// after that block)
					cfgs = append(cfgs, c12cfg{N: n, T: t, Fork: true, ForkHeight: 2})
					// a candidate whose size and threshold (hence check-in quorum) differ
					cfgs = append(cfgs, c12cfg{N: n, T: t, Shape: "grow"})
					if n >= 2 {
						cfgs = append(cfgs, c12cfg{N: n, T: t, Shape: "shrink"})
					}
				}
			}
			for ci, cf := range cfgs {
				if ci%c.NShards != c.Shard {
					continue
				}
				cf := cf
				w, g, alphabet := c12World(cf)
				a, _ := w.U.NewApp(g)
				genesisSet := map[string]int64{string(appx.GenesisValidator): 10}
				ref := &refVal{ForkOn: cf.Fork, ForkHeight: cf.ForkHeight, Height: 1, Identities: map[common.Address]string{}, Seen: map[common.Address]uint64{}, Valset: map[string]int64{string(appx.GenesisValidator): 10},
					Configs: []refCfg{{Keypers: w.U.AddrsOf(g.Members), Threshold: g.Threshold, Index: 0}}}
				if p := c12Parallel(cf); p > 2 {
					runtime.GOMAXPROCS(p)
				}
				var b *explore.BFS[c12node]
				b = &explore.BFS[c12node]{
					Key: c12Key, MaxDepth: c12Depth(cf, depth), Deadline: c.Deadline, KeepPaths: true, Parallel: c12Parallel(cf),
					Expand: func(n c12node, d int, path []string, emit func(string, c12node)) {
						for _, o := range alphabet {
							next, msg := c12Step(w, genesisSet, n, o, c.Stats)
							atomic.AddInt64(&c.Stats.Traces, 1)
							if msg != "" {
								c.Violation("C12/validator-set-not-as-intended", fmt.Sprintf("n=%d t=%d fork=%v after %v then %s:\n%s", cf.N, cf.T, cf.Fork, path, o, msg),
									c12Replay{Cfg: cf, Ops: append(append(append([]appx.Op{}, n.pre...), parseOps(path)...), o)})
								b.Stop = true
								return
							}
							emit(opJSON(o), next)
						}
					},
				}
				// second initial state: the genesis config fully live (everybody reported a
				// block and checked in, block closed), built through the same checked step.
				inits := []c12node{{node{a, 0}, ref, nil}}
				live := inits[0]
				var seedOps []appx.Op
				for s := 0; s < cf.N; s++ {
					seedOps = append(seedOps, op("seen", s, 0, 0), op("checkin", s, 0, 0))
				}
				seedOps = append(seedOps, endblock)
				for _, o := range seedOps {
					var msg string
					live, msg = c12Step(w, genesisSet, live, o, c.Stats)
					if msg != "" {
						c.Violation("C12/validator-set-not-as-intended", fmt.Sprintf("n=%d t=%d fork=%v in seed history %v at %s:\n%s", cf.N, cf.T, cf.Fork, seedOps, o, msg), c12Replay{Cfg: cf, Ops: seedOps})
						return
					}
				}
				live.pre = seedOps
				inits = append(inits, live)
				b.Run(inits)
				// third initial state: two further configurations accepted one after the other
				// ({1..N} voted in by the genesis keypers, {2..N+1} by the keypers of the
				// first), nobody has reported a block or checked in. From here the search is
				// over block reports and check-ins of all N+2 participants only: which
				// configuration starts first, and whose quorum is met, is up to their order.
				if !b.Stop && b.Capped == "" && cf.N >= 2 && cf.Shape == "" {
					three := inits[0]
					var pre []appx.Op
					for s := 0; s < cf.T; s++ {
						pre = append(pre, op("cfg", s, 0, 0))
					}
					for s := 1; s <= cf.T; s++ {
						pre = append(pre, op("cfg", s, 1, 0))
					}
					ok := true
					for _, o := range pre {
						var msg string
						three, msg = c12Step(w, genesisSet, three, o, c.Stats)
						if msg != "" {
							c.Violation("C12/validator-set-not-as-intended", fmt.Sprintf("n=%d t=%d fork=%v in seed history %v at %s:\n%s", cf.N, cf.T, cf.Fork, pre, o, msg), c12Replay{Cfg: cf, Ops: pre})
							ok = false
							break
						}
					}
					if ok && len(three.ref.Configs) == 3 {
						three.pre = pre
						alphabet = nil
						for s := 0; s <= cf.N+1; s++ {
							alphabet = append(alphabet, op("seen", s, 0, 0), op("checkin", s, 0, 0))
						}
						alphabet = append(alphabet, endblock)
						b1 := b
						b3 := *b
						b3.States, b3.Transitions, b3.DepthDone, b3.FrontierCut, b3.Capped = 0, 0, 0, 0, ""
						b3.MaxDepth = depth - 1
						b = &b3
						b.Run([]c12node{three})
						c.Stats.States += int64(b.States)
						c.Stats.Transitions += int64(b.Transitions)
						c.Stats.Evaluations += int64(b.Transitions)
						if b.Capped != "" {
							c.Stats.Cap(fmt.Sprintf("n=%d t=%d fork=%v, three configurations: %s at depth %d", cf.N, cf.T, cf.Fork, b.Capped, b.DepthDone))
						}
						c.Stats.SetExtra(fmt.Sprintf("n%d_t%d_fork%v_three_configs", cf.N, cf.T, cf.Fork), map[string]any{"states": b.States, "transitions": b.Transitions, "depth_completed": b.DepthDone})
						b = b1
					} else if ok {
						c.Stats.Class(fmt.Sprintf("three-configuration seed not reached (%d configs)", len(three.ref.Configs)))
					}
				}
				c.Stats.States += int64(b.States)
				c.Stats.Transitions += int64(b.Transitions)
				c.Stats.Evaluations += int64(b.Transitions)
				if b.Capped != "" {
					c.Stats.Cap(fmt.Sprintf("n=%d t=%d fork=%v: %s at depth %d", cf.N, cf.T, cf.Fork, b.Capped, b.DepthDone))
				}
				c.Stats.SetExtra(fmt.Sprintf("n%d_t%d_fork%v%s_h%d", cf.N, cf.T, cf.Fork, cf.Shape, cf.ForkHeight), map[string]any{"states": b.States, "transitions": b.Transitions, "depth_completed": b.DepthDone, "frontier_not_expanded": b.FrontierCut})
				if ci == 0 {
					c.Stats.Sample(map[string]any{"config": cf, "alphabet": fmt.Sprint(alphabet), "depth": depth})
				}
			}
			if c.Shard == 0 {
				c12Diff(c)
			}
		},
		Replay: func(c *report.Ctx, raw json.RawMessage) string {
			var rp c12Replay
			if err := json.Unmarshal(raw, &rp); err != nil {
				return err.Error()
			}
			if rp.Cfg.N == 0 {
				return c12DiffReplay(raw)
			}
			w, g, _ := c12World(rp.Cfg)
			a, _ := w.U.NewApp(g)
			genesisSet := map[string]int64{string(appx.GenesisValidator): 10}
			n := c12node{node{a, 0}, &refVal{ForkOn: rp.Cfg.Fork, ForkHeight: rp.Cfg.ForkHeight, Height: 1, Identities: map[common.Address]string{}, Seen: map[common.Address]uint64{}, Valset: map[string]int64{string(appx.GenesisValidator): 10},
				Configs: []refCfg{{Keypers: w.U.AddrsOf(g.Members), Threshold: g.Threshold, Index: 0}}}, nil}
			for _, o := range rp.Ops {
				var msg string
				n, msg = c12Step(w, genesisSet, n, o, c.Stats)
				if msg != "" {
					return msg
				}
			}
			return ""
		},
	}
}

type c12DiffCase struct {
	Old map[string]int64 `json:"old"`
	New map[string]int64 `json:"new"`
}

func c12DiffCheck(oldm, newm map[string]int64) string {
	toPM := func(m map[string]int64) app.Powermap {
		pm := app.Powermap{}
		for k, v := range m {
			pm[app.ValidatorPubkey{Ed25519pubkey: k}] = v
		}
		return pm
	}
	ups := app.DiffPowermaps(toPM(oldm), toPM(newm)).ValidatorUpdates()
	if len(newm) == 0 {
		return "" // Tendermint refuses an empty set; the app never intends one
	}
	got, err := applyUpdates(oldm, ups)
	if err != nil {
		return fmt.Sprintf("diff(%s -> %s) = %v rejected: %v", setString(oldm), setString(newm), ups, err)
	}
	if setString(got) != setString(newm) {
		return fmt.Sprintf("apply(diff(old,new),old) = {%s}, want {%s}", setString(got), setString(newm))
	}
	return ""
}

func c12Diff(c *report.Ctx) {
	keys := []string{}
	for i := 0; i < 3; i++ {
		k := make([]byte, 32)
		k[0] = byte(0x30 - i*0x10) // not in insertion order
		k[31] = byte(i)
		keys = append(keys, string(k))
	}
	powers := []int64{0, 10, 20, 30} // 0 = absent
	var maps []map[string]int64
	for a := 0; a < 64; a++ {
		m := map[string]int64{}
		x := a
		for i := 0; i < 3; i++ {
			if p := powers[x%4]; p > 0 {
				m[keys[i]] = p
			}
			x /= 4
		}
		maps = append(maps, m)
	}
	for _, o := range maps {
		for _, n := range maps {
			c.Stats.Evaluations++
			if msg := c12DiffCheck(o, n); msg != "" {
				c.Violation("C12/diff-powermaps-wrong", msg, c12DiffCase{Old: encKeys(o), New: encKeys(n)})
				return
			}
			ups := 0
			for k, p := range n {
				if o[k] != p {
					ups++
				}
			}
			rem := 0
			for k := range o {
				if _, ok := n[k]; !ok {
					rem++
				}
			}
			c.Stats.Class(fmt.Sprintf("diff with %d changes and %d removals", ups, rem))
		}
	}
	_ = tmcrypto.PublicKey{}
}

func encKeys(m map[string]int64) map[string]int64 {
	out := map[string]int64{}
	for k, v := range m {
		out[fmt.Sprintf("%x", k)] = v
	}
	return out
}

func c12DiffReplay(raw json.RawMessage) string {
	var dc c12DiffCase
	if err := json.Unmarshal(raw, &dc); err != nil {
		return err.Error()
	}
	dec := func(m map[string]int64) map[string]int64 {
		out := map[string]int64{}
		for k, v := range m {
			b := common.FromHex(k)
			out[string(b)] = v
		}
		return out
	}
	return c12DiffCheck(dec(dc.Old), dec(dc.New))
}
