package main

import (
	"bytes"
	"crypto/sha256"
	"encoding/base64"
	"encoding/json"
	"fmt"
	blst "github.com/supranational/blst/bindings/go"
	"math"
	"runtime/debug"

	"github.com/ethereum/go-ethereum/common"
	"github.com/ethereum/go-ethereum/crypto"
	abcitypes "github.com/tendermint/tendermint/abci/types"
	"golang.org/x/crypto/sha3"
	"google.golang.org/protobuf/proto"

	"github.com/shutter-network/rolling-shutter/rolling-shutter/app"
	"github.com/shutter-network/rolling-shutter/rolling-shutter/shmsg"

	"verif/canon"
	"verif/harness/appx"
	"verif/report"
	"verif/shim/vos"
)

// C10 — no transaction can crash shuttermint; refused transactions have no effect.
//
// Bounded-exhaustive injection: every hostile transaction of the pool is
// injected at EVERY position of every scripted base history (thorough: all
// pairs of positions for a reduced pool). Oracles, from the statement:
//
//	no panic in CheckTx / DeliverTx / the rest of the history;
//	malformed, wrong-chain and replayed transactions: non-zero code from both
//	  the mempool check and block execution, no events, state untouched;
//	a transaction from outside every accepted keyper set: refused by CheckTx;
//	  if included: no events, and the run with it is indistinguishable from the
//	  run without it (every later response, final state) except for the sender's
//	  own nonce entry and own block-seen entry;
//	member-signed but structurally odd payloads: no panic.
type hostile struct {
	Class string `json:"class"` // malformed | wrongchain | replay | foreign | member
	Desc  string `json:"desc"`
	Tx    []byte `json:"tx"`
	// Invalid: why the payload is structurally invalid (decided by the harness from
	// the encoding rules, independently of the application); "" = not known to be
	Invalid string `json:"invalid_payload,omitempty"`
}

// invalidPayload tells whether a payload violates the encoding rules of its type
// (only rules that hold in every chain state are used).
func invalidPayload(m *shmsg.Message) string {
	if pc := m.GetPolyCommitment(); pc != nil {
		for i, g := range pc.Gammas {
			p := new(blst.P2Affine).Uncompress(g)
			if p == nil {
				return fmt.Sprintf("gamma %d is not the compressed encoding of a curve point", i)
			}
			if !p.InG2() {
				return fmt.Sprintf("gamma %d is a curve point outside the group G2", i)
			}
		}
	}
	if bc := m.GetBatchConfig(); bc != nil {
		seen := map[string]bool{}
		for i, k := range bc.Keypers {
			if len(k) != 20 {
				return fmt.Sprintf("keyper %d is not a 20-byte address", i)
			}
			if seen[string(k)] {
				return fmt.Sprintf("keyper %d is listed twice", i)
			}
			seen[string(k)] = true
		}
		switch {
		case len(bc.Keypers) == 0:
			return "configuration without keypers"
		case bc.Threshold == 0:
			return "threshold 0"
		case bc.Threshold > uint64(len(bc.Keypers)):
			return fmt.Sprintf("threshold %d above the number of keypers %d", bc.Threshold, len(bc.Keypers))
		}
	}
	if ci := m.GetCheckIn(); ci != nil {
		if len(ci.ValidatorPublicKey) != 32 {
			return "validator public key is not 32 bytes long"
		}
		if _, err := crypto.DecompressPubkey(ci.EncryptionPublicKey); err != nil {
			return "encryption public key is not a compressed secp256k1 point"
		}
	}
	return ""
}

const foreignIdx = 4

func u64pool() []uint64 { return []uint64{0, 1, 2, math.MaxInt64, 1 << 63, math.MaxUint64} }

// payloadPool builds structurally valid and invalid payloads of every type.
func payloadPool(w *appx.World) []*shmsg.Message {
	u := w.U
	a := func(i int) []byte { return u.Addrs[i].Bytes() }
	short := a(1)[:19]
	long := append(a(1), 0)
	var out []*shmsg.Message
	add := func(m *shmsg.Message) { out = append(out, m) }
	// BatchConfig
	keyperLists := [][][]byte{nil, {}, {short}, {long}, {a(0), a(0)}, {a(0), a(1), a(2), a(3)}, {a(foreignIdx)}, {{}}}
	for _, ks := range keyperLists {
		for _, t := range []uint64{0, 1, 2, 5, 1 << 63, math.MaxUint64} {
			for _, idx := range []uint64{0, 1, 2, math.MaxUint64} {
				add(&shmsg.Message{Payload: &shmsg.Message_BatchConfig{BatchConfig: &shmsg.BatchConfig{ActivationBlockNumber: 0, Keypers: ks, Threshold: t, KeyperConfigIndex: idx}}})
			}
		}
	}
	add(&shmsg.Message{Payload: &shmsg.Message_BatchConfig{BatchConfig: &shmsg.BatchConfig{ActivationBlockNumber: math.MaxUint64, Keypers: [][]byte{a(0), a(1)}, Threshold: 1, KeyperConfigIndex: 1}}})
	add(&shmsg.Message{Payload: &shmsg.Message_BatchConfig{BatchConfig: nil}})
	// CheckIn
	vk := u.ValKeys[0][0]
	enc := crypto.CompressPubkey(&u.Keys[0].PublicKey)
	unc := crypto.FromECDSAPub(&u.Keys[0].PublicKey)
	badenc := append([]byte{2}, bytes.Repeat([]byte{0xff}, 32)...)
	for _, v := range [][]byte{nil, vk[:31], vk, append(append([]byte{}, vk...), 0), bytes.Repeat([]byte{0}, 32)} {
		for _, e := range [][]byte{nil, {}, enc, enc[:32], unc, badenc, bytes.Repeat([]byte{0}, 33)} {
			add(&shmsg.Message{Payload: &shmsg.Message_CheckIn{CheckIn: &shmsg.CheckIn{ValidatorPublicKey: v, EncryptionPublicKey: e}}})
		}
	}
	// BlockSeen, DKGResult
	for _, x := range u64pool() {
		add(shmsg.NewBlockSeen(x))
		add(shmsg.NewDKGResult(x, true))
		add(shmsg.NewDKGResult(x, false))
	}
	// DKG messages
	g := u.Gammas[1]
	gb := (*g)[0].Compress()
	offSubgroup := offSubgroupG2Point()
	for _, eon := range []uint64{0, 1, 2, math.MaxUint64} {
		// (the last three: a valid receiver first, then one that must make the whole message fail)
		for _, recv := range [][][]byte{nil, {a(1)}, {short}, {long}, {a(0)}, {a(1), a(1)}, {a(1), a(2)}, {a(foreignIdx)}, {{}}, {a(2), a(foreignIdx)}, {a(2), a(1)}, {a(0), a(2), a(0)}} {
			for _, evals := range [][][]byte{nil, {{1}}, {{1}, {2}}, {{}}, {nil, nil, nil}, {{1}, {2}, {3}}} {
				add(&shmsg.Message{Payload: &shmsg.Message_PolyEval{PolyEval: &shmsg.PolyEval{Eon: eon, Receivers: recv, EncryptedEvals: evals}}})
			}
			add(&shmsg.Message{Payload: &shmsg.Message_Accusation{Accusation: &shmsg.Accusation{Eon: eon, Accused: recv}}})
			for _, evals := range [][][]byte{nil, {{1}}, {{}, {}}, {bytes.Repeat([]byte{0xff}, 33)}} {
				add(&shmsg.Message{Payload: &shmsg.Message_Apology{Apology: &shmsg.Apology{Eon: eon, Accusers: recv, PolyEvals: evals}}})
			}
		}
		for _, gs := range [][][]byte{nil, {}, {gb}, {gb, gb, gb}, {gb[:95]}, {bytes.Repeat([]byte{0xff}, 96)}, {bytes.Repeat([]byte{0}, 96)}, {{}}, {append([]byte{0xc0}, bytes.Repeat([]byte{0}, 95)...)}, {offSubgroup}, {gb, offSubgroup}} {
			add(&shmsg.Message{Payload: &shmsg.Message_PolyCommitment{PolyCommitment: &shmsg.PolyCommitment{Eon: eon, Gammas: gs}}})
		}
	}
	add(&shmsg.Message{})
	add(&shmsg.Message{Payload: &shmsg.Message_PolyEval{}})
	add(&shmsg.Message{Payload: &shmsg.Message_CheckIn{}})
	add(&shmsg.Message{Payload: &shmsg.Message_DkgResult{}})
	return out
}

// offSubgroupG2Point returns the compressed encoding of a point that lies on the
// curve G2 lives on but outside the prime-order subgroup G2 (found by trying x
// coordinates; almost every curve point is outside the subgroup).
func offSubgroupG2Point() []byte {
	for c := 0; c < 1000; c++ {
		h := sha256.Sum256([]byte(fmt.Sprintf("verif-off-subgroup-%d", c)))
		b := bytes.Repeat(h[:], 3)
		b[0] = 0x80 | (b[0] & 0x0f) // compressed, not infinity, x below the field modulus
		p := new(blst.P2Affine).Uncompress(b)
		if p != nil && !p.InG2() {
			return b
		}
	}
	panic("no off-subgroup point found")
}

func encodeTx(signed []byte) []byte { return []byte(base64.RawURLEncoding.EncodeToString(signed)) }

// hostilePool builds the injected transactions. `used` are (sender, nonce, tx)
// of the base history (for replays).
func hostilePool(w *appx.World, thorough bool) (pool []hostile, raws []hostile) {
	u := w.U
	payloads := payloadPool(w)
	freshNonce := uint64(900000)
	for pi, m := range payloads {
		freshNonce++
		desc := fmt.Sprintf("payload#%d %T", pi, m.Payload)
		// foreign signer, right chain
		pool = append(pool, hostile{Class: "foreign", Desc: desc + " signed by a non-member", Tx: appx.SignTx(m, appx.ChainID, freshNonce, u.Keys[foreignIdx])})
		// member signer, wrong chain
		pool = append(pool, hostile{Class: "wrongchain", Desc: desc + " member-signed for another chain", Tx: appx.SignTx(m, "other-chain", freshNonce, u.Keys[1])})
		// member signer, right chain (no panic only)
		pool = append(pool, hostile{Class: "member", Desc: desc + " member-signed", Tx: appx.SignTx(m, appx.ChainID, freshNonce, u.Keys[1]), Invalid: invalidPayload(m)})
	}
	// envelope-level oddities
	valid := appx.SignTx(shmsg.NewBlockSeen(7), appx.ChainID, 777777, u.Keys[1])
	signed, _ := base64.RawURLEncoding.DecodeString(string(valid))
	// MessageWithNonce without Msg, with empty chain id
	for i, mw := range []*shmsg.MessageWithNonce{
		{ChainId: []byte(appx.ChainID), RandomNonce: 5},
		{ChainId: nil, RandomNonce: 5, Msg: shmsg.NewBlockSeen(1)},
		{ChainId: []byte(appx.ChainID + "x"), RandomNonce: 5, Msg: shmsg.NewBlockSeen(1)},
	} {
		s, _ := shmsg.SignMessage(mw, u.Keys[1])
		cls := "member"
		if i > 0 {
			cls = "wrongchain"
		}
		pool = append(pool, hostile{Class: cls, Desc: fmt.Sprintf("envelope oddity %d", i), Tx: encodeTx(s)})
	}
	// two payloads in one message (protobuf merge: last oneof wins)
	m1, _ := proto.Marshal(&shmsg.MessageWithNonce{ChainId: []byte(appx.ChainID), RandomNonce: 6, Msg: shmsg.NewBlockSeen(1)})
	m2, _ := proto.Marshal(&shmsg.MessageWithNonce{Msg: shmsg.NewDKGResult(1, false)})
	both := append(append([]byte{}, m1...), m2...)
	{
		h := sigHash(both)
		sig, _ := crypto.Sign(h, u.Keys[foreignIdx])
		pool = append(pool, hostile{Class: "foreign", Desc: "two payloads concatenated, signed by a non-member", Tx: encodeTx(append(sig, both...))})
	}
	// raw strings: malformed
	addRaw := func(desc string, b []byte) {
		raws = append(raws, hostile{Class: "malformed", Desc: desc, Tx: b})
	}
	addRaw("empty", []byte{})
	for i := 0; i < 256; i++ {
		addRaw("1 byte", []byte{byte(i)})
	}
	if thorough {
		for i := 0; i < 256; i++ {
			for j := 0; j < 256; j++ {
				addRaw("2 bytes", []byte{byte(i), byte(j)})
			}
		}
	} else {
		for _, i := range []int{0, '-', '_', 'A', 'z', '=', 0x7f, 0xff} {
			for j := 0; j < 256; j++ {
				addRaw("2 bytes", []byte{byte(i), byte(j)})
			}
		}
	}
	addRaw("not base64", []byte("!!!! not base64 ****"))
	for _, alt := range []string{base64.URLEncoding.EncodeToString(signed), base64.StdEncoding.EncodeToString(signed)} {
		if _, err := base64.RawURLEncoding.DecodeString(alt); err != nil {
			addRaw("other base64 flavour", []byte(alt))
		}
	}
	// every prefix of the signed message (re-encoded) and of the encoded tx
	for l := 0; l < len(signed); l++ {
		if classify(signed[:l]) == "malformed" {
			addRaw(fmt.Sprintf("signed message truncated to %d bytes", l), encodeTx(signed[:l]))
		}
	}
	for l := 0; l < len(valid); l++ {
		if dec, err := base64.RawURLEncoding.DecodeString(string(valid[:l])); err != nil || classify(dec) == "malformed" {
			addRaw(fmt.Sprintf("encoded tx truncated to %d chars", l), valid[:l])
		}
	}
	// every single-byte substitution of the signed message
	for i := 0; i < len(signed); i++ {
		for _, nb := range []byte{0x00, 0xff, signed[i] + 1, signed[i] ^ 0x80} {
			if nb == signed[i] {
				continue
			}
			mut := append([]byte{}, signed...)
			mut[i] = nb
			cls := classify(mut)
			if cls == "skip" {
				continue
			}
			h := hostile{Class: cls, Desc: fmt.Sprintf("signed message byte %d set to %#x", i, nb), Tx: encodeTx(mut)}
			if cls == "malformed" {
				raws = append(raws, h)
			} else {
				pool = append(pool, h)
			}
		}
	}
	return pool, raws
}

func sigHash(payload []byte) []byte {
	h := sha3.New256()
	h.Write([]byte{0x19, 's', 'h', 'm', 's', 'g'})
	h.Write(payload)
	return h.Sum(nil)
}

// classify decides independently of the app what a signed byte string is:
// malformed (no recoverable signer or undecodable payload), foreign, wrongchain,
// or skip (recovers to a member / cannot be classified by the harness).
func classify(signed []byte) string {
	if len(signed) < 65 {
		return "malformed"
	}
	pub, err := crypto.SigToPub(sigHash(signed[65:]), signed[:65])
	if err != nil {
		return "malformed"
	}
	var mw shmsg.MessageWithNonce
	if err := proto.Unmarshal(signed[65:], &mw); err != nil {
		return "malformed"
	}
	addr := crypto.PubkeyToAddress(*pub)
	u := appx.NewUniverse(5)
	if idx := u.Index(addr); idx >= 0 && idx != foreignIdx {
		if string(mw.ChainId) != appx.ChainID {
			return "wrongchain"
		}
		return "skip"
	}
	if string(mw.ChainId) != appx.ChainID {
		return "wrongchain"
	}
	return "foreign"
}

// c10base is the recorded baseline run of one history.
type c10base struct {
	h      baseHistory
	states []*app.ShutterApp // state before op i (len = ops+1)
	resps  [][]byte
	txs    [][]byte // tx bytes of op i (nil for endblock)
	final  string
}

func runBase(w *appx.World, h baseHistory) *c10base {
	a, _ := w.U.NewApp(h.Genesis)
	b := &c10base{h: h}
	n := node{a: a}
	for _, o := range h.Ops {
		b.states = append(b.states, appx.Clone(a))
		if o.Kind == "endblock" {
			b.txs = append(b.txs, nil)
		} else {
			b.txs = append(b.txs, w.Tx(a, o, n.nonce()))
		}
		r := w.Step(a, o, n.nonce())
		n.nops++
		b.resps = append(b.resps, r.Bytes)
	}
	b.states = append(b.states, appx.Clone(a))
	b.final = govDump(w, a)
	return b
}

// govDump is the canonical state without what the statement does not make
// observable for a foreign sender: its nonce entries and its block-seen entry.
func govDump(w *appx.World, a *app.ShutterApp) string {
	c := appx.Clone(a)
	f := w.U.Addrs[foreignIdx]
	for addr := range c.BlocksSeen {
		if w.U.Index(addr) < 0 || addr == f {
			delete(c.BlocksSeen, addr)
		}
	}
	for addr := range c.NonceTracker.RandomNonces {
		if w.U.Index(addr) < 0 || addr == f {
			delete(c.NonceTracker.RandomNonces, addr)
		}
	}
	return canon.Dump(c, &canon.Options{Skip: map[string]bool{"ShutterApp.LastSaved": true, "ShutterApp.Gobpath": true, "ShutterApp.CheckTxState": true}, NilEqualsEmpty: true})
}

// dumpNoNonces renders the state with the consumed-nonce sets left out.
func dumpNoNonces(a *app.ShutterApp) string {
	c := appx.Clone(a)
	c.NonceTracker.RandomNonces = nil
	return canon.Dump(c, &canon.Options{Skip: map[string]bool{"ShutterApp.LastSaved": true, "ShutterApp.Gobpath": true, "ShutterApp.CheckTxState": true}, NilEqualsEmpty: true})
}

type c10Replay struct {
	History int      `json:"history"`
	Inject  []c10Inj `json:"inject"`
}
type c10Inj struct {
	Pos int     `json:"pos"`
	H   hostile `json:"tx"`
}

func guard(f func()) (panicked string) {
	defer func() {
		if p := recover(); p != nil {
			panicked = fmt.Sprintf("%v\n%s", p, debug.Stack())
		}
	}()
	f()
	return ""
}

// inject runs history b with the hostile txs injected before the given
// positions and evaluates the oracles. Returns (class of outcome, violation).
func c10Inject(w *appx.World, b *c10base, injs []c10Inj) (string, string, string) {
	first := injs[0].Pos
	a := appx.Clone(b.states[first])
	outcome := ""
	changed := false
	memberInjected := false
	ii := 0
	for i := first; i <= len(b.h.Ops); i++ {
		for ii < len(injs) && injs[ii].Pos == i {
			x := injs[ii].H
			ii++
			before := appx.StateDump(a)
			beforeNN := ""
			if x.Class == "member" {
				beforeNN = dumpNoNonces(a)
			}
			// mempool check on a copy (CheckTx only touches the mempool scratch state)
			var cr abcitypes.ResponseCheckTx
			ca := appx.Clone(a)
			if p := guard(func() { cr = ca.CheckTx(abcitypes.RequestCheckTx{Tx: x.Tx}) }); p != "" {
				return "", "C10/panic-in-checktx", fmt.Sprintf("CheckTx panics on %s (%s): %s", x.Desc, x.Class, p)
			}
			// the same mempool check on a node restarted from the state saved at this point
			// (real PersistToDisk / LoadShutterAppFromFile on the in-memory file system)
			if x.Class != "member" {
				vos.Cur = vos.New()
				src := appx.Clone(a)
				src.Gobpath = "/data/c10-restart.gob"
				if err := src.PersistToDisk(); err != nil {
					return "", "C10/state-cannot-be-saved", err.Error()
				}
				loaded, err := app.LoadShutterAppFromFile("/data/c10-restart.gob")
				if err != nil {
					return "", "C10/state-cannot-be-loaded", err.Error()
				}
				var crR abcitypes.ResponseCheckTx
				if p := guard(func() { crR = loaded.CheckTx(abcitypes.RequestCheckTx{Tx: x.Tx}) }); p != "" {
					return "", "C10/panic-in-checktx", fmt.Sprintf("CheckTx of a restarted node panics on %s (%s): %s", x.Desc, x.Class, p)
				}
				if crR.Code == 0 {
					sig := "C10/refusable-tx-passes-checktx"
					if x.Class == "foreign" {
						sig = "C10/foreign-tx-passes-checktx"
					}
					return "", sig, fmt.Sprintf("the mempool check of a node restarted from its saved state accepts a %s transaction (%s); the node that never stopped answers code %d (%s)", x.Class, x.Desc, cr.Code, cr.Log)
				}
			}
			var dr abcitypes.ResponseDeliverTx
			if p := guard(func() { dr = a.DeliverTx(abcitypes.RequestDeliverTx{Tx: x.Tx}) }); p != "" {
				return "", "C10/panic-in-delivertx", fmt.Sprintf("DeliverTx panics on %s (%s): %s", x.Desc, x.Class, p)
			}
			outcome += fmt.Sprintf("%s:check=%d,deliver=%d;", x.Class, min1(cr.Code), dr.Code)
			switch x.Class {
			case "malformed", "wrongchain", "replay":
				if dr.Code == 0 {
					return "", "C10/refusable-tx-gets-code-0", fmt.Sprintf("DeliverTx answers code 0 to a %s transaction (%s)", x.Class, x.Desc)
				}
				if cr.Code == 0 {
					return "", "C10/refusable-tx-passes-checktx", fmt.Sprintf("CheckTx accepts a %s transaction (%s)", x.Class, x.Desc)
				}
				if len(dr.Events) != 0 {
					return "", "C10/refused-tx-emits-events", fmt.Sprintf("%s transaction (%s) emits events %v", x.Class, x.Desc, dr.Events)
				}
				if after := appx.StateDump(a); after != before {
					return "", "C10/refused-tx-changes-state", fmt.Sprintf("%s transaction (%s) changes the application state\nbefore: %s\nafter:  %s", x.Class, x.Desc, before, after)
				}
			case "foreign":
				if cr.Code == 0 {
					return "", "C10/foreign-tx-passes-checktx", fmt.Sprintf("CheckTx accepts a transaction from outside every keyper set (%s)", x.Desc)
				}
				if len(dr.Events) != 0 {
					return "", "C10/foreign-tx-emits-events", fmt.Sprintf("transaction from a non-member (%s) emits events %v", x.Desc, dr.Events)
				}
				if appx.StateDump(a) != before {
					changed = true
				}
			case "member":
				memberInjected = true
				if x.Invalid != "" && dr.Code == 0 {
					return "", "C10/invalid-payload-gets-code-0", fmt.Sprintf("DeliverTx answers code 0 (events %v) to a member-signed transaction whose payload is structurally invalid: %s (%s)", dr.Events, x.Invalid, x.Desc)
				}
				if dr.Code != 0 {
					// refused although correctly signed by a member (structurally invalid or
					// inapplicable payload): no events and no effect besides the consumed nonce
					if len(dr.Events) != 0 {
						return "", "C10/refused-tx-emits-events", fmt.Sprintf("refused member transaction (%s, code %d) emits events %v", x.Desc, dr.Code, dr.Events)
					}
					if b4, now := beforeNN, dumpNoNonces(a); b4 != now {
						return "", "C10/refused-tx-changes-state", fmt.Sprintf("member transaction (%s) is refused with code %d (%s) but changes the application state\nbefore: %s\nafter:  %s", x.Desc, dr.Code, dr.Log, b4, now)
					}
				}
				if appx.StateDump(a) != before {
					changed = true
				}
			}
		}
		if i == len(b.h.Ops) {
			break
		}
		if !changed && ii == len(injs) {
			// state is identical to the baseline's: the rest of the run is the baseline's
			return outcome + "unchanged", "", ""
		}
		o := b.h.Ops[i]
		var r appx.Result
		if p := guard(func() {
			if o.Kind == "endblock" {
				r = w.Step(a, o, 0)
			} else {
				dr := a.DeliverTx(abcitypes.RequestDeliverTx{Tx: b.txs[i]})
				cmp := dr
				cmp.Log, cmp.Info = "", ""
				bs, _ := cmp.Marshal()
				r = appx.Result{Deliver: &dr, Bytes: bs}
			}
		}); p != "" {
			return "", "C10/panic-after-injection", fmt.Sprintf("history step %d (%s) panics after injection: %s", i, o, p)
		}
		if !memberInjected && !bytes.Equal(r.Bytes, b.resps[i]) {
			return "", "C10/foreign-tx-changes-later-response", fmt.Sprintf("after the injected transaction(s) %v, step %d (%s) of the history is answered differently: %v %v", descs(injs), i, o, r.Deliver, r.End)
		}
	}
	if !memberInjected {
		if d := govDump(w, a); d != b.final {
			return "", "C10/foreign-tx-changes-final-state", fmt.Sprintf("final state differs after injecting %v\nwith:    %s\nwithout: %s", descs(injs), d, b.final)
		}
	}
	return outcome + "continued", "", ""
}

func min1(c uint32) uint32 {
	if c > 1 {
		return 1
	}
	return c
}

func descs(injs []c10Inj) []string {
	var out []string
	for _, x := range injs {
		out = append(out, fmt.Sprintf("@%d %s", x.Pos, x.H.Desc))
	}
	return out
}

func c10() *report.Check {
	return &report.Check{
		Level: "exploration",
		Rule:  "every hostile transaction of the pool (all strings <= 1 byte, 2-byte strings, non-base64, every prefix and single-byte substitution of a valid transaction, every message type x field pools x signer {member, non-member} x chain {right, wrong}, replays of every earlier transaction) injected at every position of every scripted base history on the real app; thorough adds all position pairs for a reduced pool. Classes = (class of tx, CheckTx verdict, DeliverTx code, whether the state changed)",
		Assumptions: []string{
			"the non-member used for the foreign class never joins a keyper set in the base histories (a block-seen report sent before joining would count once the sender becomes a keyper; the statement does not cover that)",
			"classification of mutated envelopes (malformed / foreign / wrong chain) is done by the harness with go-ethereum's recovery and protobuf, independently of the app",
		},
		Shards:  func(bool) int { return 16 },
		Budget:  minutes(3, 20),
		Trivial: func(string) bool { return false },
		Run: func(c *report.Ctx) {
			w := appWorld()
			hists := baseHistories()
			pool, raws := hostilePool(w, c.Thorough)
			unit := 0
			for hi, h := range hists {
				b := runBase(w, h)
				for pos := 0; pos <= len(h.Ops); pos++ {
					unit++
					if unit%c.NShards != c.Shard {
						continue
					}
					if c.Expired() {
						c.Stats.Cap("deadline")
						return
					}
					cases := append([]hostile{}, pool...)
					// replays of every earlier tx of the history
					for j := 0; j < pos; j++ {
						if b.txs[j] != nil {
							cases = append(cases, hostile{Class: "replay", Desc: fmt.Sprintf("replay of history step %d (%s)", j, h.Ops[j]), Tx: b.txs[j]})
						}
					}
					// raw garbage: all of it at three positions per history, the 1-byte
					// strings and structured mutations everywhere
					if pos == 0 || pos == len(h.Ops)/2 || pos == len(h.Ops) || c.Thorough {
						cases = append(cases, raws...)
					} else {
						for _, r := range raws {
							if r.Desc != "2 bytes" {
								cases = append(cases, r)
							}
						}
					}
					for _, x := range cases {
						c.Stats.Evaluations++
						out, sig, msg := c10Inject(w, b, []c10Inj{{pos, x}})
						if msg != "" {
							c.Violation(sig, fmt.Sprintf("%s, injected before step %d: %s", h.Name, pos, msg), c10Replay{History: hi, Inject: []c10Inj{{pos, x}}})
							return
						}
						c.Stats.Class(out)
					}
					if hi == 0 && pos == 3 {
						c.Stats.Sample(map[string]any{"history": h.Name, "position": pos, "cases_at_this_position": len(cases), "example": cases[0].Desc, "example_tx": string(cases[0].Tx)})
					}
					// pairs: a foreign tx here and another at every later position
					if c.Thorough {
						var red []hostile
						for i, x := range pool {
							if x.Class == "foreign" && i%7 == 0 {
								red = append(red, x)
							}
						}
						for _, x := range red {
							for pos2 := pos; pos2 <= len(h.Ops); pos2++ {
								for _, y := range red {
									c.Stats.Evaluations++
									c.Stats.Count("pair_injections", 1)
									_, sig, msg := c10Inject(w, b, []c10Inj{{pos, x}, {pos2, y}})
									if msg != "" {
										c.Violation(sig, fmt.Sprintf("%s, injected before steps %d and %d: %s", h.Name, pos, pos2, msg), c10Replay{History: hi, Inject: []c10Inj{{pos, x}, {pos2, y}}})
										return
									}
								}
							}
						}
					}
				}
			}
		},
		Replay: func(c *report.Ctx, raw json.RawMessage) string {
			var rp c10Replay
			if err := json.Unmarshal(raw, &rp); err != nil {
				return err.Error()
			}
			w := appWorld()
			b := runBase(w, baseHistories()[rp.History])
			_, _, msg := c10Inject(w, b, rp.Inject)
			return msg
		},
	}
}

var _ = common.Address{}
