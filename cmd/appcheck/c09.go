package main

import (
	"bytes"
	"encoding/json"
	"fmt"
	abcitypes "github.com/tendermint/tendermint/abci/types"
	"verif/canon"

	"time"

	"github.com/shutter-network/rolling-shutter/rolling-shutter/app"

	"verif/explore"
	"verif/harness/appx"
	"verif/maporder"
	"verif/report"
	"verif/shim/vos"
)

// C09 — shuttermint replicas never diverge.
//
// Explicit-state BFS over transaction histories on the real application. At
// every transition (state s, op o) replica A executes o with canonical map
// order; if A met at least one range over a map with >= 2 keys, replica B
// re-executes o from a copy of s under EVERY permutation of every such range
// within the deviation bound (stateless DFS over the map-order choice points).
// Oracle: byte-equal marshalled ABCI responses and equal canonical state.
// Because both replicas start each transition from the same state, the first
// point of divergence of any two replicas is one of these transitions.
func c09World() (*appx.World, []seed) {
	u := appx.NewUniverse(5)
	w := &appx.World{
		U: u,
		Candidates: []appx.Candidate{
			{Members: []int{0, 1, 2, 3}, Threshold: 2, IndexPlus: 1, Act: 0},
			{Members: []int{1, 2, 3}, Threshold: 2, IndexPlus: 1, Act: 5},
			{Members: []int{0, 1}, Threshold: 1, IndexPlus: 0, Act: 0},
			// not in the alphabet, only in seed histories: a set change that drops two validators at once
			{Members: []int{0, 1}, Threshold: 1, IndexPlus: 1, Act: 5},
		},
		SeenBlocks: []uint64{5, 3},
	}
	g4 := appx.Genesis{Members: []int{0, 1, 2, 3}, Threshold: 2}
	g3 := appx.Genesis{Members: []int{0, 1, 2}, Threshold: 2, ForkEnabled: true}
	seeds := []seed{
		{Name: "genesis n=4 t=2", Genesis: g4},
		{Name: "genesis n=3 t=2 fork", Genesis: g3},
		{Name: "n=4 t=2, config 1 accepted (eon 1 running)", Genesis: g4, Ops: []appx.Op{op("cfg", 0, 0, 0), op("cfg", 1, 0, 0)}},
		{Name: "n=4 t=2, eon 1 running, three check-ins, block closed", Genesis: g4, Ops: []appx.Op{
			op("cfg", 0, 0, 0), op("cfg", 1, 0, 0), op("checkin", 0, 0, 0), op("checkin", 1, 0, 0), op("checkin", 2, 0, 0), endblock,
		}},
		{Name: "n=4 t=2, eon 1 running, two success votes", Genesis: g4, Ops: []appx.Op{
			op("cfg", 0, 0, 0), op("cfg", 1, 0, 0), op("result", 0, 0, 1), op("result", 1, 0, 1),
		}},
		{Name: "n=4 t=2, eon 1 failed and restarted as eon 2", Genesis: g4, Ops: []appx.Op{
			op("cfg", 0, 0, 0), op("cfg", 1, 0, 0), op("result", 0, 0, 0), op("result", 1, 0, 0),
		}},
		{Name: "n=4 t=2, set change to {1,2,3} accepted, seen 5 by two", Genesis: g4, Ops: []appx.Op{
			op("cfg", 0, 1, 0), op("cfg", 1, 1, 0), op("seen", 0, 0, 0), op("seen", 1, 0, 0),
		}},
		// chain ids for which the application has a built-in fork override: one that is
		// always met (fork active although the genesis disables it) and one that is not
		// met before eon 9 (fork inactive although the genesis enables it)
		{Name: "n=3 t=2, chain id whose override activates the check-in fork, two check-ins", Genesis: appx.Genesis{Members: []int{0, 1, 2}, Threshold: 2, ChainID: "shutter-api-gnosis-1002"},
			Ops: []appx.Op{op("checkin", 0, 0, 0), op("checkin", 1, 0, 0), op("seen", 0, 0, 0), endblock}},
		{Name: "n=3 t=2 fork, chain id whose override holds the check-in fork back, two check-ins", Genesis: appx.Genesis{Members: []int{0, 1, 2}, Threshold: 2, ForkEnabled: true, ChainID: "shutter-gnosis-1000"},
			Ops: []appx.Op{op("checkin", 0, 0, 0), op("checkin", 1, 0, 0), op("seen", 0, 0, 0), endblock}},
		// block ends that remove several validators at once
		{Name: "n=3 t=2 fork, everybody checked in, block closed (two key changes in one block remove two validators)", Genesis: g3, Ops: []appx.Op{
			op("checkin", 0, 0, 0), op("checkin", 1, 0, 0), op("checkin", 2, 0, 0), op("seen", 0, 0, 0), op("seen", 1, 0, 0), endblock,
		}},
		{Name: "n=4 t=2, everybody checked in, set change to {0,1} accepted and seen by one (its start removes two validators)", Genesis: g4, Ops: []appx.Op{
			op("checkin", 0, 0, 0), op("checkin", 1, 0, 0), op("checkin", 2, 0, 0), op("checkin", 3, 0, 0), op("seen", 0, 1, 0), op("seen", 1, 1, 0), endblock,
			op("cfg", 0, 3, 0), op("cfg", 1, 3, 0), op("seen", 0, 0, 0),
		}},
	}
	return w, seeds
}

func c09Alphabet(nsenders int) []appx.Op {
	var ops []appx.Op
	for s := 0; s < nsenders; s++ {
		for c := 0; c < 3; c++ {
			ops = append(ops, op("cfg", s, c, 0))
		}
		ops = append(ops, op("checkin", s, 0, 0), op("checkin", s, 1, 0))
		ops = append(ops, op("seen", s, 0, 0), op("seen", s, 1, 0))
		for e := 0; e < 2; e++ {
			ops = append(ops, op("result", s, e, 1), op("result", s, e, 0))
		}
		ops = append(ops, op("commit", s, 0, 1), op("eval", s, 0, 0), op("accuse", s, 0, 0), op("apology", s, 0, 0))
		if s == 1 {
			// several accused, and a list that names one keyper twice
			ops = append(ops, op("accuse", s, 0, 1), op("accuse", s, 0, 2))
		}
	}
	ops = append(ops, endblock)
	return ops
}

func firstN(s string, n int) string {
	if len(s) > n {
		return s[:n] + "…"
	}
	return s
}

// c09WalkOp is the k-th op of the long deterministic walk.
func c09WalkOp(alphabet []appx.Op, k int) appx.Op {
	switch {
	case k%11 == 10:
		return endblock
	case k%2 == 0:
		return alphabet[(k/2*5+1)%15]
	default:
		return alphabet[(k*7+3)%(len(alphabet)-1)]
	}
}

// dumpNoMempool renders the consensus state (the mempool scratch state left out).
func dumpNoMempool(a *app.ShutterApp) string {
	return canon.Dump(a, &canon.Options{Skip: map[string]bool{"ShutterApp.LastSaved": true, "ShutterApp.Gobpath": true, "ShutterApp.CheckTxState": true}, NilEqualsEmpty: true})
}

type c09Replay struct {
	Walk    int       `json:"walk_steps,omitempty"` // >0: the first Walk ops of the long walk precede Last
	Seed    int       `json:"seed"`
	Ops     []appx.Op `json:"ops"`
	Last    appx.Op   `json:"last"`
	Choices []int     `json:"maporder_choices"`
	Mempool bool      `json:"mempool_replica,omitempty"` // the violation is between a replica with and one without mempool checks along the walk
}

// c09Transition checks one transition under all map orders within the bound and
// returns the successor (replica A's) or a violation message.
func c09Transition(w *appx.World, n node, o appx.Op, bound int, st *report.Stats) (next node, choices []int, msg string) {
	maporder.Chooser = nil
	before := maporder.Ranges
	a := appx.Clone(n.a)
	resA := w.Step(a, o, n.nonce())
	metRange := maporder.Ranges != before
	next = node{a: a, nops: n.nops + 1}
	if o.Kind == "endblock" {
		// a replica that saves its state at this commit (another one's save timer has
		// not fired): nothing a replica answers or holds may depend on when it saves
		vos.Cur = vos.New()
		app.PersistMinDuration = -time.Hour
		pr := appx.Clone(n.a)
		pr.Gobpath = "/data/replica.gob"
		resP := w.Step(pr, o, n.nonce())
		st.Count("persisting_replica_commits", 1)
		if !bytes.Equal(resA.Bytes, resP.Bytes) {
			return next, nil, fmt.Sprintf("op %s: a replica that saves its state at this commit answers differently from one that does not", o)
		}
		if dA, dP := appx.StateDump(a), appx.StateDump(pr); dA != dP {
			return next, nil, fmt.Sprintf("op %s: a replica that saves its state at this commit holds different state afterwards\nnot saving: %s\nsaving:     %s", o, dA, dP)
		}
	}
	// the replica that proposes the block: Tendermint asks only the proposer to
	// prepare the proposal (here from a mempool that does not fit: the transaction
	// twice, room for one) and every validator to process it; executing the block
	// afterwards must not depend on having been asked
	if o.Kind != "endblock" {
		pp := appx.Clone(n.a)
		tx := w.Tx(pp, o, n.nonce())
		pp.PrepareProposal(abcitypes.RequestPrepareProposal{Txs: [][]byte{tx, tx}, MaxTxBytes: int64(len(tx))})
		pp.ProcessProposal(abcitypes.RequestProcessProposal{Txs: [][]byte{tx}})
		resP := w.Step(pp, o, n.nonce())
		st.Count("proposer_replica_transitions", 1)
		if !bytes.Equal(resA.Bytes, resP.Bytes) {
			return next, nil, fmt.Sprintf("op %s: the replica that prepared and processed the proposal answers differently from one that only executes the block\nexecuting only: %v\nproposer:       %v", o, resA.Deliver, resP.Deliver)
		}
		if dA, dP := dumpNoMempool(a), dumpNoMempool(pp); dA != dP {
			return next, nil, fmt.Sprintf("op %s: the replica that prepared and processed the proposal holds different state afterwards\nexecuting only: %s\nproposer:       %s", o, firstN(dA, 800), firstN(dP, 800))
		}
	}
	// a replica in another process: restarted from the state saved just before this
	// transition (real PersistToDisk + LoadShutterAppFromFile on the in-memory file system)
	{
		vos.Cur = vos.New()
		src := appx.Clone(n.a)
		src.Gobpath = "/data/restarted.gob"
		if err := src.PersistToDisk(); err != nil {
			return next, nil, fmt.Sprintf("op %s: cannot save the state: %v", o, err)
		}
		loaded, err := app.LoadShutterAppFromFile("/data/restarted.gob")
		if err != nil {
			return next, nil, fmt.Sprintf("op %s: cannot load the saved state: %v", o, err)
		}
		rr := &loaded
		rr.Gobpath = ""
		resR := w.Step(rr, o, n.nonce())
		st.Count("restarted_replica_transitions", 1)
		if !bytes.Equal(resA.Bytes, resR.Bytes) {
			return next, nil, fmt.Sprintf("op %s: a replica restarted from its saved state answers differently from one that never stopped\nnever stopped: %v %v\nrestarted:     %v %v", o, resA.Deliver, resA.End, resR.Deliver, resR.End)
		}
		if dA, dR := appx.StateDump(a), appx.StateDump(rr); dA != dR {
			return next, nil, fmt.Sprintf("op %s: a replica restarted from its saved state holds different state afterwards\nnever stopped: %s\nrestarted:     %s", o, dA, dR)
		}
	}
	if !metRange {
		st.Class("transition without multi-key map range")
		return next, nil, ""
	}
	dumpA := appx.StateDump(a)
	var bad *explore.Failure
	d := &explore.DFS{Bound: bound, Body: func(r *explore.Run) {
		b := appx.Clone(n.a)
		maporder.Chooser = func(k int, label string) int { return r.Choose(k, label) }
		resB := w.Step(b, o, n.nonce())
		maporder.Chooser = nil
		if !bytes.Equal(resA.Bytes, resB.Bytes) {
			r.Failf("C09/response-differs-under-map-order", "op %s: responses differ between replicas\nA: %v %v\nB: %v %v", o, resA.Deliver, resA.End, resB.Deliver, resB.End)
			return
		}
		if dumpB := appx.StateDump(b); dumpA != dumpB {
			r.Failf("C09/state-differs-under-map-order", "op %s: states differ between replicas\nA: %s\nB: %s", o, dumpA, dumpB)
		}
	}}
	defer func() { maporder.Chooser = nil }()
	d.Explore()
	st.Evaluations += d.Execs
	st.Count("map_order_executions", d.Execs)
	if d.Execs > 1 {
		st.Class(fmt.Sprintf("transition with %s under permuted map order", o.Kind))
	} else {
		st.Class("transition with map range but no alternative order inside the bound")
	}
	if len(d.Failures) > 0 {
		bad = d.Failures[0]
		return next, bad.Choices, bad.Message
	}
	return next, nil, ""
}

func c09() *report.Check {
	return &report.Check{
		Level: "model_checking",
		Rule:  "BFS over tx histories on the real app from genesis and scripted seed states, merged on the canonical app state (minus save time/path, CheckTx scratch, nonce tracker); every transition re-executed on a second replica under every map iteration order within the deviation bound; classes = kinds of transition by whether alternative orders existed",
		Assumptions: []string{
			"map iteration order is owned through a source rewrite of every range-over-map in app, keyper/shutterevents (regenerated from the current sources by cmd/rewrite); all permutations are offered, a superset of what the Go runtime produces",
			"replicas are compared per transition from equal states (induction over the history)",
			"proposer: at every transaction a further replica prepares (from a mempool that does not fit) and processes the proposal first and must answer and end up like one that only executes the block; process: at every transition a further replica is restarted from the state saved just before (real PersistToDisk / LoadShutterAppFromFile on the in-memory file system) and must answer and end up like the one that never stopped; seeds include chain ids with built-in fork overrides",
			"mempool: along the long walk a further replica runs CheckTx (new and recheck) on every transaction before the block that contains it is executed; the others never run it",
			"wall clock / save timing: at every block end a second replica saves its state (real PersistToDisk on the in-memory file system) while the first does not; both must stay identical",
		},
		Shards:  func(bool) int { return 16 },
		Budget:  minutes(3, 25),
		Trivial: func(c string) bool { return c == "transition without multi-key map range" },
		Run: func(c *report.Ctx) {
			w, seeds := c09World()
			depth, bound := 3, 1
			if c.Thorough {
				depth, bound = 5, 2
			}
			alphabet := c09Alphabet(5)
			// long deterministic walks: one fixed history of 2400 steps per genesis in which
			// every transition is checked under every map order within the bound. This does
			// not enumerate histories (the BFS below does, to a small depth); it carries the
			// exhaustive map-order check into states that only long histories reach (large
			// nonce sets, many eons, many accepted configs).
			for wi, sd := range seeds[:2] {
				if (wi+7)%c.NShards != c.Shard {
					continue
				}
				n := buildSeed(w, sd)
				// a replica whose mempool saw every transaction (twice: gossip and recheck)
				// before the block that contains it is executed; the first one never runs
				// the mempool check. Block execution must not depend on that.
				mp := appx.Clone(n.a)
				walkLen := 2400
				for k := 0; k < walkLen; k++ {
					// sender 0 is kept busy (every other op) so that per-sender state grows large
					o := c09WalkOp(alphabet, k)
					if o.Kind != "endblock" {
						tx := w.Tx(mp, o, n.nonce())
						mp.CheckTx(abcitypes.RequestCheckTx{Tx: tx})
						mp.CheckTx(abcitypes.RequestCheckTx{Tx: tx, Type: abcitypes.CheckTxType_Recheck})
					}
					resM := w.Step(mp, o, n.nonce())
					resA := w.Step(appx.Clone(n.a), o, n.nonce())
					c.Stats.Count("mempool_replica_transitions", 1)
					if !bytes.Equal(resA.Bytes, resM.Bytes) {
						c.Violation("C09/replicas-diverge-by-mempool-history/"+o.Kind, fmt.Sprintf("seed %q, step %d of the long walk, op %s: a replica whose mempool checked the block's transactions answers differently from one that never ran the mempool check\nwithout mempool: %v %v\nwith mempool:    %v %v", sd.Name, k, o, resA.Deliver, resA.End, resM.Deliver, resM.End),
							c09Replay{Seed: wi, Walk: k, Last: o, Mempool: true})
						break
					}
					next, choices, msg := c09Transition(w, n, o, bound, c.Stats)
					c.Stats.Traces++
					c.Stats.Count("long_walk_transitions", 1)
					if msg != "" {
						c.Violation("C09/replicas-diverge-under-map-order/long-walk/"+o.Kind, fmt.Sprintf("seed %q, step %d of the long walk: %s", sd.Name, k, firstN(msg, 1500)),
							c09Replay{Seed: wi, Walk: k, Last: o, Choices: choices})
						break
					}
					if dA, dM := dumpNoMempool(next.a), dumpNoMempool(mp); msg == "" && dA != dM {
						c.Violation("C09/replicas-diverge-by-mempool-history/state", fmt.Sprintf("seed %q, step %d of the long walk, op %s: state differs between a replica with and one without mempool checks\nwithout: %s\nwith:    %s", sd.Name, k, o, firstN(dA, 600), firstN(dM, 600)),
							c09Replay{Seed: wi, Walk: k, Last: o, Mempool: true})
						break
					}
					n = next
					if c.Expired() {
						c.Stats.Cap("deadline in long walk")
						break
					}
				}
			}
			// work units: (seed, partition of the first-level alphabet); each unit is a
			// complete BFS below its first-level ops (no dedup across units).
			const parts = 5
			unit := -1
			for si, sd := range seeds {
				for part := 0; part < parts; part++ {
					unit++
					if unit%c.NShards != c.Shard {
						continue
					}
					si, sd, part := si, sd, part
					root := buildSeed(w, sd)
					var b *explore.BFS[node]
					b = &explore.BFS[node]{
						Key:       func(n node) string { return appx.StateKey(n.a) },
						MaxDepth:  depth,
						Deadline:  c.Deadline,
						KeepPaths: true,
						Expand: func(n node, d int, path []string, emit func(string, node)) {
							for oi, o := range alphabet {
								if d == 0 && oi%parts != part {
									continue
								}
								next, choices, msg := c09Transition(w, n, o, bound, c.Stats)
								c.Stats.Traces++
								if msg != "" {
									sig := "C09/replicas-diverge-under-map-order/" + o.Kind
									c.Violation(sig, fmt.Sprintf("seed %q, after %v:\n%s", sd.Name, path, msg),
										c09Replay{Seed: si, Ops: parseOps(path), Last: o, Choices: choices})
									b.Stop = true
									return
								}
								emit(opJSON(o), next)
							}
						},
					}
					b.Run([]node{root})
					c.Stats.States += int64(b.States)
					c.Stats.Transitions += int64(b.Transitions)
					c.Stats.Evaluations += int64(b.Transitions)
					if b.Capped != "" {
						c.Stats.Cap(fmt.Sprintf("seed %d part %d: %s at depth %d", si, part, b.Capped, b.DepthDone))
					}
					c.Stats.SetExtra(fmt.Sprintf("seed_%d_part_%d", si, part), map[string]any{"name": sd.Name, "states": b.States, "transitions": b.Transitions, "depth_completed": b.DepthDone, "frontier_not_expanded": b.FrontierCut})
					if si == 0 && part == 0 {
						c.Stats.Sample(map[string]any{"seed": sd.Name, "alphabet_size": len(alphabet), "depth": depth, "map_order_deviation_bound": bound, "example_ops": []string{alphabet[0].String(), alphabet[3].String(), alphabet[8].String(), endblock.String()}})
					}
				}
			}
		},
		Replay: func(c *report.Ctx, raw json.RawMessage) string {
			var rp c09Replay
			if err := json.Unmarshal(raw, &rp); err != nil {
				return "bad replay: " + err.Error()
			}
			w, seeds := c09World()
			n := buildSeed(w, seeds[rp.Seed])
			if rp.Mempool {
				alphabet := c09Alphabet(5)
				mp := appx.Clone(n.a)
				for k := 0; k <= rp.Walk; k++ {
					o := c09WalkOp(alphabet, k)
					if o.Kind != "endblock" {
						tx := w.Tx(mp, o, n.nonce())
						mp.CheckTx(abcitypes.RequestCheckTx{Tx: tx})
						mp.CheckTx(abcitypes.RequestCheckTx{Tx: tx, Type: abcitypes.CheckTxType_Recheck})
					}
					resM := w.Step(mp, o, n.nonce())
					resA := w.Step(n.a, o, n.nonce())
					n.nops++
					if !bytes.Equal(resA.Bytes, resM.Bytes) {
						return fmt.Sprintf("step %d (%s): a replica whose mempool checked the transactions answers differently: %v %v vs %v %v", k, o, resM.Deliver, resM.End, resA.Deliver, resA.End)
					}
					if dA, dM := dumpNoMempool(n.a), dumpNoMempool(mp); dA != dM {
						return fmt.Sprintf("step %d (%s): state differs between a replica with and one without mempool checks", k, o)
					}
				}
				return ""
			}
			if rp.Walk > 0 {
				alphabet := c09Alphabet(5)
				for k := 0; k < rp.Walk; k++ {
					w.Step(n.a, c09WalkOp(alphabet, k), n.nonce())
					n.nops++
				}
			}
			for _, o := range rp.Ops {
				w.Step(n.a, o, n.nonce())
				n.nops++
			}
			a := appx.Clone(n.a)
			resA := w.Step(a, rp.Last, n.nonce())
			b := appx.Clone(n.a)
			i := 0
			maporder.Chooser = func(k int, label string) int {
				if i < len(rp.Choices) {
					i++
					return rp.Choices[i-1]
				}
				return 0
			}
			resB := w.Step(b, rp.Last, n.nonce())
			maporder.Chooser = nil
			if !bytes.Equal(resA.Bytes, resB.Bytes) || appx.StateDump(a) != appx.StateDump(b) {
				return fmt.Sprintf("replicas diverge on %s:\nA: %v %v\nB: %v %v", rp.Last, resA.Deliver, resA.End, resB.Deliver, resB.End)
			}
			return ""
		},
	}
}
