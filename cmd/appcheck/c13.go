package main

import (
	"bytes"
	"crypto/sha256"
	"encoding/json"
	"fmt"
	"sort"
	"time"

	abcitypes "github.com/tendermint/tendermint/abci/types"
	tmproto "github.com/tendermint/tendermint/proto/tendermint/types"

	"github.com/shutter-network/rolling-shutter/rolling-shutter/app"

	"verif/explore"
	"verif/harness/appx"
	"verif/report"
	"verif/shim/vos"
)

// C13 — shuttermint restarted from its saved state continues identically.
//
// The real PersistToDisk / LoadShutterAppFromFile run on the in-memory file
// system vos (app.go's "os" import is redirected by cmd/rewrite).
//
//	(a) every (save height s <= crash height c) along scripted histories and
//	    all short histories: load the file written at s, check Info, replay the
//	    blocks after s and compare every response and every per-height state
//	    with the uninterrupted run;
//	(b) one-step bisimulation at every BFS state: load(save(state)) answers
//	    every op of the alphabet exactly like the state itself;
//	(c) crash enumeration inside PersistToDisk: before every file operation and
//	    inside every write, every admissible post-crash file-system state (all
//	    byte prefixes between synced and written length) is loaded.
const gobPath = "/data/shutter.gob"

type c13Replay struct {
	Kind    string         `json:"kind"` // replay | bisim | crash
	Genesis appx.Genesis   `json:"genesis"`
	Ops     []appx.Op      `json:"ops"`
	Save    int64          `json:"save_height,omitempty"`
	Last    *appx.Op       `json:"last,omitempty"`
	Event   int            `json:"crash_event,omitempty"`
	Partial int            `json:"crash_partial,omitempty"`
	Lens    map[string]int `json:"post_crash_lengths,omitempty"`
}

type c13rec struct {
	resp    [][]byte         // per op
	begin   map[int64][]byte // BeginBlock response that opened height h
	dumps   map[int64]string // state after commit of height h
	files   map[int64][]byte // state file after commit of height h
	states  map[int64]*app.ShutterApp
	blockOf []int64 // height an op belongs to
	// mid[i]: the state file as it is on disk right after op i (a transaction in the
	// middle of a block) was executed; nil if there is none yet
	mid map[int][]byte
}

// runPersisting executes the history on an app that persists at every commit.
func runPersisting(w *appx.World, g appx.Genesis, ops []appx.Op) *c13rec {
	vos.Cur = vos.New()
	app.PersistMinDuration = -time.Hour
	a, bb := w.U.NewApp(g)
	a.Gobpath = gobPath
	rec := &c13rec{begin: map[int64][]byte{}, dumps: map[int64]string{}, files: map[int64][]byte{}, states: map[int64]*app.ShutterApp{}, mid: map[int][]byte{}}
	b0, _ := bb.Marshal()
	rec.begin[1] = b0
	n := node{a: a}
	for _, o := range ops {
		h := a.LastBlockHeight + 1
		if o.Kind != "endblock" {
			// the running node's mempool has checked the transaction before it is
			// executed in a block (the node that is restarted later replays blocks only)
			a.CheckTx(abcitypes.RequestCheckTx{Tx: w.Tx(a, o, n.nonce())})
		}
		r := w.Step(a, o, n.nonce())
		n.nops++
		rec.resp = append(rec.resp, r.Bytes)
		rec.blockOf = append(rec.blockOf, h)
		if o.Kind != "endblock" {
			if data, _, ok := vos.Cur.Content(gobPath); ok {
				rec.mid[len(rec.resp)-1] = append([]byte(nil), data...)
			}
		}
		if o.Kind == "endblock" {
			rec.dumps[h] = appx.StateDump(a)
			data, _, ok := vos.Cur.Content(gobPath)
			if !ok {
				panic("state file missing after commit")
			}
			rec.files[h] = append([]byte(nil), data...)
			rec.states[h] = appx.Clone(a)
			bbb, _ := r.Begin.Marshal()
			rec.begin[h+1] = bbb
		}
	}
	return rec
}

// restartMid: the node dies right after op i (in the middle of a block) and is
// restarted from the state file that is on disk at that moment.
func restartMid(w *appx.World, ops []appx.Op, rec *c13rec, i int) string {
	data := rec.mid[i]
	if data == nil {
		return ""
	}
	fs := vos.New()
	fs.SetContent(gobPath, data)
	vos.Cur = fs
	loaded, err := app.LoadShutterAppFromFile(gobPath)
	if err != nil {
		return fmt.Sprintf("the state file on disk after op %d (%s, block %d) does not load: %v", i, ops[i], rec.blockOf[i], err)
	}
	s := loaded.Info(abcitypes.RequestInfo{}).LastBlockHeight
	if _, ok := rec.files[s]; !ok || s >= rec.blockOf[i] {
		return fmt.Sprintf("the state file on disk after op %d (%s, block %d) reports height %d, which is not a committed height below that block", i, ops[i], rec.blockOf[i], s)
	}
	if msg := restartFrom(w, ops, rec, s, data); msg != "" {
		return fmt.Sprintf("node killed after op %d (%s, in block %d) and restarted from the file on disk: %s", i, ops[i], rec.blockOf[i], msg)
	}
	return ""
}

// restartAt loads the file saved at height s and replays the rest.
func restartAt(w *appx.World, ops []appx.Op, rec *c13rec, s int64) string {
	return restartFrom(w, ops, rec, s, rec.files[s])
}

func restartFrom(w *appx.World, ops []appx.Op, rec *c13rec, s int64, file []byte) string {
	fs := vos.New()
	fs.SetContent(gobPath, file)
	vos.Cur = fs
	loaded, err := app.LoadShutterAppFromFile(gobPath)
	if err != nil {
		return fmt.Sprintf("state file saved at height %d does not load: %v", s, err)
	}
	a := &loaded
	if got := a.Info(abcitypes.RequestInfo{}).LastBlockHeight; got != s {
		return fmt.Sprintf("Info reports height %d after loading the file saved at height %d", got, s)
	}
	if d := appx.StateDump(a); d != rec.dumps[s] {
		return fmt.Sprintf("loaded state differs from the state that was saved at height %d\nloaded: %s\nsaved:  %s", s, d, rec.dumps[s])
	}
	// Tendermint replays from BeginBlock(s+1)
	bb := a.BeginBlock(abcitypes.RequestBeginBlock{Header: tmproto.Header{Height: s + 1}})
	b, _ := bb.Marshal()
	if !bytes.Equal(b, rec.begin[s+1]) {
		return fmt.Sprintf("BeginBlock(%d) differs after restart from height %d", s+1, s)
	}
	n := node{a: a}
	for i, o := range ops {
		n.nops = i
		if rec.blockOf[i] <= s {
			continue
		}
		h := a.LastBlockHeight + 1
		r := w.Step(a, o, n.nonce())
		if !bytes.Equal(r.Bytes, rec.resp[i]) {
			return fmt.Sprintf("after restart from height %d, op %d (%s) in block %d is answered differently", s, i, o, h)
		}
		if o.Kind == "endblock" {
			if d := appx.StateDump(a); d != rec.dumps[h] {
				return fmt.Sprintf("after restart from height %d the state after block %d differs\nrestarted:     %s\nuninterrupted: %s", s, h, d, rec.dumps[h])
			}
		}
	}
	return ""
}

// crashCase is one admissible post-crash file system.
func enumPostCrash(fs *vos.FS, fn func(lens map[string]int, post *vos.FS)) {
	paths := fs.Paths()
	sort.Strings(paths)
	type rng struct{ lo, hi int }
	rs := make([]rng, len(paths))
	for i, p := range paths {
		data, synced, _ := fs.Content(p)
		rs[i] = rng{synced, len(data)}
	}
	cur := make([]int, len(paths))
	var rec func(i int)
	rec = func(i int) {
		if i == len(paths) {
			post := vos.New()
			lens := map[string]int{}
			for j, p := range paths {
				data, _, _ := fs.Content(p)
				post.SetContent(p, data[:cur[j]])
				lens[p] = cur[j]
			}
			fn(lens, post)
			return
		}
		for l := rs[i].lo; l <= rs[i].hi; l++ {
			cur[i] = l
			rec(i + 1)
		}
	}
	rec(0)
}

func fsKey(fs *vos.FS) [32]byte {
	paths := fs.Paths()
	sort.Strings(paths)
	h := sha256.New()
	for _, p := range paths {
		d, _, _ := fs.Content(p)
		fmt.Fprintf(h, "%s:%d:", p, len(d))
		h.Write(d)
	}
	var k [32]byte
	copy(k[:], h.Sum(nil))
	return k
}

// crashDuringSave enumerates crashes of PersistToDisk of state `cur` while the
// file of state `prev` is on disk.
func crashDuringSave(c *report.Ctx, hist baseHistory, upto int, prevFile []byte, prevDump string, cur *app.ShutterApp, curDump string) (string, *c13Replay) {
	base := vos.New()
	base.SetContent(gobPath, prevFile)
	// dry run
	vos.Cur = base.Clone()
	dry := appx.Clone(cur)
	dry.Gobpath = gobPath
	if err := dry.PersistToDisk(); err != nil {
		return "PersistToDisk failed without any fault: " + err.Error(), &c13Replay{Kind: "crash", Genesis: hist.Genesis, Ops: hist.Ops[:upto]}
	}
	events := vos.Cur.Log
	seen := map[[32]byte]bool{}
	type cp struct{ ev, partial int }
	var cps []cp
	for k, e := range events {
		cps = append(cps, cp{k, -2})
		if e.Op == "write" && e.Len > 0 {
			for _, p := range []int{1, e.Len / 2, e.Len - 1} {
				if p > 0 && p < e.Len {
					cps = append(cps, cp{k, p})
				}
			}
		}
	}
	cps = append(cps, cp{len(events), -2}) // no crash: completed save
	for _, x := range cps {
		fs := base.Clone()
		fs.Hook = func(e vos.Event) int {
			if e.Seq == x.ev {
				if x.partial >= 0 {
					return x.partial
				}
				panic(vos.Crash{At: e.Seq})
			}
			return -1
		}
		vos.Cur = fs
		a := appx.Clone(cur)
		a.Gobpath = gobPath
		func() {
			defer func() {
				if p := recover(); p != nil {
					if _, ok := p.(vos.Crash); !ok {
						panic(p)
					}
				}
			}()
			_ = a.PersistToDisk()
		}()
		fs.Hook = nil
		c.Stats.Count("crash_points", 1)
		var bad string
		var badLens map[string]int
		enumPostCrash(fs, func(lens map[string]int, post *vos.FS) {
			if bad != "" {
				return
			}
			k := fsKey(post)
			if seen[k] {
				return
			}
			seen[k] = true
			c.Stats.Evaluations++
			vos.Cur = post
			loaded, err := app.LoadShutterAppFromFile(gobPath)
			if err != nil {
				bad = fmt.Sprintf("crash at file operation %d (%s, partial=%d): state file does not load afterwards: %v (post-crash file lengths %v)", x.ev, evName(events, x.ev), x.partial, err, lens)
				badLens = lens
				return
			}
			d := appx.StateDump(&loaded)
			switch d {
			case prevDump:
				c.Stats.Class("post-crash state loads as the previous save")
			case curDump:
				c.Stats.Class("post-crash state loads as the new save")
			default:
				bad = fmt.Sprintf("crash at file operation %d (%s, partial=%d): loaded state is neither the previous nor the new one (post-crash file lengths %v)", x.ev, evName(events, x.ev), x.partial, lens)
				badLens = lens
				return
			}
			// the restarted node can save again
			loaded.Gobpath = gobPath
			if err := loaded.PersistToDisk(); err != nil {
				bad = fmt.Sprintf("after recovery from a crash at operation %d the next save fails: %v", x.ev, err)
				badLens = lens
				return
			}
			if _, err := app.LoadShutterAppFromFile(gobPath); err != nil {
				bad = fmt.Sprintf("after recovery from a crash at operation %d the next save does not load: %v", x.ev, err)
				badLens = lens
			}
		})
		if bad != "" {
			return bad, &c13Replay{Kind: "crash", Genesis: hist.Genesis, Ops: hist.Ops[:upto], Event: x.ev, Partial: x.partial, Lens: badLens}
		}
	}
	return "", nil
}

func evName(events []vos.Event, k int) string {
	if k >= len(events) {
		return "after the last operation"
	}
	return events[k].Op + " " + events[k].Path
}

// bisimStep: load(save(s)) must answer op exactly like s.
func bisimStep(w *appx.World, n node, o appx.Op) string {
	vos.Cur = vos.New()
	src := appx.Clone(n.a)
	src.Gobpath = gobPath
	if err := src.PersistToDisk(); err != nil {
		return "PersistToDisk: " + err.Error()
	}
	loaded, err := app.LoadShutterAppFromFile(gobPath)
	if err != nil {
		return "load: " + err.Error()
	}
	l := &loaded
	l.Gobpath = ""
	orig := appx.Clone(n.a)
	var r1, r2 appx.Result
	var p1, p2 any
	func() {
		defer func() { p1 = recover() }()
		r1 = w.Step(orig, o, n.nonce())
	}()
	func() {
		defer func() { p2 = recover() }()
		r2 = w.Step(l, o, n.nonce())
	}()
	if p2 != nil && p1 == nil {
		return fmt.Sprintf("restarted app panics on %s: %v", o, p2)
	}
	if p1 != nil {
		panic(p1)
	}
	if !bytes.Equal(r1.Bytes, r2.Bytes) {
		return fmt.Sprintf("restarted app answers %s differently: %v vs %v", o, r2.Deliver, r1.Deliver)
	}
	if d1, d2 := appx.StateDump(orig), appx.StateDump(l); d1 != d2 {
		return fmt.Sprintf("state after %s differs between restarted and uninterrupted app\nrestarted:     %s\nuninterrupted: %s", o, d2, d1)
	}
	return ""
}

func c13() *report.Check {
	return &report.Check{
		Level: "fault_enumeration",
		Rule:  "real PersistToDisk/LoadShutterAppFromFile on an in-memory file system; (a) every (save height <= crash height) pair along scripted and all short histories, replaying the remaining blocks against the uninterrupted run; (b) one-step bisimulation load(save(s)) vs s for every op at every BFS state; (c) a crash before every file operation and inside every write of a save, with every admissible post-crash file state (all byte prefixes between synced and written length, de-duplicated by content) loaded. Classes = which state a post-crash file system loads as, restart heights, bisimulated op kinds",
		Assumptions: []string{
			"file-system model: unsynced data survives a crash as any prefix between the last synced length and the written length; rename is atomic and durable in issue order (vos)",
			"Tendermint replays exactly the blocks after the height reported by Info",
		},
		Shards: func(bool) int { return 16 },
		Budget: minutes(3, 20),
		Run: func(c *report.Ctx) {
			w := appWorld()
			hists := baseHistories()
			// (a)+(c) scripted histories
			unit := 0
			for hi, h := range hists {
				unit++
				if unit%c.NShards != c.Shard {
					continue
				}
				rec := runPersisting(w, h.Genesis, h.Ops)
				var heights []int64
				for s := range rec.files {
					heights = append(heights, s)
				}
				sort.Slice(heights, func(i, j int) bool { return heights[i] < heights[j] })
				for _, s := range heights {
					c.Stats.Evaluations++
					c.Stats.Count("restart_pairs", int64(len(heights))-s+1)
					c.Stats.Class(fmt.Sprintf("restart from saved height %d", s))
					if msg := restartAt(w, h.Ops, rec, s); msg != "" {
						c.Violation("C13/restart-diverges", h.Name+": "+msg, c13Replay{Kind: "replay", Genesis: h.Genesis, Ops: h.Ops, Save: s})
						return
					}
				}
				// node killed in the middle of a block (after each transaction), restarted from
				// the file found on disk
				for i := range h.Ops {
					if h.Ops[i].Kind == "endblock" {
						continue
					}
					c.Stats.Evaluations++
					c.Stats.Count("mid_block_restarts", 1)
					if msg := restartMid(w, h.Ops, rec, i); msg != "" {
						c.Violation("C13/restart-diverges", h.Name+": "+msg, c13Replay{Kind: "mid", Genesis: h.Genesis, Ops: h.Ops, Event: i})
						return
					}
				}
				// crash during each save but the first
				for i := 1; i < len(heights); i++ {
					prev, cur := heights[i-1], heights[i]
					upto := 0
					for j := range h.Ops {
						if rec.blockOf[j] <= cur {
							upto = j + 1
						}
					}
					msg, rp := crashDuringSave(c, h, upto, rec.files[prev], rec.dumps[prev], rec.states[cur], rec.dumps[cur])
					if msg != "" {
						c.Violation("C13/crash-during-save", fmt.Sprintf("%s, save at height %d: %s", h.Name, cur, msg), rp)
						return
					}
				}
				if hi == 0 {
					c.Stats.Sample(map[string]any{"history": h.Name, "ops": fmt.Sprint(h.Ops), "saved_heights": heights})
				}
			}
			// (a) all short histories + (b) bisimulation at every BFS state
			_, seeds := c09World()
			depth := 2
			if c.Thorough {
				depth = 3
			}
			alphabet := c09Alphabet(5)
			for si, sd := range seeds {
				unit++
				if unit%c.NShards != c.Shard {
					continue
				}
				si, sd := si, sd
				root := buildSeed(w, sd)
				var b *explore.BFS[node]
				b = &explore.BFS[node]{
					Key: func(n node) string { return appx.StateKey(n.a) }, MaxDepth: depth, Deadline: c.Deadline, KeepPaths: true,
					OnState: func(n node, d int, path []string) {
						for _, o := range alphabet {
							o := o
							c.Stats.Evaluations++
							c.Stats.Count("bisimulation_steps", 1)
							if msg := bisimStep(w, n, o); msg != "" {
								c.Violation("C13/restarted-app-behaves-differently", fmt.Sprintf("seed %q after %v: %s", sd.Name, path, msg),
									c13Replay{Kind: "bisim", Genesis: sd.Genesis, Ops: append(append([]appx.Op{}, sd.Ops...), parseOps(path)...), Last: &o})
								b.Stop = true
								return
							}
						}
						c.Stats.Class("bisimulated state at depth " + fmt.Sprint(d))
					},
					Expand: func(n node, d int, path []string, emit func(string, node)) {
						for _, o := range alphabet {
							a := appx.Clone(n.a)
							w.Step(a, o, n.nonce())
							emit(opJSON(o), node{a, n.nops + 1})
						}
					},
				}
				b.Run([]node{root})
				c.Stats.Count("bisimulated_states", int64(b.States))
				if b.Capped != "" {
					c.Stats.Cap(fmt.Sprintf("bisim seed %d: %s", si, b.Capped))
				}
			}
		},
		Replay: func(c *report.Ctx, raw json.RawMessage) string {
			var rp c13Replay
			if err := json.Unmarshal(raw, &rp); err != nil {
				return err.Error()
			}
			w := appWorld()
			switch rp.Kind {
			case "replay":
				rec := runPersisting(w, rp.Genesis, rp.Ops)
				return restartAt(w, rp.Ops, rec, rp.Save)
			case "mid":
				rec := runPersisting(w, rp.Genesis, rp.Ops)
				return restartMid(w, rp.Ops, rec, rp.Event)
			case "bisim":
				a, _ := w.U.NewApp(rp.Genesis)
				n := node{a: a}
				for _, o := range rp.Ops {
					w.Step(n.a, o, n.nonce())
					n.nops++
				}
				return bisimStep(w, n, *rp.Last)
			case "crash":
				rec := runPersisting(w, rp.Genesis, rp.Ops)
				var hs []int64
				for s := range rec.files {
					hs = append(hs, s)
				}
				sort.Slice(hs, func(i, j int) bool { return hs[i] < hs[j] })
				if len(hs) < 2 {
					return ""
				}
				prev, cur := hs[len(hs)-2], hs[len(hs)-1]
				msg, _ := crashDuringSave(c, baseHistory{Genesis: rp.Genesis, Ops: rp.Ops}, len(rp.Ops), rec.files[prev], rec.dumps[prev], rec.states[cur], rec.dumps[cur])
				return msg
			}
			return "unknown replay kind"
		},
	}
}
