// Command appcheck holds the checks of the shuttermint application group
// (C09 replica determinism, C10 hostile transactions, C11 governance,
// C12 validator updates, C13 persistence). Every transition of every search is
// a call into the real rolling-shutter/app package.
package main

import (
	"verif/report"
)

func main() {
	report.Main(map[string]*report.Check{
		"C09": c09(),
		"C10": c10(),
		"C11": c11(),
		"C12": c12(),
		"C13": c13(),
	})
}
