package main

import (
	"encoding/json"
	"time"

	"github.com/shutter-network/rolling-shutter/rolling-shutter/app"

	"verif/harness/appx"
)

// node is a BFS state: a live application plus the number of ops applied so
// far (used to derive fresh nonces).
type node struct {
	a    *app.ShutterApp
	nops int
}

func (n node) nonce() uint64 { return uint64(1000 + n.nops) }

// seed is an initial state given by a genesis and a scripted op list.
type seed struct {
	Name    string
	Genesis appx.Genesis
	Ops     []appx.Op
}

func buildSeed(w *appx.World, s seed) node {
	a, _ := w.U.NewApp(s.Genesis)
	n := node{a: a}
	for _, op := range s.Ops {
		w.Step(n.a, op, n.nonce())
		n.nops++
	}
	return n
}

func opJSON(op appx.Op) string {
	b, _ := json.Marshal(op)
	return string(b)
}

func parseOps(labels []string) []appx.Op {
	out := make([]appx.Op, len(labels))
	for i, l := range labels {
		if err := json.Unmarshal([]byte(l), &out[i]); err != nil {
			panic(err)
		}
	}
	return out
}

func minutes(quick, thorough float64) func(bool) time.Duration {
	return func(t bool) time.Duration {
		if t {
			return time.Duration(thorough * float64(time.Minute))
		}
		return time.Duration(quick * float64(time.Minute))
	}
}

func op(kind string, sender, a, b int) appx.Op {
	return appx.Op{Kind: kind, Sender: sender, A: a, B: b}
}

var endblock = appx.Op{Kind: "endblock"}

// baseHistory is a scripted valid history used by C10 and C13.
type baseHistory struct {
	Name    string
	Genesis appx.Genesis
	Ops     []appx.Op
}

func appWorld() *appx.World {
	_, _ = c09World()
	w, _ := c09World()
	return w
}

// baseHistories reach: fresh chain, config voted, eon running through its DKG
// messages, failure votes and restart, set change with start and check-ins,
// key changes after the fork, foreign/stale/duplicate traffic.
func baseHistories() []baseHistory {
	g4 := appx.Genesis{Members: []int{0, 1, 2, 3}, Threshold: 2}
	g3 := appx.Genesis{Members: []int{0, 1, 2}, Threshold: 2, ForkEnabled: true}
	return []baseHistory{
		{Name: "H1 n=4 t=2: config, check-ins, DKG messages, failure votes, restart, success", Genesis: g4, Ops: []appx.Op{
			op("seen", 0, 0, 0), op("seen", 1, 0, 0), endblock,
			op("cfg", 0, 0, 0), op("cfg", 1, 0, 0), op("checkin", 0, 0, 0), op("checkin", 1, 0, 0), op("checkin", 2, 0, 0), endblock,
			op("commit", 0, 0, 1), op("commit", 1, 0, 1), op("eval", 0, 0, 0), op("eval", 1, 0, 0), endblock,
			op("accuse", 2, 0, 0), op("apology", 3, 0, 0), op("result", 0, 0, 0), op("result", 1, 0, 0), endblock,
			op("commit", 2, 0, 1), op("result", 2, 0, 1), op("result", 3, 0, 1), op("checkin", 3, 0, 0), endblock,
		}},
		{Name: "H2 n=3 t=2 fork: check-ins with key change, set rotation, start of new config", Genesis: g3, Ops: []appx.Op{
			op("checkin", 0, 0, 0), op("seen", 0, 0, 0), endblock,
			op("checkin", 0, 1, 0), op("checkin", 1, 0, 0), op("seen", 1, 0, 0), op("checkin", 2, 0, 0), endblock,
			op("cfg", 1, 1, 0), op("cfg", 2, 1, 0), endblock,
			op("checkin", 3, 0, 0), op("seen", 2, 0, 0), endblock,
			op("commit", 1, 0, 1), op("eval", 2, 0, 0), op("result", 1, 0, 1), op("result", 2, 0, 1), endblock,
		}},
		{Name: "H3 n=4 t=2: foreign and stale traffic between valid steps", Genesis: g4, Ops: []appx.Op{
			op("cfg", 4, 0, 0), op("checkin", 4, 0, 0), op("seen", 4, 0, 0), op("cfg", 0, 2, 0), endblock,
			op("cfg", 0, 1, 0), op("cfg", 1, 0, 0), op("cfg", 2, 0, 0), op("result", 0, 0, 1), endblock,
			op("result", 4, 0, 0), op("commit", 4, 0, 1), op("eval", 0, 1, 0), op("seen", 2, 1, 0), endblock,
		}},
		{Name: "H4 n=3 t=2 fork: empty blocks and late activity", Genesis: g3, Ops: []appx.Op{
			endblock, endblock, op("seen", 0, 0, 0), op("seen", 1, 0, 0), op("seen", 2, 0, 0), endblock,
			op("checkin", 0, 0, 0), op("checkin", 1, 0, 0), op("checkin", 2, 0, 0), endblock, endblock,
			op("cfg", 0, 0, 0), op("cfg", 2, 0, 0), endblock,
		}},
		{Name: "H5 n=3 t=2, node started in dev mode: check-ins, config change, DKG votes", Genesis: appx.Genesis{Members: []int{0, 1, 2}, Threshold: 2, DevMode: true}, Ops: []appx.Op{
			op("checkin", 0, 0, 0), op("seen", 0, 0, 0), endblock,
			op("checkin", 1, 0, 0), op("seen", 1, 0, 0), op("cfg", 0, 0, 0), op("cfg", 1, 0, 0), endblock,
			op("commit", 0, 0, 1), op("result", 0, 0, 0), op("result", 1, 0, 0), endblock, endblock,
		}},
		{Name: "H6 n=3 t=2, genesis document with the fork height 3 in the legacy field: key changes before and after that height", Genesis: appx.Genesis{Members: []int{0, 1, 2}, Threshold: 2, LegacyFork: 3}, Ops: []appx.Op{
			op("checkin", 0, 0, 0), op("checkin", 1, 0, 0), op("seen", 0, 0, 0), op("seen", 1, 0, 0), endblock,
			op("checkin", 0, 1, 0), op("checkin", 2, 0, 0), endblock,
			op("checkin", 1, 1, 0), endblock,
			op("checkin", 0, 1, 0), op("checkin", 2, 1, 0), endblock, endblock,
		}},
	}
}
