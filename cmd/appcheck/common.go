package main

import (
	"encoding/json"
	"time"

	"github.com/shutter-network/rolling-shutter/rolling-shutter/app"

	"verif/harness/appx"
)

// node is a BFS state: a live application plus the number of ops applied so
// far (used to derive fresh nonces).
type node struct {
	a    *app.ShutterApp
	nops int
}

func (n node) nonce() uint64 { return uint64(1000 + n.nops) }

// seed is an initial state given by a genesis and a scripted op list.
type seed struct {
	Name    string
	Genesis appx.Genesis
	Ops     []appx.Op
}

func buildSeed(w *appx.World, s seed) node {
	a, _ := w.U.NewApp(s.Genesis)
	n := node{a: a}
	for _, op := range s.Ops {
		w.Step(n.a, op, n.nonce())
		n.nops++
	}
	return n
}

func opJSON(op appx.Op) string {
	b, _ := json.Marshal(op)
	return string(b)
}

func parseOps(labels []string) []appx.Op {
	out := make([]appx.Op, len(labels))
	for i, l := range labels {
		if err := json.Unmarshal([]byte(l), &out[i]); err != nil {
			panic(err)
		}
	}
	return out
}

func minutes(quick, thorough float64) func(bool) time.Duration {
	return func(t bool) time.Duration {
		if t {
			return time.Duration(thorough * float64(time.Minute))
		}
		return time.Duration(quick * float64(time.Minute))
	}
}

func op(kind string, sender, a, b int) appx.Op { return appx.Op{Kind: kind, Sender: sender, A: a, B: b} }

var endblock = appx.Op{Kind: "endblock"}
