package main

import (
	"encoding/json"
	"fmt"
	"sort"
	"strings"

	"github.com/ethereum/go-ethereum/common"
	abcitypes "github.com/tendermint/tendermint/abci/types"

	"github.com/shutter-network/rolling-shutter/rolling-shutter/app"
	"github.com/shutter-network/rolling-shutter/rolling-shutter/keyper/shutterevents"

	"verif/explore"
	"verif/harness/appx"
	"verif/report"
)

// C11 — keyper-set changes need a threshold of the current set; eons are unique.
//
// BFS over transaction histories on the real app in lock-step with a reference
// model written from docs/spec.md and the property statement (no code shared
// with the app). Every transition compares the response class (0 / non-zero)
// and the decoded events with the model's prediction; every state compares the
// model's governance state with the app's and evaluates the invariants.

type mCfg struct {
	Members   []int
	Threshold uint64
	Index     uint64
	Act       uint64
	Started   bool
}

type mEon struct {
	Eon    uint64
	Cfg    int // index into Configs
	Votes  map[int]bool
	Newest bool
}

type model struct {
	Configs []mCfg
	Votes   map[int]string // sender -> candidate (canonical string), current round
	Eons    []mEon
	EonCtr  uint64
	Seen    map[int]uint64
	HasSeen map[int]bool
	VoteLog []string // accepted votes of the current round (for the threshold monitor)
}

func (m *model) clone() *model {
	n := &model{EonCtr: m.EonCtr, Votes: map[int]string{}, Seen: map[int]uint64{}, HasSeen: map[int]bool{}}
	n.Configs = append(n.Configs, m.Configs...)
	for k, v := range m.Votes {
		n.Votes[k] = v
	}
	for k, v := range m.Seen {
		n.Seen[k] = v
	}
	for k, v := range m.HasSeen {
		n.HasSeen[k] = v
	}
	for _, e := range m.Eons {
		ne := mEon{Eon: e.Eon, Cfg: e.Cfg, Newest: e.Newest, Votes: map[int]bool{}}
		for k, v := range e.Votes {
			ne.Votes[k] = v
		}
		n.Eons = append(n.Eons, ne)
	}
	n.VoteLog = append(n.VoteLog, m.VoteLog...)
	return n
}

func (m *model) last() mCfg { return m.Configs[len(m.Configs)-1] }

func member(c mCfg, s int) bool {
	for _, x := range c.Members {
		if x == s {
			return true
		}
	}
	return false
}

func candString(members []int, t, idx, act uint64) string {
	return fmt.Sprintf("cfg{members=%v t=%d idx=%d act=%d}", members, t, idx, act)
}

// prediction of one transition
type pred struct {
	ok       bool     // code 0 expected
	events   []string // expected events, canonical
	dontCare bool     // model makes no prediction about response (message kinds outside the property)
	either   []string // alternative admissible event list (ambiguous restart), nil if none
}

func evBatchConfig(c mCfg) string {
	return fmt.Sprintf("batch-config(idx=%d act=%d t=%d members=%v)", c.Index, c.Act, c.Threshold, c.Members)
}
func evEonStarted(eon, act, idx uint64) string {
	return fmt.Sprintf("eon-started(eon=%d act=%d idx=%d)", eon, act, idx)
}
func evStarted(idx uint64) string { return fmt.Sprintf("batch-config-started(idx=%d)", idx) }

// stepModel predicts op and updates the model. resolved carries the concrete
// values the op resolved to (candidate fields, eon number).
func (m *model) step(w *appx.World, o appx.Op, a *app.ShutterApp) pred {
	s := o.Sender
	switch o.Kind {
	case "cfg":
		c := w.Candidates[o.A]
		last := m.last()
		idx := int64(last.Index) + int64(c.IndexPlus)
		if idx < 0 {
			idx = 0
		}
		cand := mCfg{Members: c.Members, Threshold: c.Threshold, Index: uint64(idx), Act: c.Act}
		// structural validity
		if len(cand.Members) == 0 || cand.Threshold == 0 || cand.Threshold > uint64(len(cand.Members)) {
			return pred{ok: false}
		}
		if cand.Act < last.Act || cand.Index <= last.Index {
			return pred{ok: false}
		}
		if !member(last, s) {
			return pred{ok: false}
		}
		if _, voted := m.Votes[s]; voted {
			return pred{ok: false}
		}
		cs := candString(cand.Members, cand.Threshold, cand.Index, cand.Act)
		m.Votes[s] = cs
		m.VoteLog = append(m.VoteLog, fmt.Sprintf("%d:%s", s, cs))
		n := uint64(0)
		for _, v := range m.Votes {
			if v == cs {
				n++
			}
		}
		if n >= last.Threshold {
			m.Configs = append(m.Configs, cand)
			m.Votes = map[int]string{}
			m.VoteLog = nil
			m.EonCtr++
			for i := range m.Eons {
				m.Eons[i].Newest = false
			}
			m.Eons = append(m.Eons, mEon{Eon: m.EonCtr, Cfg: len(m.Configs) - 1, Votes: map[int]bool{}, Newest: true})
			return pred{ok: true, events: []string{evBatchConfig(cand), evEonStarted(m.EonCtr, cand.Act, cand.Index)}}
		}
		return pred{ok: true}
	case "seen":
		b := w.SeenBlocks[o.A]
		if !m.HasSeen[s] || b > m.Seen[s] {
			m.Seen[s] = b
		}
		m.HasSeen[s] = true
		return pred{ok: true}
	case "result":
		e := int64(m.EonCtr) - int64(o.A)
		if e < 0 {
			e = 0
		}
		var eon *mEon
		for i := range m.Eons {
			if m.Eons[i].Eon == uint64(e) {
				eon = &m.Eons[i]
			}
		}
		if eon == nil {
			return pred{ok: false}
		}
		cfg := m.Configs[eon.Cfg]
		if !member(cfg, s) {
			return pred{ok: false}
		}
		if _, voted := eon.Votes[s]; voted {
			return pred{ok: false}
		}
		eon.Votes[s] = o.B == 1
		var fail, succ uint64
		for _, v := range eon.Votes {
			if v {
				succ++
			} else {
				fail++
			}
		}
		if eon.Newest && fail >= cfg.Threshold {
			restart := []string{evEonStarted(m.EonCtr+1, cfg.Act, cfg.Index)}
			if succ >= cfg.Threshold {
				// both outcomes have reached the threshold: the statement only says a
				// restart needs >= threshold failures; either answer is admissible and
				// the model follows the app (resolved in c11Step).
				return pred{ok: true, events: nil, either: restart}
			}
			m.restart(eon.Cfg)
			return pred{ok: true, events: restart}
		}
		return pred{ok: true}
	case "endblock":
		var evs []string
		for i := range m.Configs {
			c := &m.Configs[i]
			if c.Started {
				continue
			}
			prev := m.Configs[0]
			if i > 0 {
				prev = m.Configs[i-1]
			}
			var n uint64
			for _, k := range prev.Members {
				if m.HasSeen[k] && m.Seen[k] >= c.Act {
					n++
				}
			}
			if n >= prev.Threshold {
				c.Started = true
				evs = append(evs, evStarted(c.Index))
			}
		}
		return pred{ok: true, events: evs}
	}
	return pred{dontCare: true}
}

func (m *model) restart(cfg int) {
	m.EonCtr++
	for i := range m.Eons {
		m.Eons[i].Newest = false
	}
	m.Eons = append(m.Eons, mEon{Eon: m.EonCtr, Cfg: cfg, Votes: map[int]bool{}, Newest: true})
}

func (m *model) dump() string {
	var sb strings.Builder
	fmt.Fprintf(&sb, "%v|", m.Configs)
	keys := []int{}
	for k := range m.Votes {
		keys = append(keys, k)
	}
	sort.Ints(keys)
	for _, k := range keys {
		fmt.Fprintf(&sb, "%d=%s,", k, m.Votes[k])
	}
	fmt.Fprintf(&sb, "|%d|", m.EonCtr)
	for _, e := range m.Eons {
		ks := []int{}
		for k := range e.Votes {
			ks = append(ks, k)
		}
		sort.Ints(ks)
		fmt.Fprintf(&sb, "eon%d/cfg%d/%v:", e.Eon, e.Cfg, e.Newest)
		for _, k := range ks {
			fmt.Fprintf(&sb, "%d=%v,", k, e.Votes[k])
		}
	}
	sb.WriteString("|")
	for i := 0; i < 8; i++ {
		if m.HasSeen[i] {
			fmt.Fprintf(&sb, "%d>%d,", i, m.Seen[i])
		}
	}
	return sb.String()
}

// appGov renders the app's governance state in the model's vocabulary.
func appGov(w *appx.World, a *app.ShutterApp) string {
	m := &model{Votes: map[int]string{}, Seen: map[int]uint64{}, HasSeen: map[int]bool{}, EonCtr: a.EONCounter}
	idxOf := func(addrs []common.Address) []int {
		out := make([]int, len(addrs))
		for i, x := range addrs {
			out[i] = w.U.Index(x)
		}
		return out
	}
	for _, c := range a.Configs {
		m.Configs = append(m.Configs, mCfg{Members: idxOf(c.Keypers), Threshold: c.Threshold, Index: c.KeyperConfigIndex, Act: c.ActivationBlockNumber, Started: c.Started})
	}
	for addr, ci := range a.ConfigVoting.Votes {
		c := a.ConfigVoting.Candidates[ci]
		m.Votes[w.U.Index(addr)] = candString(idxOf(c.Keypers), c.Threshold, c.KeyperConfigIndex, c.ActivationBlockNumber)
	}
	var eons []uint64
	for e := range a.DKGMap {
		eons = append(eons, e)
	}
	sort.Slice(eons, func(i, j int) bool { return eons[i] < eons[j] })
	for _, e := range eons {
		d := a.DKGMap[e]
		cfgIdx := -1
		for i, c := range a.Configs {
			if c.KeyperConfigIndex == d.Config.KeyperConfigIndex && i > 0 {
				cfgIdx = i
			}
		}
		me := mEon{Eon: e, Cfg: cfgIdx, Votes: map[int]bool{}, Newest: e == a.EONCounter}
		for addr, vi := range d.SuccessVoting.Votes {
			me.Votes[w.U.Index(addr)] = d.SuccessVoting.Candidates[vi]
		}
		m.Eons = append(m.Eons, me)
	}
	for addr, b := range a.BlocksSeen {
		if i := w.U.Index(addr); i >= 0 {
			m.Seen[i] = b
			m.HasSeen[i] = true
		}
	}
	return m.dump()
}

func renderEvents(w *appx.World, evs []abcitypes.Event) ([]string, error) {
	var out []string
	for _, ev := range evs {
		x, err := shutterevents.MakeEvent(ev, 0)
		if err != nil {
			return nil, fmt.Errorf("event %s does not decode: %v", ev.Type, err)
		}
		switch e := x.(type) {
		case *shutterevents.BatchConfig:
			idx := make([]int, len(e.Keypers))
			for i, k := range e.Keypers {
				idx[i] = w.U.Index(k)
			}
			out = append(out, evBatchConfig(mCfg{Members: idx, Threshold: e.Threshold, Index: e.KeyperConfigIndex, Act: e.ActivationBlockNumber}))
		case *shutterevents.EonStarted:
			out = append(out, evEonStarted(e.Eon, e.ActivationBlockNumber, e.KeyperConfigIndex))
		case *shutterevents.BatchConfigStarted:
			out = append(out, evStarted(e.KeyperConfigIndex))
		default:
			out = append(out, fmt.Sprintf("%T", x))
		}
	}
	return out, nil
}

type c11node struct {
	node
	m      *model
	first  []byte // first tx of the history (for replay transitions)
	lastTx []byte
	pre    []appx.Op
}

type c11cfg struct {
	N, T int
}

func c11World(cf c11cfg) (*appx.World, appx.Genesis, []appx.Op) {
	u := appx.NewUniverse(cf.N + 2)
	members := make([]int, cf.N)
	for i := range members {
		members[i] = i
	}
	rot := append(append([]int{}, members[1:]...), cf.N)
	w := &appx.World{U: u, Candidates: []appx.Candidate{
		{Members: members, Threshold: uint64(cf.T), IndexPlus: 1, Act: 0},
		{Members: rot, Threshold: uint64(minInt(2, cf.N)), IndexPlus: 1, Act: 5},
		{Members: members, Threshold: uint64(cf.T), IndexPlus: 0, Act: 5},
		{Members: members, Threshold: 0, IndexPlus: 1, Act: 5},
		{Members: members, Threshold: uint64(cf.N + 1), IndexPlus: 1, Act: 5},
		// equal to candidate 0 except for the threshold (votes for it must not be pooled with candidate 0's)
		{Members: members, Threshold: uint64(cf.T%cf.N + 1), IndexPlus: 1, Act: 0},
		// candidate 1 two indices ahead: voted for while another configuration is
		// being accepted it stays admissible afterwards, and is then the same
		// configuration as candidate 1 (votes from the earlier round must be gone)
		{Members: rot, Threshold: uint64(minInt(2, cf.N)), IndexPlus: 2, Act: 5},
	}, SeenBlocks: []uint64{5, 3}}
	g := appx.Genesis{Members: members, Threshold: uint64(cf.T)}
	var ops []appx.Op
	for s := 0; s < cf.N+2; s++ {
		for c := range w.Candidates {
			ops = append(ops, op("cfg", s, c, 0))
		}
		ops = append(ops, op("seen", s, 0, 0), op("seen", s, 1, 0))
		for e := 0; e < 2; e++ {
			ops = append(ops, op("result", s, e, 1), op("result", s, e, 0))
		}
	}
	ops = append(ops, endblock, appx.Op{Kind: "replay", A: 0}, appx.Op{Kind: "replay", A: 1})
	// message kinds the property does not talk about: responses not predicted,
	// but they must leave the governance state alone
	ops = append(ops, op("checkin", 0, 0, 0), op("commit", 1, 0, 1), op("eval", 0, 0, 0), op("accuse", 1, 0, 0), op("apology", 0, 0, 0))
	return w, g, ops
}

func minInt(a, b int) int {
	if a < b {
		return a
	}
	return b
}

// c11Step applies op to app and model and compares.
func c11Step(w *appx.World, n c11node, o appx.Op, st *report.Stats) (c11node, string) {
	return c11StepOpt(w, n, o, st, true)
}

// c11StepOpt with clone=false steps the node in place (long walks, where copying
// an ever growing state at every step would be quadratic).
func c11StepOpt(w *appx.World, n c11node, o appx.Op, st *report.Stats, clone bool) (c11node, string) {
	a, m := n.a, n.m
	if clone {
		a = appx.Clone(n.a)
		m = n.m.clone()
	}
	next := c11node{node: node{a, n.nops + 1}, m: m, first: n.first, lastTx: n.lastTx, pre: n.pre}
	if o.Kind == "replay" {
		tx := n.first
		if o.A == 1 {
			tx = n.lastTx
		}
		if tx == nil {
			return next, ""
		}
		before := appx.StateDump(a)
		r := a.DeliverTx(abcitypes.RequestDeliverTx{Tx: tx})
		if r.Code == 0 {
			return next, "a (sender, nonce) pair executed twice: replayed transaction got code 0"
		}
		if len(r.Events) > 0 {
			return next, fmt.Sprintf("replayed transaction emitted events %v", r.Events)
		}
		if appx.StateDump(a) != before {
			return next, "replayed transaction changed the state"
		}
		st.Class("replay rejected")
		return next, ""
	}
	var tx []byte
	if o.Kind != "endblock" {
		tx = w.Tx(a, o, n.nonce())
		if next.first == nil {
			next.first = tx
		}
		next.lastTx = tx
	}
	p := m.step(w, o, a)
	res := w.Step(a, o, n.nonce())
	var evs []abcitypes.Event
	code := uint32(0)
	if res.Deliver != nil {
		evs, code = res.Deliver.Events, res.Deliver.Code
	} else {
		evs = res.End.Events
	}
	got, err := renderEvents(w, evs)
	if err != nil {
		return next, err.Error()
	}
	if p.dontCare {
		for _, g := range got {
			if strings.HasPrefix(g, "batch-config") || strings.HasPrefix(g, "eon-started") {
				return next, fmt.Sprintf("%s emitted governance event %s", o, g)
			}
		}
		if ag := appGov(w, a); ag != m.dump() {
			return next, fmt.Sprintf("%s changed the governance state\napp:   %s\nmodel: %s", o, ag, m.dump())
		}
		st.Class("other message kind, governance untouched")
		return next, ""
	}
	if p.ok != (code == 0) {
		return next, fmt.Sprintf("%s answered with code %d, model expects ok=%v (log %q)", o, code, p.ok, logOf(res))
	}
	exp := p.events
	if p.either != nil && fmt.Sprint(got) == fmt.Sprint(p.either) {
		// ambiguous restart taken by the app: follow it
		var eon *mEon
		for i := range m.Eons {
			if m.Eons[i].Newest {
				eon = &m.Eons[i]
			}
		}
		m.restart(eon.Cfg)
		exp = p.either
		st.Class("restart with both outcomes at threshold (app restarted)")
	} else if p.either != nil {
		st.Class("restart with both outcomes at threshold (app did not restart)")
	}
	if fmt.Sprint(got) != fmt.Sprint(exp) {
		return next, fmt.Sprintf("%s emitted %v, model expects %v", o, got, exp)
	}
	if ag, md := appGov(w, a), m.dump(); ag != md {
		return next, fmt.Sprintf("after %s the app's governance state differs from the model's\napp:   %s\nmodel: %s", o, ag, md)
	}
	// invariants on the reached state (independent of the step predictions)
	for i := 1; i < len(a.Configs); i++ {
		if a.Configs[i].KeyperConfigIndex <= a.Configs[i-1].KeyperConfigIndex {
			return next, fmt.Sprintf("config indices not strictly increasing: %d then %d", a.Configs[i-1].KeyperConfigIndex, a.Configs[i].KeyperConfigIndex)
		}
		if a.Configs[i].ActivationBlockNumber < a.Configs[i-1].ActivationBlockNumber {
			return next, "activation block numbers decrease"
		}
	}
	for e := range a.DKGMap {
		if e > a.EONCounter || e == 0 {
			return next, fmt.Sprintf("eon %d outside (0, counter=%d]", e, a.EONCounter)
		}
	}
	cls := o.Kind
	if !p.ok {
		cls += " rejected"
	} else if len(exp) > 0 {
		cls += " -> " + strings.Split(exp[len(exp)-1], "(")[0]
	} else {
		cls += " accepted, no event"
	}
	st.Class(cls)
	return next, ""
}

func logOf(r appx.Result) string {
	if r.Deliver != nil {
		l := r.Deliver.Log
		if i := strings.IndexByte(l, '\n'); i >= 0 {
			l = l[:i]
		}
		return l
	}
	return ""
}

type c11Replay struct {
	Cfg c11cfg    `json:"cfg"`
	Ops []appx.Op `json:"ops"`
}

func c11Init(w *appx.World, g appx.Genesis) c11node {
	a, _ := w.U.NewApp(g)
	m := &model{Votes: map[int]string{}, Seen: map[int]uint64{}, HasSeen: map[int]bool{}, EonCtr: g.InitialEon,
		Configs: []mCfg{{Members: g.Members, Threshold: g.Threshold}}}
	return c11node{node: node{a, 0}, m: m}
}

func c11() *report.Check {
	return &report.Check{
		Level: "model_checking",
		Rule:  "BFS over tx histories (config votes for 5 candidate shapes incl. stale index / lower activation / threshold 0 and n+1, block-seen reports, DKG result votes for the two newest eons, block ends, replays of earlier transactions, foreign and future-member senders, other message kinds) on the real app in lock-step with a reference model of docs/spec.md; response class and decoded events compared on every transition, governance state compared and invariants evaluated on every state. Classes = (op kind, predicted outcome)",
		Assumptions: []string{
			"reference model (~200 lines) written from docs/spec.md and the statement; when both DKG outcomes have reached the threshold the statement admits either answer and the model follows the app",
			"BFS merges on canonical app state without nonce tracker (fresh nonces everywhere; replays are explicit transitions) plus the model state",
		},
		Shards: func(bool) int { return 16 },
		Budget: minutes(3, 25),
		Run: func(c *report.Ctx) {
			var cfgs []c11cfg
			for n := 1; n <= 4; n++ {
				for t := 1; t <= n; t++ {
					if n == 4 && !c.Thorough && t != 2 {
						continue
					}
					cfgs = append(cfgs, c11cfg{n, t})
				}
			}
			depth := 4
			if c.Thorough {
				depth = 6
			}
			const parts = 4
			unit := -1
			// long deterministic walks in lock-step with the model: one fixed history of
			// 3000 steps per (n,t). Not an enumeration of histories (the BFS below is); it
			// carries the model comparison into states only long histories reach (many
			// accepted configs and eons, large nonce sets).
			for ci, cf := range cfgs {
				if (ci+5)%c.NShards != c.Shard {
					continue
				}
				w, g, alphabet := c11World(cf)
				n := c11Init(w, g)
				var hist []appx.Op
				for k := 0; k < 3000; k++ {
					o := alphabet[(k*13+k/7*5+3)%len(alphabet)]
					if k%9 == 8 {
						o = endblock
					}
					hist = append(hist, o)
					next, msg := c11StepOpt(w, n, o, c.Stats, false)
					c.Stats.Traces++
					c.Stats.Count("long_walk_transitions", 1)
					if msg != "" {
						c.Violation("C11/governance-differs-from-model/long-walk/"+o.Kind, fmt.Sprintf("n=%d t=%d step %d of the long walk (%s): %s", cf.N, cf.T, k, o, msg), c11Replay{cf, hist})
						break
					}
					n = next
					if c.Expired() {
						break
					}
				}
			}
			for _, cf := range cfgs {
				w, g, alphabet := c11World(cf)
				root := c11Init(w, g)
				// seed: first candidate accepted (eon 1 running) through checked steps
				seedOps := []appx.Op{}
				for s := 0; s < cf.T; s++ {
					seedOps = append(seedOps, op("cfg", s, 0, 0))
				}
				live := root
				for _, o := range seedOps {
					var msg string
					live, msg = c11Step(w, live, o, c.Stats)
					if msg != "" {
						if c.Shard == 0 {
							c.Violation("C11/governance-differs-from-model", fmt.Sprintf("n=%d t=%d seed %v: %s", cf.N, cf.T, seedOps, msg), c11Replay{cf, seedOps})
						}
						return
					}
				}
				live.pre = seedOps
				for ii, init := range []c11node{root, live} {
					for part := 0; part < parts; part++ {
						unit++
						if unit%c.NShards != c.Shard {
							continue
						}
						cf, part, init := cf, part, init
						var b *explore.BFS[c11node]
						d := depth
						if cf.N == 4 && !c.Thorough {
							d = depth - 1 // quick: the largest universe one level shallower
						}
						b = &explore.BFS[c11node]{
							Key:      func(n c11node) string { return appx.StateKey(n.a) + "|" + n.m.dump() },
							MaxDepth: d, Deadline: c.Deadline, KeepPaths: true,
							Expand: func(n c11node, d int, path []string, emit func(string, c11node)) {
								for oi, o := range alphabet {
									if d == 0 && oi%parts != part {
										continue
									}
									next, msg := c11Step(w, n, o, c.Stats)
									c.Stats.Traces++
									if msg != "" {
										ops := append(append(append([]appx.Op{}, n.pre...), parseOps(path)...), o)
										c.Violation("C11/governance-differs-from-model/"+o.Kind, fmt.Sprintf("n=%d t=%d after %v: %s", cf.N, cf.T, ops[:len(ops)-1], msg), c11Replay{cf, ops})
										b.Stop = true
										return
									}
									emit(opJSON(o), next)
								}
							},
						}
						b.Run([]c11node{init})
						c.Stats.States += int64(b.States)
						c.Stats.Transitions += int64(b.Transitions)
						c.Stats.Evaluations += int64(b.Transitions)
						if b.Capped != "" {
							c.Stats.Cap(fmt.Sprintf("n=%d t=%d init %d part %d: %s at depth %d", cf.N, cf.T, ii, part, b.Capped, b.DepthDone))
						}
						if unit == 0 {
							c.Stats.Sample(map[string]any{"config": cf, "alphabet_size": len(alphabet), "depth": depth, "alphabet_head": fmt.Sprint(alphabet[:12])})
						}
					}
				}
			}
		},
		Replay: func(c *report.Ctx, raw json.RawMessage) string {
			var rp c11Replay
			if err := json.Unmarshal(raw, &rp); err != nil {
				return err.Error()
			}
			w, g, _ := c11World(rp.Cfg)
			n := c11Init(w, g)
			for _, o := range rp.Ops {
				var msg string
				n, msg = c11Step(w, n, o, c.Stats)
				if msg != "" {
					return msg
				}
			}
			return ""
		},
	}
}
