package main

import (
	"encoding/json"
	"fmt"
	"strings"
	"time"

	"verif/harness/trigx"
	"verif/report"
)

// C17 — trigger definitions round-trip, match totally, are never hidden by the filter.
//
// Bounded-exhaustive enumeration on the real EventTriggerDefinition functions
// (MarshalBytes, UnmarshalBytes, Validate, Match, ToFilterQuery; through Match
// also LogPredicate.Match, LogValueRef.GetValue, ValuePredicate.Match).
// Oracles, from the statement:
//
//  1. a definition that passes Validate decodes from its own encoding to an
//     equivalent definition; whatever UnmarshalBytes accepts passes Validate;
//  2. Match on a valid definition and any log returns (no panic, no process
//     death, no hang), allocates at most 64 KiB + 4*len(data), and equals the
//     independent reference implementation of docs/event.md (harness/trigx/ref.go)
//     whenever every referenced range lies inside the log;
//  3. ToFilterQuery succeeds on every valid definition and every log for which
//     Match says yes passes that filter under eth_getLogs semantics.
//
// The spaces are described in harness/trigx/space.go and in Rule below.
func c17() *report.Check {
	return &report.Check{
		Level: "exploration",
		Rule: "Enumerated, nothing sampled. " +
			"(1) Validation/round-trip space: all definitions with 0..2 predicates over 16 references (topics 0..3, static and dynamic data offsets 4, 5, 2^32-1, 2^32, dynamic topics) x 37 value predicates (5 integer operators x {0,1,2^256-1,2^256}, BytesEq x byte strings of length 0,5,32(x3),33,64, 10 malformed ones), contracts {0xc0.., 0x00.., 0xff..} for 0/1 predicates; thorough adds all triples over the 270 well-formed predicates. " +
			"(2) Decoder space: every prefix and every single-byte substitution by {0x00,0xff,b+1} (thorough also b-1, b^0x80, b^1) of the encodings of a base set (quick 51, thorough 276 definitions), plus all byte strings of length <= 2; every accepted decoding is also run through (3) and (4). " +
			"(3) Match space: every candidate definition with 0..2 predicates over the 270 well-formed predicates plus all triples over a sub-pool of 70 (thorough 130) predicates, that passes the real Validate, against logs built for its references: 0..4 topics with referenced topics in {0,1,pattern,2^256-1}; data lengths around every referenced word; static words {0,1,2^256-1,pattern}; dynamic head words {0,32,64,len-32,len-1,len,len+1,2^20,2^32,2^63,2^64-1,2^64,2^256-1}; length words {0,5,32,33,64,rem-1,rem,rem+1,len-32,len-1,len,len+1,2^17,2^20,2^32,2^63,2^64-1,2^64,2^256-1}; contents {pattern,zeros,0xff..,value 1,leading 1}; full resolution when all predicates reference one data word, a reduced 256-byte two-tail layout (plus truncations) when several words/topics are referenced; every log also from another contract along both axes. " +
			"(4) Filter: ToFilterQuery of every valid definition, and reference eth_getLogs semantics on every (definition, log) pair of (3).",
		Assumptions: []string{
			"docs/event.md defines a referenced value only when it exists: topic index < number of topics; static word fully inside the data; dynamic: head word inside and < 2^64, length word inside and < 2^64, slice inside. Only then is Match compared with the reference; in all other cases (absent topic, word/head/length/slice straddling or beyond the data end, head or length word >= 2^64 where uint64(WORD) is ambiguous) only a yes/no answer without panic, process death or allocation beyond 64 KiB + 4*len(data) is demanded. The code's own zero-padding convention is not demanded.",
			"A log from another contract must not match (docs/event.md, Matching, rule 1) regardless of the data.",
			"Integer operators on dynamic slices compare the whole slice as an unsigned big-endian integer of arbitrary length (docs/event.md: 'uint256 / big.Int comparisons'); an empty slice is 0. BytesEq requires equal length.",
			"(false, error) from Match counts as the answer 'no' (triggerprocessor.go treats it so); (true, nil) is 'yes'.",
			"Equivalence of definitions: same contract, same predicates in order, integer arguments equal as numbers, byte arguments equal as byte strings (nil = empty).",
			"Filter semantics (eth_getLogs): address must be in the address list; a filter with k topic positions needs a log with >= k topics; an empty or nil position is a wildcard; block range fields are set by the caller and ignored here.",
			"'Work bounded by the log size' is measured as bytes allocated by one Match call (runtime.MemStats.TotalAlloc delta in a single-threaded child; batches of 64 calls are measured together and re-measured one by one when a batch exceeds 32 KiB); running time is only watched by a 240 s no-progress watchdog.",
			"Validate itself is the definition of 'valid'; a panic inside Validate on a hand-built (undecodable) definition counts as 'not valid'. A panic of UnmarshalBytes or MarshalBytes is reported.",
			"Every call of the real code runs in a child process with RLIMIT_AS = 3 GiB; a child killed by the code under test is a violation for the announced input. After the first out-of-memory death a worker no longer executes (definition with a dynamic reference, log containing a head/length >= 2^20) pairs; they are counted as 'not executed'.",
		},
		Shards: func(thorough bool) int { return 16 },
		Budget: func(thorough bool) time.Duration {
			if thorough {
				return 17 * time.Minute
			}
			return 70 * time.Second
		},
		Run:    runC17,
		Replay: replayC17,
		Trivial: func(class string) bool {
			return strings.HasPrefix(class, "not executed")
		},
	}
}

func runC17(c *report.Ctx) {
	plan := trigx.NewPlan(c.Thorough)
	for _, n := range plan.BaseNotes {
		c.Stats.Class("decoder base: " + n)
	}
	spec := &trigx.Spec{Mode: "enum", Thorough: c.Thorough, Shard: c.Shard, NShards: c.NShards, Seen: map[string]int{}}
	if !c.Deadline.IsZero() {
		spec.DeadlineUnix = c.Deadline.Unix()
	}
	if c.Shard == 0 {
		c.Stats.SetExtra("space", map[string]any{
			"roundtrip_definitions":       plan.RT.Size(),
			"decoder_base_encodings":      len(plan.Dec.Bases),
			"match_candidate_definitions": plan.M.Size(),
			"units":                       plan.Units(),
		})
	}
	restarts := 0
	for {
		lastThrough := spec.From - 1
		done := false
		exit, err := trigx.RunChild(spec, func(line []byte) {
			var f trigx.Flush
			if err := json.Unmarshal(line, &f); err != nil {
				panic(fmt.Sprintf("bad line from child: %v: %.200s", err, line))
			}
			c.Stats.Evaluations += f.Evaluations
			for k, v := range f.Classes {
				if c.Stats.Classes == nil {
					c.Stats.Classes = map[string]int64{}
				}
				c.Stats.Classes[k] += v
			}
			for k, v := range f.Counters {
				c.Stats.Count(k, v)
			}
			for _, s := range f.Samples {
				c.Stats.Sample(s)
			}
			for _, fd := range f.Findings {
				spec.Seen[fd.Signature]++
				c.Violation(fd.Signature, fd.Message, fd.Case)
			}
			if f.Cap != "" {
				c.Stats.Cap(f.Cap)
			}
			lastThrough = f.Through
			done = done || f.Done
		})
		if err != nil {
			panic(fmt.Sprintf("cannot run child: %v", err))
		}
		if done {
			return
		}
		// the child died
		if !exit.HasProgress {
			panic(fmt.Sprintf("child died before announcing any case (%s):\n%s", exit.Err, exit.Stderr))
		}
		cs, slug := plan.CaseAt(exit.Progress)
		how, sig := "crashed the process", "C17/match-crashes-process-on-"+slug
		switch {
		case exit.Hung:
			how, sig = fmt.Sprintf("made no progress for %s", trigx.HangAfter), "C17/match-does-not-terminate-on-"+slug
		case exit.OOM():
			how, sig = fmt.Sprintf("exhausted the %d MiB address-space limit of the child", trigx.MemLimit>>20), "C17/match-allocates-on-"+slug
		}
		if cs.Kind != "match" {
			sig = "C17/" + cs.Kind + "-crashes-process"
		}
		cj, _ := json.MarshalIndent(cs, "", " ")
		c.Violation(sig, fmt.Sprintf("the real code %s on this input (%s; unit %d ord %d sub %d)\n%s\nchild stderr:\n%s",
			how, exit.Err, exit.Progress.Unit, exit.Progress.Ord, exit.Progress.Sub, cj, trigx.TrimStack(exit.Stderr)), cs)
		c.Stats.Class("PROCESS DIED in the code under test | " + slug)
		c.Stats.Evaluations++
		spec.Skip = append(spec.Skip, exit.Progress)
		if exit.OOM() {
			spec.SkipHuge = true
			c.Stats.Cap("after an out-of-memory death of the child, pairs (dynamic reference, log with a head/length >= 2^20) were no longer executed in that worker")
		}
		spec.From = lastThrough + 1
		restarts++
		if restarts > 30 {
			c.Stats.Cap("more than 30 child deaths in one worker; its remaining units were not run")
			return
		}
	}
}

func replayC17(c *report.Ctx, raw json.RawMessage) string {
	var cs trigx.Case
	if err := json.Unmarshal(raw, &cs); err != nil {
		return ""
	}
	res, crashed, stderr, err := trigx.RunCaseInChild(&cs)
	if err != nil {
		fmt.Println("cannot run child:", err)
		return ""
	}
	if crashed {
		return "the child process running this case died:\n" + stderr
	}
	var sb strings.Builder
	for _, f := range res.Findings {
		fmt.Fprintf(&sb, "[%s]\n%s\n", f.Signature, f.Message)
	}
	if sb.Len() == 0 {
		fmt.Println("single-case run:", res.Note)
	}
	return sb.String()
}
