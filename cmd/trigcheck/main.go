// Command trigcheck holds check C17 (event-trigger definitions: round trip,
// total and documented matching, filter soundness). Every evaluation is a call
// of the real functions of rolling-shutter/keyperimpl/shutterservice, executed
// in a supervised child process with a limited address space.
package main

import (
	"github.com/rs/zerolog"

	"verif/harness/trigx"
	"verif/report"
)

func init() { zerolog.SetGlobalLevel(zerolog.Disabled) }

func main() {
	if trigx.IsChild() {
		trigx.ChildMain() // never returns
	}
	report.Main(map[string]*report.Check{
		"C17": c17(),
	})
}
