package main

// Standalone reproductions of the defects C15 and C16 report on the unchanged
// tree. They use only the fake chain, minipg and the REAL syncers - no
// explorer, no oracle code of the checks. Each test asserts the behaviour the
// property demands, so it FAILS while the defect is present:
//
//	cd /verif && . scripts/env.sh && VERIF_REPRO=1 go test -tags verif -count=1 -v -run Repro ./cmd/synccheck/
//
// (against a scratch worktree: add -modfile=.gen/mod-<tag>/go.mod as check.sh does).

import (
	"context"
	"fmt"
	"os"
	"testing"

	"github.com/ethereum/go-ethereum/core/types"

	"verif/harness/fakechain"
	"verif/harness/syncx"
)

func needRepro(t *testing.T) {
	if os.Getenv("VERIF_REPRO") == "" {
		t.Skip("set VERIF_REPRO=1 to run the defect reproductions")
	}
}

func syncTo(t *testing.T, e *syncx.Env, id fakechain.BlockID) {
	t.Helper()
	e.Chain.SetHead(id)
	h := types.CopyHeader(e.Chain.Block(id).Header)
	if err := e.Syncer.Sync(context.Background(), h); err != nil {
		t.Fatalf("Sync(%d): %v", e.Chain.Block(id).Number, err)
	}
}

func rowsOf(e *syncx.Env, table string, cols ...string) []string {
	return syncx.RenderRows(syncx.ReadRows(e.DB, table), cols)
}

// S2: with no status row the MultiEventSyncer starts at SyncStartBlockNumber+1.
func TestReproC15MultiEventSyncerSkipsStartBlock(t *testing.T) {
	needRepro(t)
	const start = 2
	for _, kind := range []syncx.Kind{syncx.Registry, syncx.Sequencer, syncx.Multi} {
		ev := mkEvent(kind, EventSpec{Key: 1, Flavor: "ok"})
		c := fakechain.New(syncx.GenesisTime)
		b1 := c.AddBlock(0, "trunk")
		b2 := c.AddBlock(b1, "trunk", ev.Log()) // the configured start block carries an event
		b3 := c.AddBlock(b2, "trunk")
		e := syncx.NewEnv(kind, c, syncx.Options{Start: start})
		syncTo(t, e, b3)
		st := syncx.ReadStatus(e.DB, kind)
		rows := rowsOf(e, kind.EventTable(), "block_number", "eon", "sender")
		t.Logf("%-9s SyncStartBlockNumber=%d, head 3: status %s, %s = %v", kind, start, st, kind.EventTable(), rows)
		if len(rows) != 1 {
			t.Errorf("%s: the event emitted in the start block %d is not stored although the position is %s", kind, start, st)
		}
		c.Close()
	}
}

// The reorg is only noticed by a Sync call for a head at exactly synced+1.
func TestReproC15ReorgMissedAfterLowerHeadThenSkip(t *testing.T) {
	needRepro(t)
	for _, variant := range []string{"lower head, then skip", "head at synced+1 whose Sync fails, then skip"} {
		for _, kind := range syncx.Kinds {
			evT := mkEvent(kind, EventSpec{Key: 1, Flavor: "ok"})
			evA := mkEvent(kind, EventSpec{Key: 2, Flavor: "ok"})
			c := fakechain.New(syncx.GenesisTime)
			t1 := c.AddBlock(0, "trunk")
			t2 := c.AddBlock(t1, "trunk", evT.Log())
			a2 := c.AddBlock(t1, "A", evA.Log()) // fork of depth 1 below trunk@2
			a3 := c.AddBlock(a2, "A")
			a4 := c.AddBlock(a3, "A")
			e := syncx.NewEnv(kind, c, syncx.Options{Start: 1})
			syncTo(t, e, t2) // position = trunk@2, trunk event stored
			if variant == "lower head, then skip" {
				syncTo(t, e, a2) // first head of the new branch, not higher than synced+1: nothing happens
			} else {
				res := e.Step(a3, syncx.Fault{Type: "dberr", K: 0}, false, nil) // head at synced+1, its Sync call fails at the first statement
				if res.Err == nil {
					t.Fatalf("injected failure was not reported")
				}
			}
			syncTo(t, e, a4) // next observed head skips past synced+1
			st := syncx.ReadStatus(e.DB, kind)
			rows := rowsOf(e, kind.EventTable(), "block_number", "block_hash")
			want := fmt.Sprintf("block_number=2 block_hash=0x%x", c.Block(a2).Hash[:])
			t.Logf("%-9s %s: status %s (A@4 is %x..), events %v", kind, variant, st, c.Block(a4).Hash[:4], rows)
			if len(rows) != 1 || rows[0] != want {
				t.Errorf("%s, %s: position is the canonical block A@4, but the table holds %v instead of the canonical [%s] (the event of the abandoned block trunk@2 %x.. survives, A@2's is missing)",
					kind, variant, rows, want, c.Block(t2).Hash[:4])
			}
			c.Close()
		}
	}
}

// D7: a trigger registered inside a sync range never sees matching logs of that range.
func TestReproC16RegistrationAndLogInOneRange(t *testing.T) {
	needRepro(t)
	fired := map[string]int{}
	for _, batching := range []string{"block by block", "one Sync call"} {
		spec := c16Spec{L: 3, Items: []c16Item{
			{Type: "reg", Side: "trunk", Height: 1, Trigger: 1, TTL: 2}, // expiry block 3
			{Type: "log", Side: "trunk", Height: 2, Kind: "match"},      // after the registration block, before expiry
		}}
		w := newC16World(spec, 0)
		if batching == "block by block" {
			for h := 1; h <= 3; h++ {
				syncTo(t, w.env, w.ids["trunk"][h])
			}
		} else {
			syncTo(t, w.env, w.ids["trunk"][3])
		}
		rows := rowsOf(w.env, "fired_triggers", "block_number", "log_index")
		regs := rowsOf(w.env, "event_trigger_registered_event", "block_number", "expiration_block_number")
		t.Logf("%-14s: registrations %v, fired_triggers %v", batching, regs, rows)
		fired[batching] = len(rows)
		w.close()
	}
	if fired["block by block"] != 1 || fired["one Sync call"] != 1 {
		t.Errorf("the same chain (registration in block 1, expiry 3, matching log in block 2) gives %d fired trigger(s) when synced block by block and %d when synced in one call; the property demands 1 in both",
			fired["block by block"], fired["one Sync call"])
	}
}
