package main

import "verif/report"

func c16() *report.Check { return &report.Check{Level: "model_checking", Run: func(c *report.Ctx) {}} }
