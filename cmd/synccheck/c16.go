package main

import (
	"bytes"
	"encoding/json"
	"fmt"
	"github.com/shutter-network/rolling-shutter/rolling-shutter/keyperimpl/shutterservice"
	"math/big"
	"sort"
	"strings"

	"github.com/ethereum/go-ethereum/common"
	"github.com/ethereum/go-ethereum/crypto"
	"github.com/jackc/pgx/v4/minipg"

	"verif/harness/fakechain"
	"verif/harness/syncx"
	"verif/maporder"
	"verif/report"
)

// C16 — an event trigger fires iff a matching log occurs in time, whatever the
// batching.
//
// The real MultiEventSyncer with the real EventTriggerRegisteredEventProcessor
// and TriggerProcessor runs over fakechain + minipg. A chain carries one or two
// trigger registrations (definition bytes from the real MarshalBytes) and logs
// that do / do not match, at every offset relative to the registration block
// and the expiry block (expiry = registration block + ttl, what the registry
// contract puts into the event). For every chain EVERY composition of the head
// sequence 1..L into Sync calls is executed (depth-first with database
// snapshots, so common prefixes are run once) for MaxRequestBlockRange in
// {1,2,3,L}; the fork family syncs a trunk, switches to a side branch (first
// head = synced+1) and finishes there.
//
// Oracle (property statement) after EVERY Sync call whose position is on the
// canonical chain: rows of fired_triggers = { trigger registered on the
// canonical chain up to the position : a canonical log up to the position
// matches its definition, lies in a block after the registration block and not
// after the expiry block, and the trigger is not decrypted }, at most one row per
// trigger, and the row names a qualifying log. Because the reference does not
// depend on the batching, equality for every composition is independence of
// the batching.
//
// Known defect D7 is recognised from the failing case itself: a trigger is
// missing although it should have fired, and for every qualifying log the range
// in which that log's block was (last) processed also contained the
// registration block. Everything else gets another signature.
const (
	sigD7 = "C16/registration-and-matching-log-in-one-sync-range"
	// the same root cause seen through a trigger that is registered again: the log is
	// judged by the registration that was stored when its range was fetched
	sigD7re = "C16/re-registration-and-matching-log-in-one-sync-range"
	// a second recorded defect: a registration row is replaced in place by a later
	// registration of the same trigger; when that later block is abandoned the
	// rollback deletes the row, and the canonical registration below is not fetched again
	sigLost = "C16/registration-lost-when-its-re-registration-is-reorged-out"
)

type c16Item struct {
	Type    string `json:"type"`              // "reg" | "log"
	Side    string `json:"side"`              // "trunk" | "fork" (heights <= fork point are always trunk)
	Height  int    `json:"height"`            //
	Trigger int    `json:"trigger,omitempty"` // reg: trigger number
	TTL     int    `json:"ttl,omitempty"`     // reg: expiry = height + ttl
	Data    bool   `json:"data_predicate,omitempty"`
	Kind    string `json:"kind,omitempty"`  // log: match | wrong-topic | wrong-address | low-data
	First   bool   `json:"first,omitempty"` // log: emitted before the registrations of its block
	// reg: eon the trigger is registered for (0 = 1), and the trigger whose identity
	// prefix and sender it shares (0 = its own): the same identity registered for two eons
	Eon     int `json:"eon,omitempty"`
	IdentOf int `json:"identity_of_trigger,omitempty"`
	// reg: Pos 1 / 2 = the definition also asks for the address value c16Party in topic 1 / 2
	Pos int `json:"party_topic,omitempty"`
}

type c16Spec struct {
	Name       string    `json:"name"`
	L          int       `json:"length"`
	ForkAt     int       `json:"fork_at,omitempty"` // 0 = no fork; side branch = ForkAt+1 .. L+1
	ReorgDepth int       `json:"assumed_reorg_depth,omitempty"`
	Items      []c16Item `json:"items"`
	// Start: the keyper's configured sync start block (no registration or log lies below it)
	Start int `json:"sync_start_block,omitempty"`
}

type c16Step struct {
	Side    string `json:"side,omitempty"`
	Height  int    `json:"height,omitempty"`
	Decrypt int    `json:"mark_decrypted,omitempty"` // instead of a Sync: mark this trigger decrypted (the keyper's own query)
}

type c16Replay struct {
	Spec     c16Spec   `json:"chain"`
	MaxRange uint64    `json:"max_request_block_range"`
	Order    int       `json:"processor_order"`
	Steps    []c16Step `json:"steps"`
}

var (
	c16Sig      = crypto.Keccak256Hash([]byte("Ping(uint256)"))
	c16OtherSig = crypto.Keccak256Hash([]byte("Pong(uint256)"))
	c16Party    = common.BytesToHash(common.LeftPadBytes([]byte{0xa1, 0x1c, 0xe0}, 32))
	c16Other    = common.BytesToHash(common.LeftPadBytes([]byte{0xb0, 0xb0}, 32))
)

type c16Trig struct {
	pos    int
	n      int
	ev     *syncx.Event
	data   bool
	reg    fakechain.BlockID
	r, e   uint64
	ident  string
	logIdx int
}

type c16Log struct {
	blk  fakechain.BlockID
	idx  int
	kind string
}

type c16World struct {
	spec  c16Spec
	chain *fakechain.Chain
	ids   map[string]map[int]fakechain.BlockID
	trigs []*c16Trig
	logs  []c16Log
	env   *syncx.Env
}

func c16TriggerEvent(n int, data bool, expiry uint64, eon, identOf, pos int) *syncx.Event {
	if eon == 0 {
		eon = 1
	}
	name := fmt.Sprintf("trigger%d", n)
	if identOf != 0 {
		n = identOf
	}
	def := syncx.TriggerDefinition(syncx.TargetAddr, c16Sig, nil)
	if data {
		// topic 0 == Ping, first data word >= 100, and topic 3 == 0 as an integer: the
		// generated logs have one topic, and a topic a log does not have reads as the
		// empty value (0), so this predicate holds for all of them; it must not keep
		// the log from being fetched either.
		d := shutterservice.EventTriggerDefinition{Contract: syncx.TargetAddr, LogPredicates: []shutterservice.LogPredicate{
			{LogValueRef: shutterservice.LogValueRef{Offset: 0}, ValuePredicate: shutterservice.ValuePredicate{Op: shutterservice.BytesEq, ByteArgs: [][]byte{c16Sig.Bytes()}}},
			{LogValueRef: shutterservice.LogValueRef{Offset: 4}, ValuePredicate: shutterservice.ValuePredicate{Op: shutterservice.UintGte, IntArgs: []*big.Int{big.NewInt(100)}}},
			{LogValueRef: shutterservice.LogValueRef{Offset: 3}, ValuePredicate: shutterservice.ValuePredicate{Op: shutterservice.UintEq, IntArgs: []*big.Int{big.NewInt(0)}}},
		}}
		def = d.MarshalBytes()
	}
	if pos > 0 {
		// topic 0 == Ping and topic pos == c16Party: two such definitions carry the same
		// topic values at different positions
		d := shutterservice.EventTriggerDefinition{Contract: syncx.TargetAddr, LogPredicates: []shutterservice.LogPredicate{
			{LogValueRef: shutterservice.LogValueRef{Offset: 0}, ValuePredicate: shutterservice.ValuePredicate{Op: shutterservice.BytesEq, ByteArgs: [][]byte{c16Sig.Bytes()}}},
			{LogValueRef: shutterservice.LogValueRef{Offset: uint64(pos)}, ValuePredicate: shutterservice.ValuePredicate{Op: shutterservice.BytesEq, ByteArgs: [][]byte{c16Party.Bytes()}}},
		}}
		def = d.MarshalBytes()
	}
	return &syncx.Event{
		Kind: syncx.Multi, Name: name, Eon: uint64(eon),
		Prefix: [32]byte{0xC0, byte(n)}, Sender: common.BytesToAddress([]byte{0x5e, byte(n)}),
		Definition: def, DefinitionValid: true, Expiration: expiry,
	}
}

func c16LogSpec(kind string) fakechain.LogSpec {
	word := func(v int64) []byte { return common.LeftPadBytes(big.NewInt(v).Bytes(), 32) }
	switch kind {
	case "match":
		return fakechain.LogSpec{Address: syncx.TargetAddr, Topics: []common.Hash{c16Sig}, Data: word(150)}
	case "wrong-topic":
		return fakechain.LogSpec{Address: syncx.TargetAddr, Topics: []common.Hash{c16OtherSig}, Data: word(150)}
	case "wrong-address":
		return fakechain.LogSpec{Address: syncx.OtherAddr, Topics: []common.Hash{c16Sig}, Data: word(150)}
	case "low-data":
		return fakechain.LogSpec{Address: syncx.TargetAddr, Topics: []common.Hash{c16Sig}, Data: word(50)}
	case "party-first":
		return fakechain.LogSpec{Address: syncx.TargetAddr, Topics: []common.Hash{c16Sig, c16Party, c16Other}, Data: word(150)}
	case "party-second":
		return fakechain.LogSpec{Address: syncx.TargetAddr, Topics: []common.Hash{c16Sig, c16Other, c16Party}, Data: word(150)}
	}
	panic("unknown log kind " + kind)
}

// matches is the reference matching predicate for the generated logs and definitions.
func (t *c16Trig) matches(kind string) bool {
	if t.pos > 0 {
		return (kind == "party-first" && t.pos == 1) || (kind == "party-second" && t.pos == 2)
	}
	switch kind {
	case "match", "party-first", "party-second":
		return true
	case "low-data":
		return !t.data
	}
	return false
}

func newC16World(spec c16Spec, maxRange uint64) *c16World {
	w := &c16World{spec: spec, ids: map[string]map[int]fakechain.BlockID{"trunk": {0: 0}, "fork": {}}}
	w.chain = fakechain.New(syncx.GenesisTime)
	build := func(side string, h int, parent fakechain.BlockID) fakechain.BlockID {
		var first, regs, rest []c16Item
		for _, it := range spec.Items {
			if it.Height != h || it.Side != side {
				continue
			}
			switch {
			case it.Type == "reg":
				regs = append(regs, it)
			case it.First:
				first = append(first, it)
			default:
				rest = append(rest, it)
			}
		}
		order := append(append(first, regs...), rest...)
		var logs []fakechain.LogSpec
		var trigs []*c16Trig
		for i, it := range order {
			if it.Type == "reg" {
				t := &c16Trig{n: it.Trigger, data: it.Data, pos: it.Pos, r: uint64(h), e: uint64(h + it.TTL), logIdx: i}
				t.ev = c16TriggerEvent(it.Trigger, it.Data, t.e, it.Eon, it.IdentOf, it.Pos)
				t.ident = fmt.Sprintf("eon %d, 0x%s", t.ev.Eon, common.Bytes2Hex(t.ev.Identity()))
				logs = append(logs, t.ev.Log())
				trigs = append(trigs, t)
			} else {
				logs = append(logs, c16LogSpec(it.Kind))
			}
		}
		id := w.chain.AddBlock(parent, side, logs...)
		for _, t := range trigs {
			t.reg = id
			w.trigs = append(w.trigs, t)
		}
		for i, it := range order {
			if it.Type == "log" {
				w.logs = append(w.logs, c16Log{blk: id, idx: i, kind: it.Kind})
			}
		}
		w.ids[side][h] = id
		return id
	}
	p := fakechain.BlockID(0)
	for h := 1; h <= spec.L; h++ {
		p = build("trunk", h, p)
	}
	if spec.ForkAt > 0 {
		p = w.ids["trunk"][spec.ForkAt]
		for h := spec.ForkAt + 1; h <= spec.L+1; h++ {
			p = build("fork", h, p)
		}
	}
	w.env = syncx.NewEnv(syncx.Multi, w.chain, syncx.Options{Start: uint64(spec.Start), MaxRequestBlockRange: maxRange, AssumedReorgDepth: spec.ReorgDepth})
	return w
}

func (w *c16World) close() { w.chain.Close() }

type c16Range struct {
	lo, hi uint64
	side   string // branch of the head the Sync call was given
}

// c16Hist is the part of the run history the classification needs.
type c16Hist struct {
	ranges    []c16Range     // processed ranges, in order
	decrypted map[int]uint64 // triggers marked decrypted by the harness -> sync position at that moment
}

func (h c16Hist) clone() c16Hist {
	n := c16Hist{ranges: append([]c16Range(nil), h.ranges...), decrypted: map[int]uint64{}}
	for k, v := range h.decrypted {
		n.decrypted[k] = v
	}
	return n
}

// lastRange returns the last processed range that contains block m.
func (h c16Hist) lastRange(m uint64) (c16Range, bool) {
	for i := len(h.ranges) - 1; i >= 0; i-- {
		if h.ranges[i].lo <= m && m <= h.ranges[i].hi {
			return h.ranges[i], true
		}
	}
	return c16Range{}, false
}

// sync runs one Sync call to the block (side, height) and records the ranges
// that were committed.
func (w *c16World) sync(side string, height int, hist *c16Hist) syncx.StepResult {
	id, ok := w.ids[side][height]
	if !ok {
		panic(fmt.Sprintf("c16: no block %s@%d", side, height))
	}
	prev := syncx.ReadStatus(w.env.DB, syncx.Multi)
	return w.env.Step(id, syncx.Fault{}, false, func(d *minipg.DB) {
		st := syncx.ReadStatus(d, syncx.Multi)
		if st.Present && len(st.Hash) > 0 && (!prev.Present || st.Number != prev.Number || !bytes.Equal(st.Hash, prev.Hash)) {
			lo := uint64(0)
			if prev.Present {
				lo = uint64(prev.Number + 1)
			}
			hist.ranges = append(hist.ranges, c16Range{lo, uint64(st.Number), side})
		}
		prev = st
	})
}

// judge evaluates the oracle on the committed database against the current
// canonical chain; nil if the position is not on the canonical chain or
// everything is as the statement demands.
func (w *c16World) judge(hist c16Hist) (*finding, string) {
	d := w.env.DB
	st := syncx.ReadStatus(d, syncx.Multi)
	if !st.Present {
		return nil, "no-position"
	}
	cb := w.chain.Canonical(uint64(st.Number))
	if cb == nil || !bytes.Equal(cb.Hash[:], st.Hash) {
		return nil, "position-off-canonical"
	}
	pos := uint64(st.Number)
	onCanon := func(id fakechain.BlockID) bool {
		b := w.chain.Block(id)
		c := w.chain.Canonical(b.Number)
		return c != nil && c.ID == id && b.Number <= pos
	}
	// reference
	type ref struct {
		t    *c16Trig
		qual []c16Log // qualifying logs
	}
	refs := map[string]*ref{}
	// identities registered more than once on the canonical chain (a later
	// registration replaces block and expiry of the earlier one) are judged apart
	regsBy := map[string][]*c16Trig{}
	for _, t := range w.trigs {
		if onCanon(t.reg) {
			regsBy[t.ident] = append(regsBy[t.ident], t)
		}
	}
	for _, t := range w.trigs {
		if !onCanon(t.reg) || len(regsBy[t.ident]) > 1 {
			continue
		}
		r := &ref{t: t}
		for _, l := range w.logs {
			if !onCanon(l.blk) || !t.matches(l.kind) {
				continue
			}
			m := w.chain.Block(l.blk).Number
			if m > t.r && m <= t.e {
				r.qual = append(r.qual, l)
			}
		}
		refs[t.ident] = r
	}
	rows := syncx.ReadRows(d, "fired_triggers")
	fired := map[string][]syncx.Row{}
	for _, r := range rows {
		k := "eon " + r["eon"] + ", " + r["identity"]
		fired[k] = append(fired[k], r)
	}
	var sigs, lines []string
	add := func(sig, line string) {
		for _, s := range sigs {
			if s == sig {
				sig = ""
			}
		}
		if sig != "" {
			sigs = append(sigs, sig)
		}
		lines = append(lines, "  "+line)
	}
	nFired, nD7 := 0, 0
	nRe, nLost := 0, 0
	for ident, regs := range regsBy {
		if len(regs) < 2 {
			continue
		}
		sort.SliceStable(regs, func(i, j int) bool {
			if regs[i].r != regs[j].r {
				return regs[i].r < regs[j].r
			}
			return regs[i].logIdx < regs[j].logIdx
		})
		// the registration in force for a log in block m: the last one in a block
		// before `before` (ideal: before m; as executed: before the first block of the
		// range in which block m was processed, because every processor fetches
		// before any stores - the root cause of the known finding)
		inForce := func(before uint64) *c16Trig {
			var cur *c16Trig
			for _, t := range regs {
				if t.r < before {
					cur = t
				}
			}
			return cur
		}
		ideal, batched := false, false
		var why []string
		for _, l := range w.logs {
			if !onCanon(l.blk) || !regs[0].matches(l.kind) {
				continue
			}
			m := w.chain.Block(l.blk).Number
			if t := inForce(m); t != nil && m <= t.e {
				ideal = true
				why = append(why, fmt.Sprintf("log in block %d lies within (%d, %d] of the registration in force", m, t.r, t.e))
			} else if t != nil {
				why = append(why, fmt.Sprintf("log in block %d lies after the expiry %d of the registration in force (block %d)", m, t.e, t.r))
			}
			if rg, ok := hist.lastRange(m); ok {
				if t := inForce(rg.lo); t != nil && m <= t.e {
					batched = true
				}
				why = append(why, fmt.Sprintf("block %d was processed in range [%d,%d]", m, rg.lo, rg.hi))
			}
		}
		real := len(fired[ident]) > 0
		if len(fired[ident]) > 1 {
			add("C16/fired-twice", fmt.Sprintf("%d rows for trigger %s", len(fired[ident]), ident))
		}
		var desc []string
		for _, t := range regs {
			desc = append(desc, fmt.Sprintf("block %d expiry %d", t.r, t.e))
		}
		line := fmt.Sprintf("trigger %s registered %d times (%s): fired=%v, the statement demands fired=%v (%s)", ident[:20], len(regs), strings.Join(desc, "; "), real, ideal, strings.Join(why, "; "))
		switch {
		case real == ideal:
		case real == batched:
			nRe++
			add(sigD7re, line+" - a registration and the log were fetched in the same range, before that registration was stored")
		default:
			add("C16/re-registered-trigger-fired-set-differs", line)
		}
		if real {
			nFired++
		}
		delete(fired, ident)
	}
	for ident, rs := range fired {
		nFired++
		if len(rs) > 1 {
			add("C16/fired-twice", fmt.Sprintf("%d rows for trigger %s", len(rs), ident))
		}
		row := rs[0]
		r := refs[ident]
		if r == nil {
			add("C16/fired-trigger-not-registered-on-canonical-chain", fmt.Sprintf("fired row for %s, but no such registration on the canonical chain up to %d", ident, pos))
			continue
		}
		t := r.t
		// which log does the row name?
		var named *c16Log
		hb := common.HexToHash(row["block_hash"])
		for i := range w.logs {
			l := &w.logs[i]
			if w.chain.Block(l.blk).Hash == hb && fmt.Sprint(l.idx) == row["log_index"] {
				named = l
			}
		}
		desc := fmt.Sprintf("trigger %d (registered in block %d, expiry %d) has a fired row naming the log (block %s, hash %s.., index %s)", t.n, t.r, t.e, row["block_number"], row["block_hash"][:10], row["log_index"])
		switch {
		case named == nil:
			add("C16/fired-row-names-unknown-log", desc+": no such log in the tree")
		case !onCanon(named.blk):
			add("C16/fired-row-survives-abandoned-block", desc+": that block is not on the canonical chain")
		case !t.matches(named.kind):
			add("C16/fired-on-non-matching-log", desc+": the log ("+named.kind+") does not match the definition")
		case w.chain.Block(named.blk).Number <= t.r:
			add("C16/fired-at-or-before-registration-block", desc+": not after the registration block")
		case w.chain.Block(named.blk).Number > t.e:
			add("C16/fired-after-expiry", desc+": after the expiry block")
		default:
			if at, dec := hist.decrypted[t.n]; dec && w.chain.Block(named.blk).Number > at {
				add("C16/fired-although-decrypted", desc+fmt.Sprintf(": the trigger had been marked decrypted when the position was %d", at))
			}
		}
	}
	for ident, r := range refs {
		if len(r.qual) == 0 || len(fired[ident]) > 0 {
			continue
		}
		if _, dec := hist.decrypted[r.t.n]; dec {
			continue // decrypted before it could fire: must not fire
		}
		// should have fired. Is it the known defect?
		d7 := true
		var where []string
		for _, l := range r.qual {
			m := w.chain.Block(l.blk).Number
			rg, ok := hist.lastRange(m)
			if !ok || rg.lo > r.t.r {
				d7 = false
			}
			where = append(where, fmt.Sprintf("log in block %d processed in range [%d,%d]", m, rg.lo, rg.hi))
		}
		line := fmt.Sprintf("trigger %d (registered in block %d, expiry %d) has not fired although a matching log lies in (%d, %d]: %s", r.t.n, r.t.r, r.t.e, r.t.r, r.t.e, strings.Join(where, "; "))
		// was the (only canonical) registration replaced by a registration of the same
		// trigger in a block that was synced and abandoned afterwards?
		lost := ""
		for _, t2 := range w.trigs {
			if t2.ident != ident || onCanon(t2.reg) || t2.r <= r.t.r {
				continue
			}
			side := w.chain.Block(t2.reg).Tag
			for _, rg := range hist.ranges {
				if rg.side == side && rg.lo <= t2.r && t2.r <= rg.hi {
					lost = fmt.Sprintf("the same trigger was registered again in block %d of the abandoned branch, which had been synced (range [%d,%d]) before the reorg", t2.r, rg.lo, rg.hi)
				}
			}
		}
		if lost != "" && !d7 {
			nLost++
			add(sigLost, line+" - "+lost+": the rollback deleted the replaced row and with it the canonical registration")
		} else if d7 {
			nD7++
			add(sigD7, line+" - registration and log were fetched in the same range, before the registration was stored")
		} else {
			add("C16/not-fired-although-registration-and-log-in-different-ranges", line)
		}
	}
	class := fmt.Sprintf("fired=%d", nFired)
	if nD7 > 0 {
		class += fmt.Sprintf("/missed-in-one-range=%d", nD7)
	}
	if nRe > 0 {
		class += fmt.Sprintf("/re-registration-in-the-log's-range=%d", nRe)
	}
	if nLost > 0 {
		class += fmt.Sprintf("/registration-lost-with-abandoned-re-registration=%d", nLost)
	}
	if len(sigs) == 0 {
		return nil, class
	}
	sort.Strings(sigs)
	sig := sigs[0]
	if len(sigs) > 1 {
		// the known class must not hide anything else
		var other []string
		for _, s := range sigs {
			if s != sigD7 && s != sigD7re && s != sigLost {
				other = append(other, strings.TrimPrefix(s, "C16/"))
			}
		}
		if len(other) > 0 {
			sig = "C16/" + strings.Join(other, "+")
		}
	}
	return &finding{sig: sig, msg: fmt.Sprintf("position (%d, %x..) on the canonical chain (head %d), fired_triggers deviates from the reference:\n%s", pos, st.Hash[:4], w.chain.Head().Number, strings.Join(lines, "\n"))}, class
}

// markDecrypted runs the keyper's own UPDATE for the trigger.
func (w *c16World) markDecrypted(n int, hist *c16Hist) {
	for _, t := range w.trigs {
		if t.n == n {
			_, err := w.env.DB.Exec(`UPDATE event_trigger_registered_event SET decrypted = TRUE WHERE (eon, identity) IN (SELECT UNNEST($1::bigint[]), UNNEST($2::bytea[]))`,
				[]int64{int64(t.ev.Eon)}, [][]byte{t.ev.Identity()})
			if err != nil {
				panic(err)
			}
		}
	}
	st := syncx.ReadStatus(w.env.DB, syncx.Multi)
	hist.decrypted[n] = uint64(st.Number)
}

func replayC16(rp c16Replay) *finding {
	setProcessorOrder(rp.Order)
	w := newC16World(rp.Spec, rp.MaxRange)
	defer w.close()
	hist := c16Hist{decrypted: map[int]uint64{}}
	var known *finding
	for i, st := range rp.Steps {
		if st.Decrypt != 0 {
			w.markDecrypted(st.Decrypt, &hist)
			continue
		}
		w.sync(st.Side, st.Height, &hist)
		if f, _ := w.judge(hist); f != nil {
			g := &finding{sig: f.sig, msg: fmt.Sprintf("after step %d of %d (Sync to %s@%d): %s", i+1, len(rp.Steps), st.Side, st.Height, f.msg)}
			if f.sig == sigD7 || f.sig == sigD7re || f.sig == sigLost {
				// the search goes on after a recorded finding, so does the replay: a later
				// deviation of another kind is what the recorded steps are about
				known = g
				continue
			}
			return g
		}
	}
	return known
}

func c16() *report.Check {
	return &report.Check{
		Level: "model_checking",
		Rule: "per chain (registrations x logs at every offset to registration and expiry, optional fork; also the same identity registered for two eons): every composition of the head sequence into Sync calls x " +
			"MaxRequestBlockRange in {1,2,3,L}, executed depth-first on database snapshots; oracle after every Sync call = reference fired set computed from the chain only",
		Assumptions: []string{
			"A-HEAD: the canonical branch only changes between Sync calls",
			"A-ISO: one database session at a time; PostgreSQL semantics as implemented by minipg",
			"expiry block = registration block + ttl (ShutterEventTriggerRegistryV1.register emits block.number + ttl)",
			"fork family: AssumedReorgDepth is set to 3 on the MultiEventSyncer (exported field) so that partial rollbacks happen on chains of length 6..8; the first head on the new branch is synced+1",
			"SyncStartBlockNumber = 0 and block 0 is empty, so the start-block question of C15 does not interfere",
		},
		Shards: func(thorough bool) int { return 16 },
		Budget: minutes(3, 20),
		Run:    runC16,
		Replay: func(c *report.Ctx, raw json.RawMessage) string {
			var rp c16Replay
			if err := json.Unmarshal(raw, &rp); err != nil {
				return ""
			}
			if f := replayC16(rp); f != nil {
				return f.sig + "\n" + f.msg
			}
			return ""
		},
		Trivial: func(class string) bool { return class == "fired=0" },
	}
}

// ---------- enumeration ----------

func c16Chains(thorough bool) []c16Spec {
	L := 6
	if thorough {
		L = 8
	}
	var out []c16Spec
	ttls := []int{0, 1, 2, L}
	if thorough {
		ttls = []int{0, 1, 2, 3, L}
	}
	reg := func(n, h, ttl int, data bool) c16Item {
		return c16Item{Type: "reg", Side: "trunk", Height: h, Trigger: n, TTL: ttl, Data: data}
	}
	lg := func(h int, kind string, first bool) c16Item {
		return c16Item{Type: "log", Side: "trunk", Height: h, Kind: kind, First: first}
	}
	name := func(items []c16Item) string {
		var p []string
		for _, it := range items {
			if it.Type == "reg" {
				s := fmt.Sprintf("reg%d@%d+%d", it.Trigger, it.Height, it.TTL)
				if it.Data {
					s += "d"
				}
				if it.Pos != 0 {
					s += fmt.Sprintf("(party in topic %d)", it.Pos)
				}
				if it.Eon != 0 || it.IdentOf != 0 {
					s += fmt.Sprintf("(eon %d, identity of %d)", it.Eon, it.IdentOf)
				}
				p = append(p, s)
			} else {
				s := fmt.Sprintf("%s@%s%d", it.Kind, map[string]string{"trunk": "", "fork": "f"}[it.Side], it.Height)
				if it.First {
					s += "^"
				}
				p = append(p, s)
			}
		}
		return strings.Join(p, ",")
	}
	emit := func(items ...c16Item) {
		out = append(out, c16Spec{Name: fmt.Sprintf("L%d:%s", L, name(items)), L: L, Items: items})
	}
	// one trigger
	for r := 1; r <= L; r++ {
		for _, ttl := range ttls {
			for _, data := range []bool{false, true} {
				t := reg(1, r, ttl, data)
				for b := 1; b <= L; b++ {
					kinds := []string{"match", "low-data"}
					if !data {
						kinds = []string{"match", "wrong-topic", "wrong-address"}
					}
					for _, k := range kinds {
						emit(t, lg(b, k, false))
						if b == r {
							emit(t, lg(b, k, true)) // same block, emitted before the registration
						}
					}
				}
				if data {
					continue
				}
				// two matching logs (fires at most once), also in one block
				for b1 := 1; b1 <= L; b1++ {
					for b2 := b1; b2 <= L; b2++ {
						emit(t, lg(b1, "match", false), lg(b2, "match", false))
					}
				}
				// a decoy before the matching log
				for b := 2; b <= L; b++ {
					emit(t, lg(b-1, "wrong-topic", false), lg(b, "match", false))
				}
			}
		}
	}
	// two triggers, one matching log (the second one also with a data predicate and a log that only matches the first)
	ttl2 := []int{1, L}
	for r1 := 1; r1 <= L; r1++ {
		for _, t1 := range ttls {
			for r2 := 1; r2 <= L; r2++ {
				for _, t2 := range ttl2 {
					for b := 2; b <= L; b++ {
						if b <= r1 && b <= r2 {
							continue // neither can fire: covered by the one-trigger family
						}
						emit(reg(1, r1, t1, false), reg(2, r2, t2, false), lg(b, "match", false))
						if thorough || (r1+r2+b)%3 == 0 {
							emit(reg(1, r1, t1, false), reg(2, r2, t2, true), lg(b, "low-data", false))
						}
					}
				}
			}
		}
	}
	// the same identity (prefix, sender, definition) registered for two eons, in
	// either order of the eons: two triggers, each fires on its own
	for r1 := 1; r1 <= L; r1++ {
		for r2 := r1; r2 <= L; r2++ {
			for _, t1 := range ttl2 {
				for b := r1 + 1; b <= L; b++ {
					for _, first := range []int{1, 2} {
						a, c := reg(1, r1, t1, false), reg(2, r2, L, false)
						a.Eon, c.Eon, c.IdentOf = first, 3-first, 1
						emit(a, c, lg(b, "match", false))
					}
				}
			}
		}
	}
	// two triggers whose definitions carry the same topic values at different positions
	// ("party sends" / "party receives"), one log for each, both triggers active together
	for r := 1; r < L; r++ {
		for b1 := r + 1; b1 <= L; b1++ {
			for b2 := r + 1; b2 <= L; b2++ {
				for _, swap := range []bool{false, true} {
					a, c := reg(1, r, L, false), reg(2, r, L, false)
					a.Pos, c.Pos = 1, 2
					if swap {
						a.Pos, c.Pos = 2, 1
					}
					emit(a, c, lg(b1, "party-first", false), lg(b2, "party-second", false))
				}
			}
		}
	}
	// the same trigger (eon, identity) registered again later: the later registration
	// replaces block and expiry of the earlier one (a ttl of 0 cuts it short)
	for r1 := 1; r1 < L; r1++ {
		for r2 := r1 + 1; r2 <= L; r2++ {
			for _, t1 := range ttl2 {
				for _, t2 := range []int{0, 1, L} {
					for b := r1 + 1; b <= L; b++ {
						if b == r2 {
							continue // which registration is in force inside the re-registration block is not defined by the statement
						}
						c := reg(2, r2, t2, false)
						c.IdentOf = 1
						emit(reg(1, r1, t1, false), c, lg(b, "match", false))
					}
				}
			}
		}
	}
	return out
}

// c16ForkChains: trunk 1..L, side branch F+1..L+1; the trunk is synced to p in
// (F, F+3], then the branch is shown.
func c16ForkChains(thorough bool) []c16Spec {
	L := 6
	if thorough {
		L = 8
	}
	var out []c16Spec
	for F := 1; F <= L-1; F++ {
		type place struct {
			side string
			h    int
		}
		var regs, logs []place
		for h := 1; h <= F; h++ {
			regs = append(regs, place{"trunk", h})
			logs = append(logs, place{"trunk", h})
		}
		for h := F + 1; h <= L; h++ {
			regs = append(regs, place{"trunk", h}, place{"fork", h})
			logs = append(logs, place{"trunk", h}, place{"fork", h})
		}
		logs = append(logs, place{"fork", L + 1})
		for _, rp := range regs {
			for _, ttl := range []int{1, 2, L} {
				for _, lp := range logs {
					if lp.h < rp.h {
						continue
					}
					items := []c16Item{
						{Type: "reg", Side: rp.side, Height: rp.h, Trigger: 1, TTL: ttl},
						{Type: "log", Side: lp.side, Height: lp.h, Kind: "match"},
					}
					out = append(out, c16Spec{Name: fmt.Sprintf("L%d/F%d:reg@%s%d+%d,match@%s%d", L, F, rp.side, rp.h, ttl, lp.side, lp.h), L: L, ForkAt: F, ReorgDepth: 3, Items: items})
					// a second matching log further up the trunk: a fired row must name a log
					// that survives the rollback if one exists (two logs in one range, the
					// later one abandoned or above the rollback target)
					if lp.side == "trunk" && rp.side == "trunk" && ttl == L {
						for h2 := lp.h + 1; h2 <= L; h2++ {
							it4 := append(append([]c16Item{}, items...), c16Item{Type: "log", Side: "trunk", Height: h2, Kind: "match"})
							out = append(out, c16Spec{Name: fmt.Sprintf("L%d/F%d:reg@trunk%d+%d,match@trunk%d,match@trunk%d", L, F, rp.h, ttl, lp.h, h2), L: L, ForkAt: F, ReorgDepth: 3, Items: it4})
						}
					}
					// the log on both sides at the same height
					if lp.side == "trunk" && lp.h > F {
						it2 := append(append([]c16Item{}, items...), c16Item{Type: "log", Side: "fork", Height: lp.h, Kind: "match"})
						out = append(out, c16Spec{Name: fmt.Sprintf("L%d/F%d:reg@%s%d+%d,match@both%d", L, F, rp.side, rp.h, ttl, lp.h), L: L, ForkAt: F, ReorgDepth: 3, Items: it2})
					}
					// a DIFFERENT trigger registered on the other branch at the same height and
					// log position (one definition asks for a data word >= 100, the other does
					// not), and a log there that matches only one of the two definitions
					if rp.side == "trunk" && rp.h > F && lp.side == "fork" && ttl != 2 {
						for _, dataOnTrunk := range []bool{false, true} {
							it5 := []c16Item{
								{Type: "reg", Side: "trunk", Height: rp.h, Trigger: 1, TTL: ttl, Data: dataOnTrunk},
								{Type: "reg", Side: "fork", Height: rp.h, Trigger: 2, TTL: ttl, Data: !dataOnTrunk},
								{Type: "log", Side: "fork", Height: lp.h, Kind: "low-data"},
							}
							out = append(out, c16Spec{Name: fmt.Sprintf("L%d/F%d:reg1@trunk%d(data=%v),reg2@fork%d+%d,low-data@fork%d", L, F, rp.h, dataOnTrunk, rp.h, ttl, lp.h), L: L, ForkAt: F, ReorgDepth: 3, Items: it5})
						}
					}
					// the trigger registered below the fork point and again in a trunk block that is
					// abandoned later (any ttl for the second registration)
					if rp.side == "trunk" && rp.h <= F && lp.side == "fork" && ttl != 2 {
						for h2 := F + 1; h2 <= L && h2 <= F+2; h2++ {
							for _, ttl2 := range []int{0, L} {
								it6 := append(append([]c16Item{}, items...), c16Item{Type: "reg", Side: "trunk", Height: h2, Trigger: 2, IdentOf: 1, TTL: ttl2})
								out = append(out, c16Spec{Name: fmt.Sprintf("L%d/F%d:reg@trunk%d+%d,again@trunk%d+%d,match@fork%d", L, F, rp.h, ttl, h2, ttl2, lp.h), L: L, ForkAt: F, ReorgDepth: 3, Items: it6})
							}
						}
					}
					// the registration on both sides (same trigger re-registered on the other branch)
					if rp.side == "trunk" && rp.h > F {
						it3 := append(append([]c16Item{}, items...), c16Item{Type: "reg", Side: "fork", Height: rp.h + 1, Trigger: 1, TTL: ttl})
						if rp.h+1 <= L {
							out = append(out, c16Spec{Name: fmt.Sprintf("L%d/F%d:reg@trunk%d+fork%d+%d,match@%s%d", L, F, rp.h, rp.h+1, ttl, lp.side, lp.h), L: L, ForkAt: F, ReorgDepth: 3, Items: it3})
						}
					}
				}
			}
		}
	}
	// the same chains followed by a keyper whose sync start block is the first block
	// after the fork point (the reorg replaces the start block itself), where a
	// registration sits in that block and nothing lies below it
	n := len(out)
	for i := 0; i < n; i++ {
		sp := out[i]
		ok, regAtStart := sp.ForkAt > 0, false
		for _, it := range sp.Items {
			if it.Height < sp.ForkAt+1 {
				ok = false
			}
			if it.Type == "reg" && it.Height == sp.ForkAt+1 {
				regAtStart = true
			}
		}
		if ok && regAtStart {
			sp.Start = sp.ForkAt + 1
			sp.Name += fmt.Sprintf(",start@%d", sp.Start)
			out = append(out, sp)
		}
	}
	return out
}

type c16Runner struct {
	c        *report.Ctx
	w        *c16World
	spec     c16Spec
	maxRange uint64
	order    int
	seen     map[string]bool
	finals   map[string]bool
	reported map[string]bool
}

func (r *c16Runner) report(f *finding, steps []c16Step) {
	rp := c16Replay{Spec: r.spec, MaxRange: r.maxRange, Order: r.order, Steps: append([]c16Step(nil), steps...)}
	if !r.reported[f.sig] {
		r.reported[f.sig] = true
		for i := 0; i < 5; i++ {
			g := replayC16(rp)
			if g == nil || g.sig != f.sig {
				panic(fmt.Sprintf("C16 harness nondeterminism: violation %s does not reproduce on replay %d (%v)\n%s", f.sig, i, g, f.msg))
			}
		}
		setProcessorOrder(r.order)
	}
	b, _ := json.Marshal(steps)
	r.c.Violation(f.sig, fmt.Sprintf("%s\nchain %s, MaxRequestBlockRange %d, steps %s", f.msg, r.spec.Name, r.maxRange, b), rp)
}

// after is called after every Sync call.
func (r *c16Runner) after(hist c16Hist, steps []c16Step, final bool) bool {
	c := r.c
	c.Stats.Evaluations++
	c.Stats.Transitions++
	dump := r.w.env.DB.Dump("multi_event_sync_status", "event_trigger_registered_event", "fired_triggers")
	if !r.seen[dump] {
		r.seen[dump] = true
		c.Stats.States++
	}
	f, class := r.w.judge(hist)
	if final {
		c.Stats.Traces++
		c.Stats.Class(class)
		r.finals[r.w.env.DB.Dump("fired_triggers")] = true
	}
	if f != nil {
		r.report(f, steps)
		if f.sig != sigD7 && f.sig != sigD7re && f.sig != sigLost {
			return false
		}
	}
	return true
}

// linear explores every composition of pos+1..L from the current database state.
func (r *c16Runner) linear(side string, pos, last int, snap *minipg.Snapshot, hist c16Hist, steps []c16Step) {
	for h := pos + 1; h <= last; h++ {
		if r.c.Expired() {
			return
		}
		r.w.env.DB.Restore(snap)
		hh := hist.clone()
		res := r.w.sync(side, h, &hh)
		if res.Err != nil {
			r.c.Stats.Class("sync-error-without-injected-fault")
			r.c.Stats.SetExtra("sync_error_without_fault_sample", fmt.Sprintf("%v (chain %s)", res.Err, r.spec.Name))
		}
		st := append(append([]c16Step(nil), steps...), c16Step{Side: side, Height: h})
		if !r.after(hh, st, h == last) {
			continue
		}
		if h < last {
			r.linear(side, h, last, r.w.env.DB.Snapshot(), hh, st)
		}
	}
}

func runC16(c *report.Ctx) {
	chains := c16Chains(c.Thorough)
	forks := c16ForkChains(c.Thorough)
	type job struct {
		spec c16Spec
		fork bool
	}
	var jobs []job
	for _, s := range chains {
		jobs = append(jobs, job{s, false})
	}
	for _, s := range forks {
		jobs = append(jobs, job{s, true})
	}
	reported := map[string]bool{}
	done, mine := 0, 0
	sampled := 0
	for ji, j := range jobs {
		if ji%c.NShards != c.Shard {
			continue
		}
		mine++
		if c.Expired() {
			continue
		}
		L := j.spec.L
		outcomes := map[string]bool{}
		for _, mr := range []uint64{1, 2, 3, uint64(L)} {
			order := (ji + int(mr)) % 2
			setProcessorOrder(order)
			w := newC16World(j.spec, mr)
			r := &c16Runner{c: c, w: w, spec: j.spec, maxRange: mr, order: order, seen: map[string]bool{}, finals: outcomes, reported: reported}
			hist := c16Hist{decrypted: map[int]uint64{}}
			if !j.fork {
				r.linear("trunk", 0, L, w.env.DB.Snapshot(), hist, nil)
			} else {
				F := j.spec.ForkAt
				init := w.env.DB.Snapshot()
				for p := F + 1; p <= F+3 && p <= L; p++ {
					// two batchings of the trunk part: one call, block by block
					for variant := 0; variant < 2; variant++ {
						w.env.DB.Restore(init)
						fresh := w
						hh := hist.clone()
						var steps []c16Step
						ok := true
						heads := []int{p}
						if variant == 1 {
							heads = nil
							for h := 1; h <= p; h++ {
								heads = append(heads, h)
							}
						}
						for _, h := range heads {
							fresh.sync("trunk", h, &hh)
							steps = append(steps, c16Step{Side: "trunk", Height: h})
							if !r.after(hh, steps, false) {
								ok = false
								break
							}
						}
						if ok {
							// the new branch: first head synced+1, then every composition of the rest
							fresh.sync("fork", p+1, &hh)
							steps = append(steps, c16Step{Side: "fork", Height: p + 1})
							if r.after(hh, steps, p+1 == L+1) && p+1 < L+1 {
								r.linear("fork", p+1, L+1, fresh.env.DB.Snapshot(), hh, steps)
							}
						}
					}
				}
			}
			w.close()
		}
		// the decrypted-before-the-log family: registration synced, trigger marked
		// decrypted by the keyper's own query, then the rest in one call
		if !j.fork && len(j.spec.Items) == 2 && j.spec.Items[0].Type == "reg" && j.spec.Items[1].Kind == "match" && j.spec.Items[1].Height > j.spec.Items[0].Height {
			for _, mr := range []uint64{1, uint64(L)} {
				setProcessorOrder(0)
				w := newC16World(j.spec, mr)
				r := &c16Runner{c: c, w: w, spec: j.spec, maxRange: mr, seen: map[string]bool{}, finals: map[string]bool{}, reported: reported}
				hist := c16Hist{decrypted: map[int]uint64{}}
				reg := j.spec.Items[0].Height
				steps := []c16Step{{Side: "trunk", Height: reg}}
				w.sync("trunk", reg, &hist)
				if r.after(hist, steps, false) {
					w.markDecrypted(1, &hist)
					steps = append(steps, c16Step{Decrypt: 1})
					w.sync("trunk", L, &hist)
					steps = append(steps, c16Step{Side: "trunk", Height: L})
					f, _ := w.judge(hist)
					c.Stats.Evaluations++
					if f != nil {
						r.report(f, steps)
					} else {
						c.Stats.Class(fmt.Sprintf("decrypted-before-log:fired=%d", len(syncx.ReadRows(w.env.DB, "fired_triggers"))))
					}
				}
				w.close()
			}
		}
		if c.Expired() {
			continue // cut by the time budget: counted as not completed below
		}
		c.Stats.Class(fmt.Sprintf("distinct-final-fired-sets-over-all-batchings=%d", len(outcomes)))
		if len(outcomes) > 1 && sampled < 2 {
			sampled++
			c.Stats.Sample(map[string]any{"chain": j.spec, "distinct_final_fired_sets_over_all_batchings": len(outcomes)})
		}
		if !c.Expired() {
			done++
			if done == 1 {
				c.Stats.Sample(map[string]any{"chain": j.spec, "compositions_per_range_limit": 1 << uint(L-1), "range_limits": []int{1, 2, 3, L}})
			}
		}
	}
	c.Stats.Count("chains_completed", int64(done))
	c.Stats.Count("chains_total", int64(mine))
	if done < mine {
		c.Stats.Cap(fmt.Sprintf("time budget: shard %d completed %d of its %d chains", c.Shard, done, mine))
	}
	c.Stats.Count("map_order_seam_ranges", maporder.Ranges)
	if c.Shard == 0 {
		c.Stats.SetExtra("engine_conformance_tests", engineConformanceTests)
	}
}
