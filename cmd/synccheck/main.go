// Command synccheck holds the checks of the chain-event syncers:
// C15 (synced contract events equal the canonical chain's, through reorgs and
// failures) and C16 (an event trigger fires iff a matching log occurs in time,
// whatever the batching). Every transition of every search is a call of the
// real Sync method of RegistrySyncer, MultiEventSyncer or SequencerSyncer over
// fakechain (in-process JSON-RPC block tree) and minipg.
package main

import (
	"time"

	"verif/report"
)

func main() {
	report.Main(map[string]*report.Check{
		"C15": c15(),
		"C16": c16(),
	})
}

func minutes(quick, thorough float64) func(bool) time.Duration {
	return func(t bool) time.Duration {
		if t {
			return time.Duration(thorough * float64(time.Minute))
		}
		return time.Duration(quick * float64(time.Minute))
	}
}

// engineConformanceTests is the number of the repository's own PostgreSQL
// backed tests the minipg engine passes (scripts/conformance.sh).
const engineConformanceTests = 47
