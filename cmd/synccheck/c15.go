package main

import (
	"bytes"
	"encoding/json"
	"fmt"
	"sort"
	"strings"

	"github.com/ethereum/go-ethereum/common"
	"github.com/jackc/pgx/v4/minipg"

	"verif/explore"
	"verif/harness/fakechain"
	"verif/harness/syncx"
	"verif/maporder"
	"verif/report"
)

// C15 — synced contract events equal the canonical chain's, through reorgs and
// failures.
//
// Unit of work: (block tree, event placement, syncer kind). For each unit an
// explicit-state breadth-first search runs the REAL Sync method:
//
//	state       = committed database (minipg snapshot) + one ghost variable G, the
//	              tree block the stored position stands for (the block with the
//	              stored hash; after a rollback, which stores an empty hash, the
//	              ancestor of the previous G at the stored height). G is a function
//	              of the observed history, only classifies the next head and never
//	              influences the code under test;
//	transition  = (head h, fault f): SetHead(h), Sync(header of h) with f injected;
//	              f in {none, RPC error at call k, statement error at round trip
//	              k, crash before / after round trip k} for every k of that call
//	              (a crash = panic with a private sentinel out of the minipg hook,
//	              recovered at the top, AbortAll, syncer object rebuilt);
//	canonical key = Dump(status table, event table[, fired_triggers]) + G.
//	              States with equal keys have equal futures because the syncers
//	              keep nothing between calls except the database.
//
// Oracle (from the property statement) after every Sync AND at every commit
// point (minipg OnCommit): if the status row (number, hash) is the canonical
// block at that height, the event table is exactly the admissible events of the
// canonical blocks [SyncStartBlockNumber, number] - none missing, none from
// abandoned blocks, none duplicated. Evaluating this at every commit point is
// the atomicity clause: a commit that moves the position without that range's
// events (or stores events beyond the position) is seen there. If the position
// is not on the canonical chain nothing is demanded.
//
// Which heads the statement admits ("forks no deeper than the assumed reorg
// depth whose first new head is at most one past the synced block") is decided
// per transition from G:
//
//	admitted        h on G's chain (repeat, extension, gap, step back), or a fork
//	                of depth <= 10 with h.number <= G.number+1. Explored to the
//	                depth bound, with every fault.
//	gap             a fork of depth <= 10 with h.number > G.number+1. As the FIRST
//	                head of the new branch this is what the statement excludes:
//	                informational probe, outcome only recorded. If some earlier
//	                head h' of that branch with h'.number <= G.number+1 exists
//	                whose Sync call (observed in this very state) leaves the
//	                database untouched, the sequence ..., h', h IS admitted by the
//	                statement (first new head not past synced+1) and has the
//	                observed outcome: judged under its own signature, not expanded.
//	excluded-deep   a fork deeper than the assumed reorg depth: informational probe.
const (
	sigSkipsStart = "C15/multieventsyncer-skips-start-block"
	sigGap        = "C15/reorg-missed-after-lower-head-then-skip"
)

type c15Step struct {
	Head  string      `json:"head"` // "<branch>@<height>"
	Fault syncx.Fault `json:"fault"`
	// Same: the step is made by the syncer object that made the previous step (the
	// keyper process stayed up); every other step is made by a freshly built syncer
	// on the stored state (what a restarted keyper has).
	Same bool `json:"same_syncer_object,omitempty"`
}

type c15Replay struct {
	Kind     syncx.Kind `json:"syncer"`
	Tree     TreeSpec   `json:"tree"`
	MaxRange uint64     `json:"max_request_block_range,omitempty"`
	Order    int        `json:"processor_order,omitempty"`
	Steps    []c15Step  `json:"steps"`
	Note     string     `json:"note,omitempty"`
}

type c15State struct {
	snap    *minipg.Snapshot
	dump    string
	ghost   fakechain.BlockID // -1: no position yet
	shown   uint64            // bit per block id
	failed  uint64            // subset of shown: the step that showed it ended with an injected fault
	startS2 bool              // state already carries the skipped-start-block discrepancy
}

type finding struct {
	sig, msg string
}

type c15Unit struct {
	t     *tree
	env   *syncx.Env
	rp    c15Replay
	depth int
}

func newC15Unit(spec TreeSpec, kind syncx.Kind, maxRange uint64, order int) *c15Unit {
	t := mustTree(spec, kind)
	u := &c15Unit{t: t, rp: c15Replay{Kind: kind, Tree: spec, MaxRange: maxRange, Order: order}}
	u.env = syncx.NewEnv(kind, t.chain, syncx.Options{Start: spec.Start, MaxRequestBlockRange: maxRange})
	return u
}

func (u *c15Unit) close() { u.t.chain.Close() }

func setProcessorOrder(order int) {
	maporder.Chooser = func(n int, label string) int {
		if n == 2 {
			return order
		}
		return 0
	}
}

func (u *c15Unit) tables() []string {
	ts := []string{u.t.kind.StatusTable(), u.t.kind.EventTable()}
	if u.t.kind == syncx.Multi {
		ts = append(ts, "fired_triggers")
	}
	return ts
}

// oracle evaluates the property on the committed database.
func (u *c15Unit) oracle(d *minipg.DB, when string) *finding {
	t := u.t
	st := syncx.ReadStatus(d, t.kind)
	if !st.Present || st.Number < 0 {
		return nil
	}
	blk := t.chain.Canonical(uint64(st.Number))
	if blk == nil || !bytes.Equal(blk.Hash[:], st.Hash) {
		return nil // position not on the canonical chain: nothing is demanded
	}
	cols := t.kind.Columns()
	exp := t.expected(uint64(st.Number))
	rows := syncx.ReadRows(d, t.kind.EventTable())
	expSet := map[string]int{}
	for _, e := range exp {
		expSet[e]++
	}
	var kinds []string
	var lines, preStart []string
	addKind := func(k string) {
		for _, x := range kinds {
			if x == k {
				return
			}
		}
		kinds = append(kinds, k)
	}
	seen := map[string]int{}
	onlyMissingAtStart := true
	for _, r := range rows {
		if t.spec.Released {
			r["decrypted"] = "false" // the flag is the keyper's own (set by this harness), not the syncer's
		}
		s := r.Render(cols)
		seen[s]++
		if seen[s] > 1 {
			addKind("duplicated-event")
			lines = append(lines, "  duplicated: "+s)
			onlyMissingAtStart = false
			continue
		}
		if expSet[s] > 0 {
			continue
		}
		// why is this row not expected?
		kind := "wrong-row"
		if hb, err := decodeHex(r["block_hash"]); err == nil {
			if b, ok := t.chain.ByHash(common.BytesToHash(hb)); ok {
				cb := t.chain.Canonical(b.Number)
				switch {
				case cb == nil || cb.ID != b.ID:
					kind = "event-from-abandoned-block"
				case b.Number > uint64(st.Number):
					kind = "event-beyond-position"
				case b.Number < t.spec.Start:
					kind = "event-before-start"
				default:
					kind = "inadmissible-or-altered-event"
				}
			}
		}
		if kind == "event-before-start" {
			// informational only (see c15EventConfigs): never part of a signature
			preStart = append(preStart, fmt.Sprintf("  %s: %s", kind, s))
			continue
		}
		onlyMissingAtStart = false
		addKind(kind)
		lines = append(lines, fmt.Sprintf("  %s: %s", kind, s))
	}
	for _, e := range exp {
		if seen[e] == 0 {
			addKind("missing-event")
			lines = append(lines, "  missing: "+e)
			if !strings.Contains(e, fmt.Sprintf("block_number=%d ", t.spec.Start)) {
				onlyMissingAtStart = false
			}
		}
	}
	if len(kinds) == 0 && len(preStart) == 0 {
		return nil
	}
	if len(kinds) == 0 {
		kinds = []string{"event-before-start"}
		onlyMissingAtStart = false
	}
	lines = append(lines, preStart...)
	sort.Strings(kinds)
	sig := "C15/" + string(t.kind) + "/" + strings.Join(kinds, "+")
	if t.kind == syncx.Multi && onlyMissingAtStart {
		sig = sigSkipsStart
	}
	msg := fmt.Sprintf("%s, %s: sync position %s is the canonical block at height %d (head %s), but table %s differs from the canonical admissible events in [%d, %d]:\n%s",
		t.kind, when, st, st.Number, t.label[t.chain.Head().ID], t.kind.EventTable(), t.spec.Start, st.Number, strings.Join(lines, "\n"))
	return &finding{sig: sig, msg: msg}
}

// preStartOnly reports whether the finding consists only of stored events from
// before the configured start block. Such events are generated for an
// informational probe only (see c15EventConfigs), never as a failure.
func preStartOnly(f *finding) bool {
	return f != nil && strings.HasSuffix(f.sig, "/event-before-start")
}

func decodeHex(s string) ([]byte, error) {
	return common.FromHex(s), nil
}

// classify decides what the statement says about showing head h in state s.
func (u *c15Unit) classify(s *c15State, h fakechain.BlockID) string {
	ch := u.t.chain
	if s.ghost < 0 {
		return "admitted"
	}
	g := ch.Block(s.ghost)
	hb := ch.Block(h)
	if ch.IsAncestorOrSelf(s.ghost, h) || ch.IsAncestorOrSelf(h, s.ghost) {
		return "admitted"
	}
	fork := ch.CommonAncestor(s.ghost, h)
	if int(g.Number-fork.Number) > u.env.ReorgDepth() {
		return "excluded-deep"
	}
	if hb.Number <= g.Number+1 {
		return "admitted"
	}
	return "gap"
}

// next computes the successor state from the database after a step.
func (u *c15Unit) next(s *c15State, h fakechain.BlockID, dump string, faulted bool, s2 bool) *c15State {
	ch := u.t.chain
	d := u.env.DB
	n := &c15State{snap: d.Snapshot(), dump: dump, ghost: -1, startS2: s.startS2 || s2}
	st := syncx.ReadStatus(d, u.t.kind)
	switch {
	case !st.Present:
	case len(st.Hash) > 0:
		if b, ok := ch.ByHash(common.BytesToHash(st.Hash)); ok {
			n.ghost = b.ID
		}
	case s.ghost >= 0 && st.Number >= 0:
		// rolled back: the position stands for the ancestor of the old position
		if b := ch.Ancestor(s.ghost, uint64(st.Number)); b != nil {
			n.ghost = b.ID
		}
	}
	if n.ghost == s.ghost && n.ghost >= 0 {
		n.shown, n.failed = s.shown, s.failed
		g := ch.Block(n.ghost)
		off := !ch.IsAncestorOrSelf(n.ghost, h) && !ch.IsAncestorOrSelf(h, n.ghost)
		if off && ch.Block(h).Number <= g.Number+1 {
			n.shown |= 1 << uint(h)
			if faulted {
				n.failed |= 1 << uint(h)
			}
		}
	}
	return n
}

func (s *c15State) key() string {
	return fmt.Sprintf("%s|g=%d", s.dump, s.ghost)
}

// refineGap is used when a recorded path is replayed: a head that skips past
// G+1 on a new branch is admitted by the statement if an earlier head of that
// branch, not higher than G+1, was shown since the position last changed.
func (u *c15Unit) refineGap(s *c15State, h fakechain.BlockID) string {
	for id := 0; id < 64; id++ {
		if s.shown&(1<<uint(id)) != 0 && u.t.chain.IsAncestorOrSelf(fakechain.BlockID(id), h) {
			return "gap-after-earlier-head"
		}
	}
	return "excluded-gap"
}

type c15Outcome struct {
	dump    string
	res     syncx.StepResult
	finding *finding
	effect  string
}

// step restores s, runs one transition and evaluates the oracle at every commit
// point and after Sync.
func (u *c15Unit) step(s *c15State, h fakechain.BlockID, f syncx.Fault) c15Outcome {
	u.env.DB.Restore(s.snap)
	u.env.Rebuild() // nothing but the database is carried from step to step
	return u.stepHere(h, f)
}

// stepSame runs one more transition on the database and with the syncer object
// the previous step left behind (the process stayed up, e.g. after a failed Sync).
func (u *c15Unit) stepSame(h fakechain.BlockID) c15Outcome { return u.stepHere(h, syncx.Fault{}) }

// follow is the head a keyper that stays up sees next after h: the next block of
// h's branch, or h again at the tip.
func (u *c15Unit) follow(h fakechain.BlockID) fakechain.BlockID {
	best := h
	for _, x := range u.t.heads {
		if u.t.chain.Block(x).Parent == h && (best == h || x < best) {
			best = x
		}
	}
	return best
}

func (u *c15Unit) stepHere(h fakechain.BlockID, f syncx.Fault) c15Outcome {
	d := u.env.DB
	before := syncx.ReadStatus(d, u.t.kind)
	var fnd *finding
	commit := 0
	res := u.env.Step(h, f, false, func(db *minipg.DB) {
		commit++
		if fnd == nil {
			fnd = u.oracle(db, fmt.Sprintf("at commit point %d of Sync(%s)", commit, u.t.label[h]))
		}
	})
	if fnd == nil {
		fnd = u.oracle(d, fmt.Sprintf("after Sync(%s)", u.t.label[h]))
	}
	if u.t.spec.Released && !res.Crashed {
		if _, err := d.Exec("UPDATE " + u.t.kind.EventTable() + " SET decrypted = TRUE"); err != nil {
			panic("c15: marking registrations decrypted: " + err.Error())
		}
	}
	after := syncx.ReadStatus(d, u.t.kind)
	effect := "no-change"
	switch {
	case !before.Present && after.Present:
		effect = "first-sync"
	case after.Present && len(after.Hash) == 0 && (before.Number != after.Number || len(before.Hash) != 0):
		effect = "rolled-back-only"
	case before.Present && after.Number > before.Number:
		effect = "advanced"
	case before.Present && after.Present && after.Number <= before.Number && !bytes.Equal(after.Hash, before.Hash):
		effect = "rolled-back+resynced"
	case before.Present && after.Present && len(before.Hash) == 0 && len(after.Hash) != 0:
		effect = "resynced"
	}
	if res.Commits > 1 {
		effect += fmt.Sprintf("/%dcommits", res.Commits)
	}
	return c15Outcome{dump: d.Dump(u.tables()...), res: res, finding: fnd, effect: effect}
}

func (u *c15Unit) headByLabel(l string) fakechain.BlockID {
	for id, x := range u.t.label {
		if x == l {
			return id
		}
	}
	panic("no block " + l)
}

// judgeGap maps the oracle's finding on a gap-after-earlier-head transition to
// the signature of that class.
func judgeGap(f *finding) *finding {
	if f == nil || f.sig == sigSkipsStart || preStartOnly(f) {
		return nil
	}
	return &finding{sig: sigGap, msg: f.msg + "\n(the fork's first new head was not higher than synced+1, so the statement admits this head sequence; the syncers detect a reorg only when a head at exactly synced+1 is shown and that Sync call gets as far as the rollback - the same happens when the head at synced+1 was shown but its Sync call failed. Underlying discrepancy class: " + f.sig + ")"}
}

// replayC15 re-executes a recorded path on a fresh unit and returns what the
// check reports for it (nil if the property held on every step).
func replayC15(rp c15Replay) *finding {
	setProcessorOrder(rp.Order)
	u := newC15Unit(rp.Tree, rp.Kind, rp.MaxRange, rp.Order)
	defer u.close()
	s := &c15State{snap: u.env.DB.Snapshot(), ghost: -1}
	var last *finding
	for i, st := range rp.Steps {
		h := u.headByLabel(st.Head)
		cls := u.classify(s, h)
		if cls == "gap" {
			cls = u.refineGap(s, h)
		}
		var o c15Outcome
		if st.Same {
			o = u.stepSame(h)
		} else {
			o = u.step(s, h, st.Fault)
		}
		where := fmt.Sprintf("step %d of %d (%s, %s): ", i+1, len(rp.Steps), st.Head, cls)
		if st.Same {
			where = fmt.Sprintf("step %d of %d (%s, %s, by the syncer object that made the previous step): ", i+1, len(rp.Steps), st.Head, cls)
		}
		switch cls {
		case "admitted":
			if o.finding != nil && !preStartOnly(o.finding) {
				last = &finding{sig: o.finding.sig, msg: where + o.finding.msg}
				if o.finding.sig != sigSkipsStart {
					return last
				}
			}
		case "gap-after-earlier-head":
			if g := judgeGap(o.finding); g != nil {
				return &finding{sig: g.sig, msg: where + g.msg}
			}
			return last
		default:
			return last // excluded by the statement: informational only
		}
		s = u.next(s, h, o.dump, o.res.Err != nil || o.res.Crashed, false)
	}
	return last
}

func decodeSteps(path []string) []c15Step {
	var out []c15Step
	for _, l := range path {
		var st c15Step
		if err := json.Unmarshal([]byte(l), &st); err != nil {
			panic(err)
		}
		out = append(out, st)
	}
	return out
}

func encodeSteps(steps []c15Step) []string {
	var out []string
	for _, st := range steps {
		b, _ := json.Marshal(st)
		out = append(out, string(b))
	}
	return out
}

type c15Probe struct {
	Held     int64 `json:"held"`
	Violated int64 `json:"violated"`
}

func c15() *report.Check {
	return &report.Check{
		Level: "model_checking",
		Rule: "explicit-state BFS over (database, position ghost) per (block tree, event placement, syncer); transitions = every head of the tree x " +
			"{no fault, RPC error at call k, statement error / crash before / crash after database round trip k}; every step is made by a freshly built syncer on the stored state, and (where faults are enumerated) after every step and every failed Sync the surviving syncer object handles one more head; oracle after every Sync and at every commit point",
		Assumptions: []string{
			"A-HEAD: the canonical branch only changes between Sync calls",
			"A-ISO: one database session at a time; PostgreSQL semantics as implemented by minipg",
			"branches: side branch A leaves the trunk at every height 1..T-1 and ends at T+2, branch B (from the trunk or from A) ends at T+3 ('length <= 3' is read as 'at most 3 blocks past the trunk tip'); every block of the tree is a possible head",
			"events before the configured start block are not generated (the contracts are deployed at the start block)",
			"on one branch a key is registered at most once",
			"admissible = eon, expiry, gas limit fit into int64 and the trigger definition is valid (by construction per docs/event.md)",
		},
		Shards: func(thorough bool) int { return 16 },
		Budget: minutes(3, 23),
		Run:    runC15,
		Replay: func(c *report.Ctx, raw json.RawMessage) string {
			var rp c15Replay
			if err := json.Unmarshal(raw, &rp); err != nil {
				return ""
			}
			if f := replayC15(rp); f != nil {
				return f.sig + "\n" + f.msg
			}
			return ""
		},
		Trivial: func(class string) bool { return strings.HasSuffix(class, ":no-change") },
	}
}

type c15Work struct {
	spec     TreeSpec
	kind     syncx.Kind
	maxRange uint64
	order    int
	faults   bool
}

func c15Worklist(thorough bool) []c15Work {
	var out []c15Work
	i := 0
	for _, shape := range c15Shapes(thorough) {
		for _, kind := range syncx.Kinds {
			for ci, cfg := range c15EventConfigs(shape, kind) {
				spec := shape
				spec.Events = cfg
				spec.Name = fmt.Sprintf("%s/e%d", shape.Name, ci)
				spec.Lenient = (ci+len(out))%2 == 1 // every other unit runs against a node that answers inverted log ranges with nothing
				if _, err := buildTree(spec, kind); err != nil {
					continue // placement would register a key twice on one branch
				}
				spec.Released = len(out)%3 == 1 && (kind == syncx.Registry || kind == syncx.Multi)
				w := c15Work{spec: spec, kind: kind, order: i % 2}
				if kind == syncx.Multi {
					w.maxRange = []uint64{4, 0, 3}[i%3] // 0 = default (one range)
				}
				out = append(out, w)
				i++
			}
		}
	}
	// Every unit is first searched without faults; afterwards a subset is searched
	// again with every single fault at every transition (the expensive part), so
	// that a time cap cuts the fault enumeration, not the head sequences.
	every := 16
	if thorough {
		every = 6
	}
	n := len(out)
	for i := 0; i < n; i++ {
		if i%every == 0 {
			w := out[i]
			w.faults = true
			out = append(out, w)
		}
	}
	return out
}

func runC15(c *report.Ctx) {
	work := c15Worklist(c.Thorough)
	maxDepth := 4
	if c.Thorough {
		maxDepth = 6
	}
	probes := map[string]*c15Probe{}
	probe := func(k string, violated bool) {
		p := probes[k]
		if p == nil {
			p = &c15Probe{}
			probes[k] = p
		}
		if violated {
			p.Violated++
		} else {
			p.Held++
		}
	}
	reported := map[string]bool{}
	done, mine := 0, 0
	var probeSample, preStartSample *c15Replay
	errSampled := false
	for wi, w := range work {
		if wi%c.NShards != c.Shard {
			continue
		}
		mine++
		if c.Expired() {
			continue
		}
		setProcessorOrder(w.order)
		u := newC15Unit(w.spec, w.kind, w.maxRange, w.order)
		report15 := func(f *finding, path []string, last c15Step, note string) {
			rp := u.rp
			rp.Note = note
			rp.Steps = append(decodeSteps(path), last)
			if !reported[f.sig] {
				reported[f.sig] = true
				// the violation must reproduce from scratch, 5 times
				for i := 0; i < 5; i++ {
					g := replayC15(rp)
					if g == nil || g.sig != f.sig {
						panic(fmt.Sprintf("C15 harness nondeterminism: violation %s does not reproduce on replay %d (%v)\n%s", f.sig, i, g, f.msg))
					}
				}
				setProcessorOrder(w.order)
			}
			b, _ := json.Marshal(rp.Steps)
			c.Violation(f.sig, fmt.Sprintf("%s\ntree %s, syncer %s, steps %s%s", f.msg, w.spec.Name, w.kind, b, note), rp)
		}
		bfs := &explore.BFS[*c15State]{
			Key:       func(s *c15State) string { return s.key() },
			MaxDepth:  maxDepth,
			Deadline:  c.Deadline,
			KeepPaths: true,
		}
		bfs.Expand = func(s *c15State, depth int, path []string, emit func(string, *c15State)) {
			ch := u.t.chain
			type gapCase struct {
				h fakechain.BlockID
				o c15Outcome
			}
			var gaps []gapCase
			// heads of a new branch, not higher than G+1, whose Sync call left the database untouched
			var lowNoop []fakechain.BlockID
			for _, h := range u.t.heads {
				cls := u.classify(s, h)
				step := c15Step{Head: u.t.label[h]}
				o := u.step(s, h, syncx.Fault{})
				c.Stats.Evaluations++
				if o.res.Err != nil {
					// the statement does not forbid Sync to fail; the state is judged like any other
					c.Stats.Class(string(w.kind) + ":sync-error-without-injected-fault")
					if !errSampled {
						errSampled = true
						c.Stats.SetExtra("sync_error_without_fault_sample", fmt.Sprintf("%v (tree %s, %s, path %v + %s)", o.res.Err, w.spec.Name, w.kind, path, step.Head))
					}
				}
				switch cls {
				case "admitted":
					c.Stats.Class(string(w.kind) + ":" + o.effect)
					s2 := false
					if preStartOnly(o.finding) {
						probe(string(w.kind)+":pre-start-event-stored-after-rollback-below-start", true)
						if preStartSample == nil {
							rp := u.rp
							rp.Steps = append(decodeSteps(path), step)
							rp.Note = "informational probe (event emitted before the configured start block): " + o.finding.msg
							preStartSample = &rp
						}
						o.finding = nil
					}
					if o.finding != nil {
						if o.finding.sig == sigSkipsStart {
							s2 = true
							if !s.startS2 {
								report15(o.finding, path, step, "")
							}
						} else {
							report15(o.finding, path, step, "")
							continue // do not explore beyond a violating state
						}
					}
					offBranch := s.ghost >= 0 && !ch.IsAncestorOrSelf(s.ghost, h) && !ch.IsAncestorOrSelf(h, s.ghost)
					if offBranch && o.dump == s.dump {
						lowNoop = append(lowNoop, h)
					}
					lbl, _ := json.Marshal(step)
					ns := u.next(s, h, o.dump, false, s2)
					emit(string(lbl), ns)
					if w.faults {
						u.continuation(c, ns, h, step, path, report15)
						u.faultSteps(c, s, h, o.res, path, emit, report15, true)
					}
				case "gap":
					gaps = append(gaps, gapCase{h, o})
				default: // excluded-deep: informational probe
					viol := o.finding != nil && o.finding.sig != sigSkipsStart && !preStartOnly(o.finding)
					probe(string(w.kind)+":"+cls, viol)
				}
			}
			// A head that skips past G+1 on a new branch: the statement admits it if an
			// earlier head of that branch, not higher than G+1, has been shown first.
			for _, g := range gaps {
				step := c15Step{Head: u.t.label[g.h]}
				// without an earlier head of the new branch this is the class the statement
				// excludes (first new head past synced+1): informational
				viol := g.o.finding != nil && g.o.finding.sig != sigSkipsStart && !preStartOnly(g.o.finding)
				probe(string(w.kind)+":excluded-gap", viol)
				if viol && probeSample == nil {
					rp := u.rp
					rp.Steps = append(decodeSteps(path), step)
					rp.Note = "informational probe (first new head past synced+1, excluded by the statement): " + g.o.finding.sig
					probeSample = &rp
				}
				cls, pre := "", []c15Step(nil)
				for _, l := range lowNoop {
					if ch.IsAncestorOrSelf(l, g.h) && depth+2 <= maxDepth {
						cls, pre = "gap-after-earlier-head", []c15Step{{Head: u.t.label[l]}}
						break
					}
				}
				if cls == "" {
					continue
				}
				// the database after the inserted step equals s, so the outcome of Sync(h) is the one observed
				p2 := append(append([]string{}, path...), encodeSteps(pre)...)
				if f := judgeGap(g.o.finding); f != nil {
					c.Stats.Class(string(w.kind) + ":" + cls + ":violated")
					report15(f, p2, step, "")
				} else {
					c.Stats.Class(string(w.kind) + ":" + cls + ":held")
				}
				if w.faults {
					// every single fault inside the Sync of the admitted gap head too (the states
					// reached are judged, not explored further)
					c.Stats.Count("fault_enumerations_at_gap_heads", 1)
					u.faultSteps(c, s, g.h, g.o.res, p2, func(string, *c15State) {}, func(f *finding, p []string, st c15Step, note string) {
						if jf := judgeGap(f); jf != nil {
							report15(jf, p, st, note)
						}
					}, false)
				}
			}
		}
		bfs.Run([]*c15State{{snap: u.env.DB.Snapshot(), dump: u.env.DB.Dump(u.tables()...), ghost: -1}})
		c.Stats.States += int64(bfs.States)
		c.Stats.Transitions += int64(bfs.Transitions)
		c.Stats.Traces += int64(bfs.Transitions)
		if bfs.Capped != "" {
			c.Stats.Cap("time budget reached inside a tree's search")
		} else {
			done++
			c.Stats.Count("trees_completed", 1)
			if bfs.FrontierCut == 0 {
				// no unexpanded state is left: every head sequence of ANY length over this
				// tree (and every fault placement, where enumerated) leads to a state seen
				c.Stats.Count("trees_search_reached_fixed_point", 1)
			}
			if w.faults {
				c.Stats.Count("trees_with_fault_enumeration", 1)
			}
		}
		if done == 1 && bfs.Capped == "" {
			c.Stats.Sample(map[string]any{"tree": w.spec, "syncer": w.kind, "states": bfs.States, "transitions": bfs.Transitions, "depth": bfs.DepthDone, "faults_enumerated": w.faults})
		}
		u.close()
	}
	if done < mine {
		c.Stats.Cap(fmt.Sprintf("time budget: shard %d completed %d of its %d (tree, syncer) units", c.Shard, done, mine))
	}
	c.Stats.Count("units_total", int64(mine))
	if c.Shard == 0 {
		c.Stats.SetExtra("engine_conformance_tests", engineConformanceTests)
		c.Stats.SetExtra("max_head_sequence_length", maxDepth)
	}
	c.Stats.Count("map_order_seam_ranges", maporder.Ranges)
	for k, p := range probes {
		c.Stats.Count("probe:"+k+":held", p.Held)
		c.Stats.Count("probe:"+k+":violated", p.Violated)
	}
	if probeSample != nil {
		c.Stats.Sample(probeSample)
	}
	if preStartSample != nil {
		c.Stats.Sample(preStartSample)
	}
}

// faultSteps enumerates every single fault inside Sync(h) from state s.
func (u *c15Unit) faultSteps(c *report.Ctx, s *c15State, h fakechain.BlockID, clean syncx.StepResult, path []string,
	emit func(string, *c15State), report15 func(*finding, []string, c15Step, string), cont bool) {
	var faults []syncx.Fault
	for k := 0; k < clean.RPCCalls; k++ {
		faults = append(faults, syncx.Fault{Type: "rpc", K: k})
	}
	for k := 0; k < clean.DBTrips; k++ {
		for _, t := range syncx.DBFaultTypes {
			faults = append(faults, syncx.Fault{Type: t, K: k})
		}
	}
	for _, f := range faults {
		step := c15Step{Head: u.t.label[h], Fault: f}
		o := u.step(s, h, f)
		c.Stats.Evaluations++
		c.Stats.Count("fault_points", 1)
		how := "error-returned"
		switch {
		case o.res.Crashed:
			how = "crashed"
		case o.res.Err == nil:
			how = "error-swallowed"
		}
		c.Stats.Class(fmt.Sprintf("%s:fault:%s:%s:%s", u.t.kind, f.Type, how, o.effect))
		s2 := false
		if preStartOnly(o.finding) {
			o.finding = nil
		}
		if o.finding != nil {
			if o.finding.sig == sigSkipsStart {
				s2 = true
			} else {
				report15(o.finding, path, step, "")
				continue
			}
		}
		failed := o.res.Err != nil || o.res.Crashed
		lbl, _ := json.Marshal(step)
		ns := u.next(s, h, o.dump, failed, s2)
		emit(string(lbl), ns)
		if cont && o.res.Err != nil && !o.res.Crashed {
			u.continuation(c, ns, h, step, path, report15)
		}
	}
}

// continuation: the keyper process stays up after the step just made (in
// particular after a Sync that returned an error) and the same syncer object
// handles the next head. The database and the syncer object are the ones the step
// left behind; ns is the state after it. Only judged, not explored further.
func (u *c15Unit) continuation(c *report.Ctx, ns *c15State, h fakechain.BlockID, made c15Step, path []string,
	report15 func(*finding, []string, c15Step, string)) {
	h2 := u.follow(h)
	if u.classify(ns, h2) != "admitted" {
		return
	}
	o := u.stepSame(h2)
	c.Stats.Evaluations++
	c.Stats.Count("steps_by_the_surviving_syncer_object", 1)
	if o.finding == nil || preStartOnly(o.finding) || o.finding.sig == sigSkipsStart {
		return
	}
	lbl, _ := json.Marshal(made)
	report15(o.finding, append(append([]string{}, path...), string(lbl)), c15Step{Head: u.t.label[h2], Same: true}, "")
}
