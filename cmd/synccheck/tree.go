package main

import (
	"fmt"
	"math"
	"math/big"

	"github.com/ethereum/go-ethereum/common"
	"github.com/ethereum/go-ethereum/crypto"

	"verif/harness/fakechain"
	"verif/harness/syncx"
)

// ---------- block trees for C15 ----------

// BranchSpec is a side branch: it leaves From ("trunk" or the tag of an earlier
// branch) after the block at height Fork and contains the heights Fork+1..End.
type BranchSpec struct {
	Tag  string `json:"tag"`
	From string `json:"from"`
	Fork int    `json:"fork"`
	End  int    `json:"end"`
}

// EventSpec names one generated event: Key selects the registration key,
// Variant the payload (the same key re-registered on another branch carries a
// different payload), Flavor "ok" or one of the inadmissible flavours.
type EventSpec struct {
	Key     int    `json:"key"`
	Variant int    `json:"variant"`
	Flavor  string `json:"flavor"`
}

// PlacedEvent puts an event into the block of Branch at Height.
type PlacedEvent struct {
	Branch string    `json:"branch"`
	Height int       `json:"height"`
	Ev     EventSpec `json:"event"`
}

// TreeSpec describes a block tree: trunk 1..Trunk on top of genesis, side
// branches, events.
type TreeSpec struct {
	Name     string        `json:"name"`
	Trunk    int           `json:"trunk"`
	Start    uint64        `json:"sync_start_block"`
	Branches []BranchSpec  `json:"branches"`
	Events   []PlacedEvent `json:"events"`
	// Lenient: the node answers eth_getLogs with fromBlock > toBlock with an empty
	// result (geth answers with an error); the syncers must be correct against both.
	Lenient bool `json:"node_answers_inverted_log_range_with_nothing,omitempty"`
	// Released: the keyper releases keys promptly - after every Sync call its own
	// flag update marks every stored registration as decrypted (the syncers must
	// treat such rows like any other when they roll back and resync)
	Released bool `json:"stored_registrations_marked_decrypted_after_every_sync,omitempty"`
}

type placed struct {
	ev  *syncx.Event
	idx int // log index in its block
	blk fakechain.BlockID
}

type tree struct {
	spec   TreeSpec
	kind   syncx.Kind
	chain  *fakechain.Chain
	ids    map[string]map[int]fakechain.BlockID // branch tag -> height -> block
	heads  []fakechain.BlockID                  // every non-genesis block, trunk first
	events map[fakechain.BlockID][]placed
	label  map[fakechain.BlockID]string
}

// Inadmissible flavours per kind (DESIGN C15: eon > 2^63-1, gas limit not
// fitting int64, expiry not fitting int64, invalid definition bytes).
func flavors(kind syncx.Kind) []string {
	switch kind {
	case syncx.Registry:
		return []string{"eon-2^63", "eon-max"}
	case syncx.Sequencer:
		return []string{"eon-2^63", "gas-2^63", "gas-2^256-1"}
	default:
		return []string{"eon-max", "expiry-2^63", "expiry-max", "def-empty", "def-version", "def-truncated", "def-badop"}
	}
}

var twoTo63 = new(big.Int).Lsh(big.NewInt(1), 63)

func mkEvent(kind syncx.Kind, s EventSpec) *syncx.Event {
	ev := &syncx.Event{Kind: kind, Name: fmt.Sprintf("k%d.v%d.%s", s.Key, s.Variant, s.Flavor)}
	k, v := byte(s.Key), byte(s.Variant)
	switch kind {
	case syncx.Registry: // key (prefix, sender); payload eon, timestamp
		ev.Prefix = [32]byte{0xA0, k}
		ev.Sender = common.BytesToAddress([]byte{0x5e, k})
		ev.Eon = uint64(1 + s.Variant)
		ev.Timestamp = syncx.GenesisTime + 1000 + uint64(s.Variant)
	case syncx.Multi: // key (eon, keccak(prefix, sender, definition)); payload expiration
		ev.Prefix = [32]byte{0xA1, k}
		ev.Sender = common.BytesToAddress([]byte{0x5e, k})
		ev.Eon = 1
		ev.Definition = syncx.TriggerDefinition(syncx.TargetAddr, crypto.Keccak256Hash([]byte{0x70, k}), nil)
		ev.DefinitionValid = true
		ev.Expiration = 1000 + uint64(s.Variant)
	case syncx.Sequencer: // key (eon, txIndex); payload prefix, sender, tx, gas
		ev.Eon = 1
		ev.TxIndex = uint64(s.Key)
		ev.Prefix = [32]byte{0xA2, v}
		ev.Sender = common.BytesToAddress([]byte{0x5e, v})
		ev.EncryptedTx = []byte{0xEE, v}
		ev.GasLimit = big.NewInt(21000 + int64(s.Variant))
	}
	switch s.Flavor {
	case "ok":
	case "eon-2^63":
		ev.Eon = 1 << 63
	case "eon-max":
		ev.Eon = math.MaxUint64
	case "gas-2^63":
		ev.GasLimit = new(big.Int).Set(twoTo63)
	case "gas-2^256-1":
		ev.GasLimit = new(big.Int).Sub(new(big.Int).Lsh(big.NewInt(1), 256), big.NewInt(1))
	case "expiry-2^63":
		ev.Expiration = 1 << 63
	case "expiry-max":
		ev.Expiration = math.MaxUint64
	case "def-empty":
		ev.Definition, ev.DefinitionValid = []byte{}, false
	case "def-version": // valid RLP behind a version byte that is not 0x02
		ev.Definition, ev.DefinitionValid = append([]byte{0x01}, ev.Definition[1:]...), false
	case "def-truncated": // RLP cut in the middle
		ev.Definition, ev.DefinitionValid = ev.Definition[:len(ev.Definition)/2], false
	case "def-badop": // operator 9 does not exist (docs/event.md: operators 0..5)
		ev.Definition, ev.DefinitionValid = badOpDefinition(), false
	default:
		panic("unknown flavor " + s.Flavor)
	}
	return ev
}

// badOpDefinition hand-encodes version ‖ rlp([address, [[[false, 0], [9]]]]).
func badOpDefinition() []byte {
	addr := append([]byte{0x94}, syncx.TargetAddr.Bytes()...) // 20-byte string
	ref := []byte{0xc2, 0x80, 0x80}                           // [false, 0]
	pred := []byte{0xc1, 0x09}                                // [9]
	lp := append([]byte{0xc0 + byte(len(ref)+len(pred))}, append(ref, pred...)...)
	lps := append([]byte{0xc0 + byte(len(lp))}, lp...)
	body := append(addr, lps...)
	return append([]byte{0x02, 0xc0 + byte(len(body))}, body...)
}

// mustTree builds a tree from a spec that is known to be well formed.
func mustTree(spec TreeSpec, kind syncx.Kind) *tree {
	t, err := buildTree(spec, kind)
	if err != nil {
		panic(err)
	}
	return t
}

func buildTree(spec TreeSpec, kind syncx.Kind) (*tree, error) {
	t := &tree{spec: spec, kind: kind, ids: map[string]map[int]fakechain.BlockID{}, events: map[fakechain.BlockID][]placed{}, label: map[fakechain.BlockID]string{}}
	t.chain = fakechain.New(syncx.GenesisTime)
	t.chain.LenientRanges = spec.Lenient
	// logs per (branch, height)
	type at struct {
		b string
		h int
	}
	evs := map[at][]*syncx.Event{}
	for _, p := range spec.Events {
		evs[at{p.Branch, p.Height}] = append(evs[at{p.Branch, p.Height}], mkEvent(kind, p.Ev))
	}
	used := 0
	add := func(branch string, height int, parent fakechain.BlockID) fakechain.BlockID {
		var logs []fakechain.LogSpec
		list := evs[at{branch, height}]
		for _, e := range list {
			logs = append(logs, e.Log())
		}
		id := t.chain.AddBlock(parent, branch, logs...)
		for i, e := range list {
			t.events[id] = append(t.events[id], placed{ev: e, idx: i, blk: id})
			used++
		}
		if t.ids[branch] == nil {
			t.ids[branch] = map[int]fakechain.BlockID{}
		}
		t.ids[branch][height] = id
		t.heads = append(t.heads, id)
		t.label[id] = fmt.Sprintf("%s@%d", branch, height)
		return id
	}
	t.ids["trunk"] = map[int]fakechain.BlockID{0: 0}
	t.label[0] = "genesis"
	parent := fakechain.BlockID(0)
	for h := 1; h <= spec.Trunk; h++ {
		parent = add("trunk", h, parent)
	}
	for _, b := range spec.Branches {
		p, ok := t.ids[b.From][b.Fork]
		if !ok {
			return nil, fmt.Errorf("tree %s: branch %s forks from missing block %s@%d", spec.Name, b.Tag, b.From, b.Fork)
		}
		// heights at or below the fork point resolve to the parent branch
		t.ids[b.Tag] = map[int]fakechain.BlockID{}
		for h := b.Fork + 1; h <= b.End; h++ {
			p = add(b.Tag, h, p)
		}
	}
	if used != len(spec.Events) {
		return nil, fmt.Errorf("tree %s: %d of %d events placed on missing blocks", spec.Name, used, len(spec.Events))
	}
	// at most one registration per key on one branch (what the contracts admit)
	for _, leaf := range t.heads {
		seen := map[string]bool{}
		for b := t.chain.Block(leaf); ; b = t.chain.Block(b.Parent) {
			for _, p := range t.events[b.ID] {
				k := p.ev.Key()
				if seen[k] {
					return nil, fmt.Errorf("tree %s: key %s registered twice on the branch ending in %s", spec.Name, k, t.label[leaf])
				}
				seen[k] = true
			}
			if b.Parent == fakechain.NoBlock {
				break
			}
		}
	}
	return t, nil
}

// expected returns the rendered rows the event table must hold when the sync
// position is the canonical block at height n: the admissible events of the
// canonical blocks start..n.
func (t *tree) expected(n uint64) []string {
	var rows []syncx.Row
	for h := t.spec.Start; h <= n; h++ {
		b := t.chain.Canonical(h)
		if b == nil {
			break
		}
		for _, p := range t.events[b.ID] {
			if p.ev.Admissible() {
				rows = append(rows, p.ev.ExpectedRow(b, p.idx))
			}
		}
	}
	return syncx.RenderRows(rows, t.kind.Columns())
}

// ---------- enumeration of trees ----------

func c15Shapes(thorough bool) []TreeSpec {
	T := 12
	if thorough {
		T = 14
	}
	var out []TreeSpec
	for fa := 1; fa <= T-1; fa++ {
		a := BranchSpec{Tag: "A", From: "trunk", Fork: fa, End: T + 2}
		var bs []BranchSpec
		add := func(from string, fork int) {
			if from == "trunk" && (fork < 1 || fork > T-1) {
				return
			}
			if from == "A" && (fork <= fa || fork >= a.End) {
				return
			}
			for _, b := range bs {
				if b.From == from && b.Fork == fork {
					return
				}
			}
			bs = append(bs, BranchSpec{Tag: "B", From: from, Fork: fork, End: T + 3})
		}
		add("trunk", fa) // same fork point as A
		add("A", fa+2)   // fork of the fork
		if thorough {
			add("trunk", fa-1)
			add("trunk", fa+1)
			add("trunk", 1)
			add("trunk", T-1)
			add("A", fa+1)
			add("A", T)
			add("A", T+1)
		}
		for _, b := range bs {
			out = append(out, TreeSpec{
				Name:     fmt.Sprintf("T%d/A@%d/B@%s%d", T, fa, b.From, b.Fork),
				Trunk:    T,
				Start:    2,
				Branches: []BranchSpec{a, b},
			})
		}
	}
	return out
}

// c15EventConfigs returns the event placements (<= 3 events each) for a shape.
func c15EventConfigs(s TreeSpec, kind syncx.Kind) [][]PlacedEvent {
	T, fa := s.Trunk, s.Branches[0].Fork
	b := s.Branches[1]
	start := int(s.Start)
	min := func(x, y int) int {
		if x < y {
			return x
		}
		return y
	}
	ok := func(key, variant int) EventSpec { return EventSpec{Key: key, Variant: variant, Flavor: "ok"} }
	P := func(branch string, h int, e EventSpec) PlacedEvent {
		return PlacedEvent{Branch: branch, Height: h, Ev: e}
	}
	// named positions
	forkCommon := fa
	if forkCommon < start {
		forkCommon = start + 1 // below the start block nothing is synced; use another old trunk block
	}
	trunkAfter1, trunkAfter2 := fa+1, min(fa+2, T)
	a1, a2, atop := fa+1, fa+2, T+1
	b1, b2, btop := b.Fork+1, b.Fork+2, T+2
	cfgs := [][]PlacedEvent{
		{P("trunk", start, ok(1, 0)), P("trunk", forkCommon, ok(2, 0)), P("A", a1, ok(3, 0))},
		{P("trunk", start+1, ok(1, 0)), P("trunk", trunkAfter1, ok(2, 0)), P("B", b1, ok(3, 0))},
		{P("trunk", T, ok(1, 0)), P("A", a2, ok(2, 0)), P("B", b2, ok(3, 0))},
		{P("trunk", start, ok(1, 0)), P("trunk", trunkAfter2, ok(2, 0)), P("A", atop, ok(3, 0))},
		{P("trunk", trunkAfter1, ok(1, 0)), P("A", a1, ok(2, 0)), P("B", btop, ok(3, 0))},
		// the same key on two branches at different heights
		{P("trunk", trunkAfter1, ok(1, 0)), P("A", a2, ok(1, 1)), P("trunk", start, ok(2, 0))},
		{P("A", a1, ok(1, 1)), P("B", btop, ok(3, 0))},
		{P("A", a2, ok(1, 0)), P("B", b1, ok(1, 1))},
		// two events in one block
		{P("trunk", trunkAfter1, ok(1, 0)), P("trunk", trunkAfter1, ok(2, 0)), P("A", a1, ok(1, 1))},
	}
	if start > 1 {
		// an event BEFORE the configured start block (informational: the statement
		// speaks about events "from the sync start"; a rollback that reaches below
		// the start block re-syncs from there)
		cfgs = append(cfgs, []PlacedEvent{P("trunk", start-1, ok(1, 0)), P("trunk", trunkAfter1, ok(2, 0)), P("A", a1, ok(3, 0))})
	}
	if trunkAfter2 != trunkAfter1 {
		cfgs = append(cfgs, []PlacedEvent{P("trunk", trunkAfter2, ok(1, 0)), P("A", a1, ok(1, 1)), P("B", b1, ok(3, 0))})
	}
	if b.From == "trunk" || b.Fork >= a2 {
		// A's event is not on B's branch below B's fork ... same key on all three branches
		e := []PlacedEvent{P("B", b2, ok(1, 1)), P("trunk", T, ok(1, 2))}
		if b.From == "trunk" {
			e = append(e, P("A", a1, ok(1, 0)))
		}
		cfgs = append(cfgs, e)
	}
	for i, f := range flavors(kind) {
		bad := func(key int) EventSpec { return EventSpec{Key: key, Variant: 0, Flavor: f} }
		if i%2 == 0 {
			cfgs = append(cfgs, []PlacedEvent{P("trunk", start, bad(1)), P("A", a1, bad(2)), P("trunk", trunkAfter1, ok(3, 0))})
		} else {
			cfgs = append(cfgs, []PlacedEvent{P("trunk", trunkAfter1, bad(1)), P("B", b1, bad(2)), P("trunk", start, ok(3, 0))})
		}
	}
	// drop placements that fall on blocks that do not exist in this shape
	var out [][]PlacedEvent
	for _, c := range cfgs {
		valid := true
		for _, p := range c {
			switch p.Branch {
			case "trunk":
				valid = valid && p.Height >= 1 && p.Height <= T
			case "A":
				valid = valid && p.Height > fa && p.Height <= s.Branches[0].End
			case "B":
				valid = valid && p.Height > b.Fork && p.Height <= b.End
			}
		}
		if valid {
			out = append(out, c)
		}
	}
	return out
}
