package main

import (
	"bytes"
	"context"
	"database/sql"
	"encoding/json"
	"fmt"
	"math"
	"math/big"
	"runtime/debug"
	"sort"
	"strings"

	"github.com/ethereum/go-ethereum/common"
	"github.com/ethereum/go-ethereum/crypto"
	"github.com/jackc/pgx/v4/minipg"
	triggerRegistryV1Bindings "github.com/shutter-network/contracts/v2/bindings/shuttereventtriggerregistryv1"
	registryBindings "github.com/shutter-network/contracts/v2/bindings/shutterregistry"

	kprdb "github.com/shutter-network/rolling-shutter/rolling-shutter/keyper/database"
	"github.com/shutter-network/rolling-shutter/rolling-shutter/keyperimpl/shutterservice"
	syncevent "github.com/shutter-network/rolling-shutter/rolling-shutter/medley/chainsync/event"
	"github.com/shutter-network/rolling-shutter/rolling-shutter/medley/encodeable/number"
	"github.com/shutter-network/rolling-shutter/rolling-shutter/medley/identitypreimage"
	"github.com/shutter-network/rolling-shutter/rolling-shutter/p2pmsg"
	"github.com/shutter-network/rolling-shutter/rolling-shutter/shdb"

	"verif/explore"
	"verif/harness/fakechain"
	"verif/harness/kpx"
	"verif/harness/syncx"
	"verif/report"
)

// C02 — shutter-service keyper never triggers decryption before the release condition.
//
// Explicit-state BFS over histories of observed blocks (timestamps below, at
// and above release times, repeated and decreasing timestamps), registrations,
// event-trigger registrations, matching / non-matching logs, eon state changes,
// key releases and keyper restarts. Every block is processed by the real
// Keyper.processNewBlock with the real RegistrySyncer and MultiEventSyncer on a
// fake chain; every trigger it emits is consumed by the real KeyShareHandler
// through the real service middleware. A monitor written from the statement
// checks every identity in every trigger and in every published shares message.

const (
	c02Set        = 1 // the keyper set the keyper under test belongs to (below n: aliases with a keyper index)
	c02OtherSet   = 4 // a set it does not belong to (key generation succeeded)
	c02TwinSet    = 2 // a further set it belongs to, with the same activation block as set 1 (only in one seed state)
	c02Activation = 2 // activation block of set 3
	c02T1         = syncx.GenesisTime + 12
	c02T2         = syncx.GenesisTime + 20
)

var (
	c02members = []int{50, 51, 52}
	c02me      = 50
	topicHit   = common.HexToHash("0x00000000000000000000000000000000000000000000000000000000000000aa")
	topicMiss  = common.HexToHash("0x00000000000000000000000000000000000000000000000000000000000000bb")
)

type c02reg struct {
	Prefix byte
	Set    uint64
	T      uint64
	Block  uint64
}

type c02trig struct {
	Prefix byte
	Set    uint64
	Expiry uint64
	Block  uint64
	Def    []byte
}

type c02blk struct{ N, Time uint64 }

type c02model struct {
	Regs      []c02reg
	Trigs     []c02trig
	HitLogs   []uint64 // block numbers of logs matching the trigger definition
	Observed  []c02blk
	EonState  string // none | started | failed | success | restarted | restarted-success
	NextEon   int64
	Decrypted map[string]bool // identities released so far
	Twin      bool            // the twin keyper set (same activation block, succeeded later) exists
}

func (m *c02model) clone() *c02model {
	n := *m
	n.Regs = append([]c02reg{}, m.Regs...)
	n.Trigs = append([]c02trig{}, m.Trigs...)
	n.HitLogs = append([]uint64{}, m.HitLogs...)
	n.Observed = append([]c02blk{}, m.Observed...)
	n.Decrypted = map[string]bool{}
	for k := range m.Decrypted {
		n.Decrypted[k] = true
	}
	return &n
}

type c02state struct {
	db    *minipg.DB
	chain *fakechain.Chain
	head  fakechain.BlockID
	ltt   *uint64
	m     *c02model
	ops   []c02op
}

type c02op struct {
	Kind    string `json:"kind"`    // block | eon | release | restart
	Dt      int64  `json:"dt"`      // block: timestamp delta to the head
	Content string `json:"content"` // block: none | regA | regB | regOther | trig | trigB | hit | miss ; eon: start|success|fail ; release: A|B|X
	// Skip (block): the block is added to the chain but the keyper does not get to
	// process it (it lags); the next processed block then syncs a range of several blocks.
	Skip bool `json:"skip,omitempty"`
}

func (o c02op) String() string {
	if o.Kind == "block" {
		if o.Skip {
			return fmt.Sprintf("unprocessed-block(%+d,%s)", o.Dt, o.Content)
		}
		return fmt.Sprintf("block(%+d,%s)", o.Dt, o.Content)
	}
	return o.Kind + "(" + o.Content + ")"
}

type c02h struct {
	keys *kpx.EonSet
}

func prefix32(b byte) [32]byte {
	var p [32]byte
	p[0], p[31] = b, b
	return p
}

// c02payload is the dynamic value the trigger definition asks for.
var c02payload = bytes.Repeat([]byte{0x5a}, 32)

// c02data builds log data: first word = v, second word = offset of a dynamic
// value whose length word says declared and of which present bytes follow.
func c02data(v *big.Int, declared int, present []byte) []byte {
	d := append([]byte{}, common.BigToHash(v).Bytes()...)
	d = append(d, common.BigToHash(big.NewInt(0x40)).Bytes()...)
	d = append(d, common.BigToHash(big.NewInt(int64(declared))).Bytes()...)
	return append(d, present...)
}

// c02def: logs of the target contract with topic 0 == topicHit, first data
// word (a uint256) <= 1000 and second argument (a dynamic value) == c02payload.
func c02def() []byte {
	d := shutterservice.EventTriggerDefinition{
		Contract: syncx.TargetAddr,
		LogPredicates: []shutterservice.LogPredicate{
			{LogValueRef: shutterservice.LogValueRef{Offset: 0}, ValuePredicate: shutterservice.ValuePredicate{Op: shutterservice.BytesEq, ByteArgs: [][]byte{topicHit.Bytes()}}},
			{LogValueRef: shutterservice.LogValueRef{Offset: 4}, ValuePredicate: shutterservice.ValuePredicate{Op: shutterservice.UintLte, IntArgs: []*big.Int{big.NewInt(1000)}}},
			{LogValueRef: shutterservice.LogValueRef{Offset: 5, Dynamic: true}, ValuePredicate: shutterservice.ValuePredicate{Op: shutterservice.BytesEq, ByteArgs: [][]byte{c02payload}}},
		},
	}
	return d.MarshalBytes()
}

func (h *c02h) spec() kpx.NodeSpec {
	return kpx.NodeSpec{Flavour: "service", CfgIndex: c02Set, Members: c02members, Threshold: 2, Activation: c02Activation, Eon: 5, Keys: h.keys, MaxKeys: 16, State: kpx.ConfigOnly}
}

func (h *c02h) initial() *c02state {
	n := kpx.NewNode(h.spec(), c02me)
	// the other set: the keyper is not a member; its key generation succeeded
	kpx.InstallEon(n.Pool, c02OtherSet, kpx.Addrs(51, 52, 53), 2, 0, 20, kpx.Success, h.keys.Result(20, 0))
	ch := fakechain.New(syncx.GenesisTime)
	return &c02state{db: n.Pool.DB(), chain: ch, head: 0, m: &c02model{EonState: "none", NextEon: 5, Decrypted: map[string]bool{}}}
}

// node builds the keyper objects on copies of the state's database and chain.
func (h *c02h) node(s *c02state) (*kpx.Node, *shutterservice.Keyper, *fakechain.Chain) {
	n := kpx.NodeOnDB(h.spec(), c02me, s.db.Clone())
	ch := s.chain.Clone()
	client := ch.Client()
	n.ServiceCfg.Chain.Contracts.ShutterRegistry = syncx.RegistryAddr
	n.ServiceCfg.Chain.Contracts.ShutterEventTriggerRegistry = syncx.TriggerRegistryAddr
	n.ServiceCfg.Chain.SyncStartBlockNumber = 0
	reg, err := registryBindings.NewShutterregistry(syncx.RegistryAddr, client)
	kpx.Must(err)
	trg, err := triggerRegistryV1Bindings.NewShuttereventtriggerregistryv1(syncx.TriggerRegistryAddr, client)
	kpx.Must(err)
	rs := &shutterservice.RegistrySyncer{Contract: reg, DBPool: n.Pool, ExecutionClient: client, SyncStartBlockNumber: 0}
	ms, err := shutterservice.NewMultiEventSyncer(n.Pool, client, 0, []shutterservice.EventProcessor{
		shutterservice.NewEventTriggerRegisteredEventProcessor(trg, n.Pool), shutterservice.NewTriggerProcessor(client, n.Pool),
	})
	kpx.Must(err)
	k := shutterservice.VerifNewKeyper(n.ServiceCfg, n.Pool, n.Triggers, rs, ms)
	k.VerifSetLatestTriggeredTime(s.ltt)
	return n, k, ch
}

// lookups in the keyper's own event tables (what the syncers stored)
func regRowByIdentity(db *minipg.DB, id []byte) (prefix byte, ok bool) {
	cols := db.Columns("identity_registered_event")
	ci := map[string]int{}
	for i, c := range cols {
		ci[c] = i
	}
	for _, r := range db.Rows("identity_registered_event") {
		if bytes.Equal(r[ci["identity"]].([]byte), id) {
			return r[ci["identity_prefix"]].([]byte)[0], true
		}
	}
	return 0, false
}

func trigRowByIdentity(db *minipg.DB, id []byte) (prefix byte, ok bool) {
	cols := db.Columns("event_trigger_registered_event")
	ci := map[string]int{}
	for i, c := range cols {
		ci[c] = i
	}
	for _, r := range db.Rows("event_trigger_registered_event") {
		if bytes.Equal(r[ci["identity"]].([]byte), id) {
			return r[ci["identity_prefix"]].([]byte)[0], true
		}
	}
	return 0, false
}

// eligible is the statement's release condition for one identity at the moment
// block (n, time) has been observed.
func (h *c02h) eligible(m *c02model, db *minipg.DB, id []byte, before map[string]bool) string {
	if before[string(id)] {
		return "identity was already marked decrypted"
	}
	memberOK := func(set uint64) string {
		if set != c02Set {
			return fmt.Sprintf("keyper is not a member of keyper set %d", set)
		}
		if m.EonState != "success" && m.EonState != "restarted-success" {
			return fmt.Sprintf("key generation of keyper set %d has not succeeded (state %s)", set, m.EonState)
		}
		return ""
	}
	if p, ok := regRowByIdentity(db, id); ok {
		for _, r := range m.Regs {
			if r.Prefix != p {
				continue
			}
			if why := memberOK(r.Set); why != "" {
				return why
			}
			for _, b := range m.Observed {
				if b.Time > r.T && b.N >= c02Activation {
					return ""
				}
			}
			return fmt.Sprintf("no observed block has a timestamp strictly later than the release time %d and a number >= activation block %d (observed %v)", r.T, c02Activation, m.Observed)
		}
		return "registration row without a registration on chain"
	}
	if p, ok := trigRowByIdentity(db, id); ok {
		for _, t := range m.Trigs {
			if t.Prefix != p {
				continue
			}
			if why := memberOK(t.Set); why != "" {
				return why
			}
			last := m.Observed[len(m.Observed)-1].N
			for _, lb := range m.HitLogs {
				if lb <= t.Expiry && lb <= last {
					return ""
				}
			}
			return fmt.Sprintf("no matching log was included at or before the expiry block %d (matching logs in blocks %v)", t.Expiry, m.HitLogs)
		}
		return "trigger row without a registration on chain"
	}
	return "identity is neither a registered nor an event-triggered identity"
}

func (h *c02h) checkList(ids []identitypreimage.IdentityPreimage) string {
	for i := 1; i < len(ids); i++ {
		c := bytes.Compare(ids[i-1], ids[i])
		if c == 0 {
			return "identities inside one trigger are not distinct"
		}
		if c > 0 {
			return "identities inside one trigger are not sorted"
		}
	}
	return ""
}

// apply executes one op; returns the successor and a violation.
func (h *c02h) apply(s *c02state, o c02op, st *report.Stats) (ns *c02state, violation string) {
	defer func() {
		if p := recover(); p != nil {
			violation = fmt.Sprintf("panic: %v\n%s", p, debug.Stack())
		}
	}()
	m := s.m.clone()
	ns = &c02state{head: s.head, ltt: s.ltt, m: m, ops: append(append([]c02op{}, s.ops...), o)}
	ctx := context.Background()
	switch o.Kind {
	case "restart":
		ns.db, ns.chain, ns.ltt = s.db, s.chain, nil
		st.Class("restart")
		return ns, ""
	case "eon":
		n := kpx.NodeOnDB(h.spec(), c02me, s.db.Clone())
		q := kprdb.New(n.Pool)
		enc := func(eon int64) []byte {
			// same encoding helper as the DKG driver uses
			r := h.keys.Result(uint64(eon), 0)
			b, err := shdb.EncodePureDKGResult(r)
			kpx.Must(err)
			return b
		}
		switch o.Content {
		case "twin":
			// a second keyper set (index 2) with the same activation block as set 1: the
			// keyper is a member, its key generation was started later (greater shuttermint
			// height) and succeeded. Nothing about set 1 changes.
			if m.Twin {
				return nil, ""
			}
			kpx.InstallEon(n.Pool, c02TwinSet, kpx.Addrs(c02members...), 2, c02Activation, 40, kpx.ConfigOnly, nil)
			kpx.Must(q.InsertEon(ctx, kprdb.InsertEonParams{Eon: 40, Height: 400, ActivationBlockNumber: c02Activation, KeyperConfigIndex: c02TwinSet}))
			kpx.Must(q.InsertDKGResult(ctx, kprdb.InsertDKGResultParams{Eon: 40, Success: true, PureResult: enc(40)}))
			m.Twin = true
		case "start":
			if m.EonState != "none" && m.EonState != "failed" {
				return nil, ""
			}
			kpx.Must(q.InsertEon(ctx, kprdb.InsertEonParams{Eon: m.NextEon, Height: m.NextEon, ActivationBlockNumber: c02Activation, KeyperConfigIndex: c02Set}))
			if m.EonState == "none" {
				m.EonState = "started"
			} else {
				m.EonState = "restarted"
			}
		case "success", "fail":
			if m.EonState != "started" && m.EonState != "restarted" {
				return nil, ""
			}
			ok := o.Content == "success"
			p := kprdb.InsertDKGResultParams{Eon: m.NextEon, Success: ok}
			if ok {
				p.PureResult = enc(m.NextEon)
			} else {
				p.Error = sql.NullString{String: "failed", Valid: true}
			}
			kpx.Must(q.InsertDKGResult(ctx, p))
			switch {
			case ok && m.EonState == "started":
				m.EonState = "success"
			case ok:
				m.EonState = "restarted-success"
			default:
				m.EonState = "failed"
			}
			m.NextEon++
		}
		ns.db, ns.chain = n.Pool.DB(), s.chain
		st.Class("eon state -> " + m.EonState)
		return ns, ""
	case "release":
		// a keys message for the identity arrives and is processed by the real service handler
		n, _, _ := h.node(s)
		var id []byte
		cols := "identity_registered_event"
		if o.Content == "X" {
			cols = "event_trigger_registered_event"
		}
		if o.Content == "XY" {
			cols = "event_trigger_registered_event"
		}
		want := map[string]byte{"A": 0xa1, "B": 0xb2, "X": 0xe5, "XY": 0xe5}[o.Content]
		names := n.Pool.DB().Columns(cols)
		ci := map[string]int{}
		for i, c := range names {
			ci[c] = i
		}
		var id2 []byte
		for _, r := range n.Pool.DB().Rows(cols) {
			if r[ci["identity_prefix"]].([]byte)[0] == want && r[ci["eon"]].(int64) == c02Set {
				id = r[ci["identity"]].([]byte)
			}
			if o.Content == "XY" && r[ci["identity_prefix"]].([]byte)[0] == 0xe6 && r[ci["eon"]].(int64) == c02Set {
				id2 = r[ci["identity"]].([]byte)
			}
		}
		if id == nil || (o.Content == "XY" && id2 == nil) {
			return nil, ""
		}
		ids := []identitypreimage.IdentityPreimage{id}
		keyList := []*p2pmsg.Key{{IdentityPreimage: id, Key: h.keys.Key(id).Marshal()}}
		if id2 != nil {
			// one keys message releasing both event-trigger identities (sorted)
			ids = append(ids, id2)
			sort.Slice(ids, func(i, j int) bool { return bytes.Compare(ids[i], ids[j]) < 0 })
			keyList = nil
			for _, x := range ids {
				keyList = append(keyList, &p2pmsg.Key{IdentityPreimage: x, Key: h.keys.Key(x).Marshal()})
			}
		}
		msg := &p2pmsg.DecryptionKeys{InstanceId: kpx.InstanceID, Eon: c02Set, Keys: keyList,
			Extra: &p2pmsg.DecryptionKeys_Service{Service: &p2pmsg.ShutterServiceDecryptionKeysExtra{SignerIndices: []uint64{1, 2},
				Signature: [][]byte{kpx.SignService(51, c02Set, ids), kpx.SignService(52, c02Set, ids)}}}}
		if m.EonState != "success" && m.EonState != "restarted-success" {
			return nil, "" // the core validator would (rightly) reject keys of a set without key
		}
		d, _ := n.Receive(msg.Topic(), kpx.Envelope(msg))
		if d.Panic != "" {
			return ns, "panic: " + d.Panic
		}
		if d.Verdict != 0 || d.Err != nil {
			return ns, fmt.Sprintf("honest keys message for a registered identity not processed (%s, %v)", d.VerdictString(), d.Err)
		}
		for _, x := range ids {
			m.Decrypted[string(x)] = true
		}
		ns.db, ns.chain = n.Pool.DB(), s.chain
		st.Class("keys released for " + o.Content)
		return ns, ""
	}
	// block
	n, k, ch := h.node(s)
	parent := ch.Block(s.head)
	num := parent.Number + 1
	t := uint64(int64(parent.Time) + o.Dt)
	var logs []fakechain.LogSpec
	sender := kpx.Addr(90)
	switch o.Content {
	case "regA":
		logs = append(logs, fakechain.IdentityRegistered(syncx.RegistryAddr, c02Set, prefix32(0xa1), sender, c02T1))
		m.Regs = append(m.Regs, c02reg{0xa1, c02Set, c02T1, num})
	case "regB":
		logs = append(logs, fakechain.IdentityRegistered(syncx.RegistryAddr, c02Set, prefix32(0xb2), sender, c02T2))
		m.Regs = append(m.Regs, c02reg{0xb2, c02Set, c02T2, num})
	case "regE":
		// release time already in the past when registered (matters below the activation block)
		logs = append(logs, fakechain.IdentityRegistered(syncx.RegistryAddr, c02Set, prefix32(0xd4), sender, syncx.GenesisTime+1))
		m.Regs = append(m.Regs, c02reg{0xd4, c02Set, syncx.GenesisTime + 1, num})
	case "regMany":
		// four registrations in one block, released together with A (one trigger then
		// carries several identities: sortedness and distinctness are exercised)
		for i, pb := range []byte{0x71, 0x13, 0xf2, 0x58} {
			logs = append(logs, fakechain.IdentityRegistered(syncx.RegistryAddr, c02Set, prefix32(pb), sender, c02T1-uint64(i)))
			m.Regs = append(m.Regs, c02reg{pb, c02Set, c02T1 - uint64(i), num})
		}
	case "regNever":
		// release times that do not fit into a signed 64-bit integer (2^64-1: "never")
		logs = append(logs, fakechain.IdentityRegistered(syncx.RegistryAddr, c02Set, prefix32(0x99), sender, math.MaxUint64),
			fakechain.IdentityRegistered(syncx.RegistryAddr, c02Set, prefix32(0x9a), sender, 1<<63))
		m.Regs = append(m.Regs, c02reg{0x99, c02Set, math.MaxUint64, num}, c02reg{0x9a, c02Set, 1 << 63, num})
	case "regOther":
		logs = append(logs, fakechain.IdentityRegistered(syncx.RegistryAddr, c02OtherSet, prefix32(0xc3), sender, c02T1))
		m.Regs = append(m.Regs, c02reg{0xc3, c02OtherSet, c02T1, num})
	case "trig":
		logs = append(logs, fakechain.EventTriggerRegistered(syncx.TriggerRegistryAddr, c02Set, prefix32(0xe5), sender, c02def(), num+3))
		m.Trigs = append(m.Trigs, c02trig{0xe5, c02Set, num + 3, num, c02def()})
	case "trigB":
		// a second trigger with the same definition (same log filter) that expires earlier
		logs = append(logs, fakechain.EventTriggerRegistered(syncx.TriggerRegistryAddr, c02Set, prefix32(0xe6), sender, c02def(), num+1))
		m.Trigs = append(m.Trigs, c02trig{0xe6, c02Set, num + 1, num, c02def()})
	case "hit":
		logs = append(logs, fakechain.LogSpec{Address: syncx.TargetAddr, Topics: []common.Hash{topicHit}, Data: c02data(big.NewInt(1), 32, c02payload)})
		m.HitLogs = append(m.HitLogs, num)
	case "miss":
		logs = append(logs, fakechain.LogSpec{Address: syncx.TargetAddr, Topics: []common.Hash{topicMiss}, Data: c02data(big.NewInt(1), 32, c02payload)})
	case "missAbove":
		// right topic, value just above the bound
		logs = append(logs, fakechain.LogSpec{Address: syncx.TargetAddr, Topics: []common.Hash{topicHit}, Data: c02data(big.NewInt(1001), 32, c02payload)})
	case "missHigh":
		// right topic, a value whose low 64 bits are within the bound but which is >= 2^64
		logs = append(logs, fakechain.LogSpec{Address: syncx.TargetAddr, Topics: []common.Hash{topicHit}, Data: c02data(new(big.Int).Add(new(big.Int).Lsh(big.NewInt(1), 64), big.NewInt(1)), 32, c02payload)})
	case "missTrunc":
		// right topic and first word; the dynamic value is declared 40 bytes long but the
		// data ends after 32 of them (equal to the payload): the value is those bytes
		// padded with zeros on the right, which is not the payload
		logs = append(logs, fakechain.LogSpec{Address: syncx.TargetAddr, Topics: []common.Hash{topicHit}, Data: c02data(big.NewInt(1), 40, c02payload)})
	case "missDyn":
		// right topic and first word, another dynamic value
		logs = append(logs, fakechain.LogSpec{Address: syncx.TargetAddr, Topics: []common.Hash{topicHit}, Data: c02data(big.NewInt(1), 32, bytes.Repeat([]byte{0x5b}, 32))})
	}
	for _, x := range s.m.Regs {
		for _, y := range m.Regs[len(s.m.Regs):] {
			if x.Prefix == y.Prefix {
				return nil, "" // the registry contract admits a (prefix, sender) once
			}
		}
	}
	for _, x := range s.m.Trigs {
		for _, y := range m.Trigs[len(s.m.Trigs):] {
			if x.Prefix == y.Prefix {
				return nil, ""
			}
		}
	}
	id := ch.AddBlockAt(s.head, "t", t, logs...)
	ch.SetHead(id)
	b := ch.Block(id)
	if o.Skip {
		ns.db, ns.chain, ns.head, ns.ltt = s.db, ch, id, s.ltt
		st.Class("block added that the keyper does not process (it lags)")
		return ns, ""
	}
	m.Observed = append(m.Observed, c02blk{num, t})
	decryptedBefore := map[string]bool{}
	for kk := range m.Decrypted {
		decryptedBefore[kk] = true
	}
	err := k.VerifProcessNewBlock(ctx, &syncevent.LatestBlock{Number: number.BigToBlockNumber(new(big.Int).SetUint64(b.Number)), BlockHash: b.Hash, Header: b.Header})
	if err != nil {
		st.Class("block processing returned an error")
	}
	ns.db, ns.chain, ns.head, ns.ltt = n.Pool.DB(), ch, id, k.VerifLatestTriggeredTime()
	// consume the triggers like KeyShareHandler does and watch what is published
	ntrig := 0
	for {
		select {
		case ev := <-n.Triggers:
			ntrig++
			ids := ev.Value.IdentityPreimages
			if why := h.checkList(ids); why != "" {
				return ns, why
			}
			for _, idp := range ids {
				if why := h.eligible(m, n.Pool.DB(), idp, decryptedBefore); why != "" {
					return ns, fmt.Sprintf("block %d (time %d): decryption triggered for identity %x: %s", num, t, []byte(idp)[:4], why)
				}
			}
			out, err := n.Trigger(ev.Value.BlockNumber, ids)
			if err != nil {
				st.Class("trigger not turned into shares: " + firstWords(err.Error()))
				continue
			}
			for _, om := range out {
				sh, ok := om.(*p2pmsg.DecryptionKeyShares)
				if !ok {
					continue
				}
				// (with the twin set - same activation block, the keyper is a member, key
				// generation succeeded - the handler may name either set: the trigger carries
				// the activation block only; whether each identity may be served is judged below)
				if sh.Eon != c02Set && !(m.Twin && sh.Eon == c02TwinSet) {
					return ns, fmt.Sprintf("key shares published for keyper set %d the keyper does not belong to", sh.Eon)
				}
				for _, share := range sh.Shares {
					if why := h.eligible(m, n.Pool.DB(), share.IdentityPreimage, decryptedBefore); why != "" {
						return ns, fmt.Sprintf("block %d (time %d): key share published for identity %x: %s", num, t, share.IdentityPreimage[:4], why)
					}
				}
				st.Class(fmt.Sprintf("shares published for %d identities", len(sh.Shares)))
			}
			ns.db = n.Pool.DB()
			continue
		default:
		}
		break
	}
	st.Class(fmt.Sprintf("block processed, %d triggers", ntrig))
	return ns, ""
}

func firstWords(s string) string {
	f := strings.Fields(s)
	if len(f) > 5 {
		f = f[:5]
	}
	return strings.Join(f, " ")
}

func (h *c02h) key(s *c02state) string {
	ltt := "nil"
	if s.ltt != nil {
		ltt = fmt.Sprint(*s.ltt)
	}
	b := s.chain.Block(s.head)
	var dec []string
	for k := range s.m.Decrypted {
		dec = append(dec, fmt.Sprintf("%x", k[:4]))
	}
	sort.Strings(dec)
	return s.db.Dump("identity_registered_event", "event_trigger_registered_event", "fired_triggers", "eons", "dkg_result", "decryption_key_share", "decryption_key", "identity_registered_events_synced_until", "multi_event_sync_status") +
		fmt.Sprintf("|%d|%d|%s|%v|%v|%s|%v", b.Number, b.Time, ltt, s.m.Observed, s.m.HitLogs, s.m.EonState, dec)
}

type c02Replay struct {
	Seed int     `json:"seed"`
	Ops  []c02op `json:"ops"`
}

func c02alphabet() []c02op {
	var ops []c02op
	for _, dt := range []int64{5, 0, -3} {
		for _, c := range []string{"none", "regA", "regB", "regE", "regMany", "regOther", "trig", "hit", "miss", "missAbove", "missHigh", "missTrunc", "missDyn"} {
			ops = append(ops, c02op{Kind: "block", Dt: dt, Content: c})
		}
	}
	ops = append(ops, c02op{Kind: "block", Dt: 5, Content: "trigB"}, c02op{Kind: "block", Dt: 5, Content: "regNever"})
	for _, c := range []string{"none", "hit", "trig", "trigB"} {
		ops = append(ops, c02op{Kind: "block", Dt: 5, Content: c, Skip: true})
	}
	for _, c := range []string{"start", "success", "fail"} {
		ops = append(ops, c02op{Kind: "eon", Dt: 0, Content: c})
	}
	for _, c := range []string{"A", "B", "X", "XY"} {
		ops = append(ops, c02op{Kind: "release", Dt: 0, Content: c})
	}
	return append(ops, c02op{Kind: "restart", Dt: 0, Content: ""})
}

func c02seeds() [][]c02op {
	return [][]c02op{
		{},
		{{Kind: "eon", Dt: 0, Content: "start"}, {Kind: "eon", Dt: 0, Content: "success"}, {Kind: "block", Dt: 5, Content: "regA"}, {Kind: "block", Dt: 5, Content: "regB"}},
		{{Kind: "eon", Dt: 0, Content: "start"}, {Kind: "eon", Dt: 0, Content: "success"}, {Kind: "block", Dt: 5, Content: "trig"}, {Kind: "block", Dt: 5, Content: "regA"}},
		{{Kind: "eon", Dt: 0, Content: "start"}, {Kind: "block", Dt: 5, Content: "regA"}, {Kind: "block", Dt: 5, Content: "trig"}, {Kind: "block", Dt: 5, Content: "hit"}},
		{{Kind: "eon", Dt: 0, Content: "start"}, {Kind: "eon", Dt: 0, Content: "fail"}, {Kind: "eon", Dt: 0, Content: "start"}, {Kind: "block", Dt: 5, Content: "regA"}, {Kind: "block", Dt: 5, Content: "regOther"}},
		{{Kind: "eon", Dt: 0, Content: "start"}, {Kind: "block", Dt: 5, Content: "regMany"}, {Kind: "block", Dt: 5, Content: "regA"}, {Kind: "block", Dt: 5, Content: "regE"}, {Kind: "block", Dt: 5, Content: "none"}},
		{{Kind: "eon", Dt: 0, Content: "start"}, {Kind: "eon", Dt: 0, Content: "success"}, {Kind: "block", Dt: 5, Content: "regMany"}, {Kind: "block", Dt: 5, Content: "regA"}},
		{{Kind: "eon", Content: "start"}, {Kind: "eon", Content: "success"}, {Kind: "block", Dt: 5, Content: "trig"}, {Kind: "block", Dt: 5, Content: "trigB"}},
		// a second keyper set with the same activation block whose key generation succeeded, while set 1's is running
		{{Kind: "eon", Content: "twin"}, {Kind: "eon", Content: "start"}, {Kind: "block", Dt: 5, Content: "regA"}, {Kind: "block", Dt: 5, Content: "trig"}},
	}
}

func c02() *report.Check {
	return &report.Check{
		Level: "model_checking",
		Rule:  "explicit-state BFS from five scripted seed states over {next block with timestamp delta in {+5, 0, -3} and content in {nothing, registration A (release time between blocks), registration B (release time equal to a block time), registration E (release time already past, matters below the activation block), registration for a set the keyper is not in, registrations with release times 2^63 and 2^64-1, event-trigger registration (topic, value bound and a dynamic value; near-miss logs incl. a dynamic value truncated by the end of the data) expiring three blocks later, a second registration with the same definition expiring one block later, blocks the keyper does not process (so that the next one syncs a range of several blocks), matching log, logs missing on the topic / just above the bound / above 2^64 with low bits inside the bound}, eon start / success / failure, key release for A / B / the trigger identity / both trigger identities in one keys message, restart}; every block processed by the real processNewBlock with the real syncers on a fake chain, every emitted trigger consumed by the real KeyShareHandler through the service middleware; monitor from the statement on every identity of every trigger and of every published shares message. Classes = kinds of step and numbers of triggers / shares",
		Assumptions: []string{
			"the identity of a registration is looked up in the keyper's own event tables (their correctness is C15/C16's subject)",
			"safety only: that an eligible identity is eventually triggered is not demanded",
			"PostgreSQL semantics as implemented by minipg; fake chain serves eth_getLogs / headers (harness/fakechain)",
		},
		Shards: func(bool) int { return 16 },
		Budget: minutes(3, 20),
		Run: func(c *report.Ctx) {
			h := &c02h{keys: kpx.NewEonSet(3, 2, "c02")}
			depth := 3
			if c.Thorough {
				depth = 5
			}
			alphabet := c02alphabet()
			const parts = 4
			unit := -1
			for si, seed := range c02seeds() {
				root := h.initial()
				bad := ""
				for _, o := range seed {
					ns, v := h.apply(root, o, &report.Stats{})
					if v != "" {
						bad = v
						break
					}
					if ns != nil {
						root = ns
					}
				}
				if bad != "" {
					if c.Shard == 0 {
						c.Violation("C02/early-or-ineligible-trigger", fmt.Sprintf("seed %d %v: %s", si, seed, bad), c02Replay{si, nil})
					}
					continue
				}
				root.ops = nil
				for part := 0; part < parts; part++ {
					unit++
					if unit%c.NShards != c.Shard {
						continue
					}
					si, part := si, part
					var b *explore.BFS[*c02state]
					b = &explore.BFS[*c02state]{
						MaxDepth: depth, Deadline: c.Deadline, Key: h.key,
						Expand: func(s *c02state, d int, _ []string, emit func(string, *c02state)) {
							for oi, o := range alphabet {
								if d == 0 && oi%parts != part {
									continue
								}
								ns, v := h.apply(s, o, c.Stats)
								if ns == nil && v == "" {
									continue // op not enabled in this state
								}
								c.Stats.Traces++
								c.Stats.Evaluations++
								if v != "" {
									sig := "C02/early-or-ineligible-trigger"
									if strings.HasPrefix(v, "panic") {
										sig = "C02/panic"
									} else if strings.Contains(v, "sorted") || strings.Contains(v, "distinct") {
										sig = "C02/trigger-identities-not-sorted-or-distinct"
									}
									c.Violation(sig, fmt.Sprintf("seed %d, after %v then %s: %s", si, s.ops, o, v), c02Replay{si, ns.ops})
									b.Stop = true
									return
								}
								emit(o.String(), ns)
							}
						},
					}
					b.Run([]*c02state{root})
					c.Stats.States += int64(b.States)
					c.Stats.Transitions += int64(b.Transitions)
					if b.Capped != "" {
						c.Stats.Cap(fmt.Sprintf("seed %d part %d: %s at depth %d", si, part, b.Capped, b.DepthDone))
					}
					if unit == 0 {
						c.Stats.Sample(map[string]any{"seed": fmt.Sprint(c02seeds()[1]), "alphabet": fmt.Sprint(alphabet), "depth": depth})
					}
				}
			}
		},
		Replay: func(c *report.Ctx, raw json.RawMessage) string {
			var rp c02Replay
			if err := json.Unmarshal(raw, &rp); err != nil {
				return err.Error()
			}
			h := &c02h{keys: kpx.NewEonSet(3, 2, "c02")}
			s := h.initial()
			for _, o := range append(append([]c02op{}, c02seeds()[rp.Seed]...), rp.Ops...) {
				ns, v := h.apply(s, o, c.Stats)
				if v != "" {
					return v
				}
				if ns != nil {
					s = ns
				}
			}
			return ""
		},
	}
}

var _ = crypto.Keccak256
