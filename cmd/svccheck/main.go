// Command svccheck holds C02 (shutter-service keyper never triggers early).
package main

import (
	"time"

	"verif/report"
)

func main() {
	report.Main(map[string]*report.Check{
		"C02": c02(),
	})
}

func minutes(quick, thorough float64) func(bool) time.Duration {
	return func(t bool) time.Duration {
		if t {
			return time.Duration(thorough * float64(time.Minute))
		}
		return time.Duration(quick * float64(time.Minute))
	}
}
