package main

import (
	"fmt"

	"github.com/shutter-network/rolling-shutter/rolling-shutter/app"
)

func main() {
	a := app.NewShutterApp()
	fmt.Println(a != nil)
}
