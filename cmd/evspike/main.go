package main

import (
	"fmt"

	"github.com/shutter-network/rolling-shutter/rolling-shutter/keyper/shutterevents"

	"verif/harness/evx"
)

func main() {
	s := evx.NewSim()
	fmt.Println("base:", s.BaseOutcome.Class())
	o := s.Hand(evx.Dealing, shutterevents.BatchConfigStarted{KeyperConfigIndex: 1}.MakeABCIEvent(), false, false)
	fmt.Println(o.Class())
	fmt.Println(s.DumpDB("dkg_result", "tendermint_outgoing_messages"))
}
