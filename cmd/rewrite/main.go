// Command rewrite generates `go build -overlay` files from the CURRENT sources
// of /repo/rolling-shutter (nothing is written into /repo):
//
//	-maporder pkg,pkg   every `range` over a map becomes a loop over
//	                    maporder.Keys(m) (explorer-owned iteration order), in these
//	                    packages and in every package of the module they import
//	-vos file,file      the file's "os" import is pointed at verif/shim/vos
//	-yield pkg,pkg      a call of sched.Yield() is inserted before every statement
//	                    of the package (scheduling points of the cooperative
//	                    scheduler) and its "sync" import is pointed at
//	                    verif/shim/vsync
//	-out dir            where the generated files and overlay.json go
//
// Map-typed operands are identified with go/types, so range statements added
// by a later edit of the repository are picked up as well.
package main

import (
	"bytes"
	"encoding/json"
	"flag"
	"fmt"
	"go/ast"
	"go/format"
	"go/parser"
	"go/token"
	"go/types"
	"os"
	"path/filepath"
	"sort"
	"strconv"
	"strings"

	"golang.org/x/tools/go/ast/astutil"
	"golang.org/x/tools/go/packages"
)

const repoMod = "github.com/shutter-network/rolling-shutter/rolling-shutter"

func main() {
	mo := flag.String("maporder", "", "comma separated package paths relative to the module")
	vosFiles := flag.String("vos", "", "comma separated files relative to the module")
	yi := flag.String("yield", "", "comma separated package paths relative to the module")
	moDeps := flag.Bool("maporder-deps", true, "also rewrite the map ranges of every package of the module that the -maporder packages import (directly or not)")
	out := flag.String("out", "/verif/.gen/overlay", "output directory")
	repo := flag.String("repo", "/repo/rolling-shutter", "module root")
	flag.Parse()
	if err := os.MkdirAll(*out, 0o755); err != nil {
		die(err)
	}
	overlay := map[string]string{}
	vosSet := map[string]bool{}
	for _, f := range split(*vosFiles) {
		vosSet[filepath.Join(*repo, f)] = true
	}
	var pats []string
	moSet, yieldSet := map[string]bool{}, map[string]bool{}
	for _, p := range split(*mo) {
		pats = append(pats, repoMod+"/"+p)
		moSet[repoMod+"/"+p] = true
	}
	for _, p := range split(*yi) {
		if !moSet[repoMod+"/"+p] {
			pats = append(pats, repoMod+"/"+p)
		}
		yieldSet[repoMod+"/"+p] = true
	}
	yields := 0
	counter := 0
	if len(pats) > 0 {
		cfg := &packages.Config{
			Mode: packages.NeedName | packages.NeedFiles | packages.NeedSyntax | packages.NeedTypes | packages.NeedTypesInfo | packages.NeedImports | packages.NeedDeps,
			Dir:  *repo,
			Env:  append(os.Environ(), "GOFLAGS=-mod=mod"),
		}
		pkgs, err := packages.Load(cfg, pats...)
		if err != nil {
			die(err)
		}
		if *moDeps {
			// the -maporder packages and everything of this module below them
			seen := map[string]bool{}
			var all []*packages.Package
			var walk func(p *packages.Package)
			walk = func(p *packages.Package) {
				if seen[p.PkgPath] || !strings.HasPrefix(p.PkgPath, repoMod) {
					return
				}
				seen[p.PkgPath] = true
				all = append(all, p)
				for _, q := range p.Imports {
					walk(q)
				}
			}
			for _, p := range pkgs {
				if moSet[p.PkgPath] {
					walk(p)
				}
			}
			for _, p := range all {
				moSet[p.PkgPath] = true
			}
			for _, p := range pkgs {
				if !seen[p.PkgPath] {
					all = append(all, p)
				}
			}
			pkgs = all
		}
		for _, pkg := range pkgs {
			if len(pkg.Errors) > 0 {
				die(fmt.Errorf("package %s: %v", pkg.PkgPath, pkg.Errors))
			}
			for i, file := range pkg.Syntax {
				_ = i; path := pkg.Fset.File(file.Pos()).Name()
				n := 0
				if moSet[pkg.PkgPath] {
					n = rewriteRanges(pkg.Fset, file, pkg.TypesInfo, &counter)
				}
				doYield := yieldSet[pkg.PkgPath] && !strings.HasSuffix(path, "verif_hooks.go")
				if vosSet[path] {
					rewriteOS(pkg.Fset, file)
					delete(vosSet, path)
					n++
				}
				if n == 0 && !doYield {
					continue
				}
				dst := write(pkg.Fset, file, path, *out, *repo, overlay)
				if doYield {
					src, err := os.ReadFile(dst)
					if err != nil {
						die(err)
					}
					instrumented, k := insertYields(path, src)
					yields += k
					if err := os.WriteFile(dst, instrumented, 0o644); err != nil {
						die(err)
					}
				}
			}
		}
	}
	if len(vosSet) > 0 {
		die(fmt.Errorf("vos files not part of the rewritten packages: %v", vosSet))
	}
	b, _ := json.MarshalIndent(map[string]any{"Replace": overlay}, "", " ")
	if err := os.WriteFile(filepath.Join(*out, "overlay.json"), b, 0o644); err != nil {
		die(err)
	}
	fmt.Printf("rewrite: %d map ranges rewritten, %d yield points inserted, %d files in overlay\n", counter, yields, len(overlay))
}

func split(s string) []string {
	var out []string
	for _, x := range strings.Split(s, ",") {
		if x = strings.TrimSpace(x); x != "" {
			out = append(out, x)
		}
	}
	return out
}

func die(err error) {
	fmt.Fprintln(os.Stderr, "rewrite:", err)
	os.Exit(2)
}

func write(fset *token.FileSet, file *ast.File, path, out, repo string, overlay map[string]string) string {
	var buf bytes.Buffer
	if err := format.Node(&buf, fset, file); err != nil {
		die(fmt.Errorf("%s: %v", path, err))
	}
	rel, _ := filepath.Rel(repo, path)
	dst := filepath.Join(out, strings.ReplaceAll(rel, "/", "__"))
	if err := os.WriteFile(dst, buf.Bytes(), 0o644); err != nil {
		die(err)
	}
	overlay[path] = dst
	return dst
}

func rewriteOS(fset *token.FileSet, file *ast.File) {
	for _, imp := range file.Imports {
		if imp.Path.Value == `"os"` {
			imp.Path.Value = `"verif/shim/vos"`
			imp.Name = ast.NewIdent("os")
			return
		}
	}
	die(fmt.Errorf("%s: no os import", fset.File(file.Pos()).Name()))
}

func isBlank(e ast.Expr) bool {
	id, ok := e.(*ast.Ident)
	return e == nil || (ok && id.Name == "_")
}

func hasCall(e ast.Expr) bool {
	found := false
	ast.Inspect(e, func(n ast.Node) bool {
		if _, ok := n.(*ast.CallExpr); ok {
			found = true
		}
		return !found
	})
	return found
}

func rewriteRanges(fset *token.FileSet, file *ast.File, info *types.Info, counter *int) int {
	n := 0
	astutil.Apply(file, nil, func(c *astutil.Cursor) bool {
		rs, ok := c.Node().(*ast.RangeStmt)
		if !ok {
			return true
		}
		tv, ok := info.Types[rs.X]
		if !ok {
			return true
		}
		if _, isMap := tv.Type.Underlying().(*types.Map); !isMap {
			return true
		}
		*counter++
		n++
		id := strconv.Itoa(*counter)
		kName := "vk__" + id
		vName := "vv__" + id
		okName := "vok__" + id
		mExpr := rs.X
		var hoist ast.Stmt
		if hasCall(rs.X) {
			if _, labeled := c.Parent().(*ast.LabeledStmt); labeled {
				die(fmt.Errorf("%s: labeled range over a call expression is not supported by the map-order seam", fset.Position(rs.Pos())))
			}
			mName := "vm__" + id
			hoist = &ast.AssignStmt{Lhs: []ast.Expr{ast.NewIdent(mName)}, Tok: token.DEFINE, Rhs: []ast.Expr{rs.X}}
			mExpr = ast.NewIdent(mName)
		}
		var pre []ast.Stmt
		needVal := !isBlank(rs.Value)
		idx := &ast.IndexExpr{X: &ast.ParenExpr{X: mExpr}, Index: ast.NewIdent(kName)}
		if needVal {
			pre = append(pre, &ast.AssignStmt{
				Lhs: []ast.Expr{ast.NewIdent(vName), ast.NewIdent(okName)}, Tok: token.DEFINE, Rhs: []ast.Expr{idx},
			})
		} else {
			pre = append(pre, &ast.AssignStmt{
				Lhs: []ast.Expr{ast.NewIdent("_"), ast.NewIdent(okName)}, Tok: token.DEFINE, Rhs: []ast.Expr{idx},
			})
		}
		pre = append(pre, &ast.IfStmt{
			Cond: &ast.UnaryExpr{Op: token.NOT, X: ast.NewIdent(okName)},
			Body: &ast.BlockStmt{List: []ast.Stmt{&ast.BranchStmt{Tok: token.CONTINUE}}},
		})
		var lhs, rhs []ast.Expr
		if !isBlank(rs.Key) {
			lhs = append(lhs, rs.Key)
			rhs = append(rhs, ast.NewIdent(kName))
		}
		if needVal {
			lhs = append(lhs, rs.Value)
			rhs = append(rhs, ast.NewIdent(vName))
		}
		if len(lhs) > 0 {
			tok := rs.Tok
			if tok == token.ILLEGAL {
				tok = token.DEFINE
			}
			pre = append(pre, &ast.AssignStmt{Lhs: lhs, Tok: tok, Rhs: rhs})
		}
		// the original body keeps its own block: it may declare a variable with the
		// name of the range variable again (`room := room`)
		body := &ast.BlockStmt{List: append(pre, rs.Body)}
		loop := &ast.RangeStmt{
			Key:   ast.NewIdent("_"),
			Value: ast.NewIdent(kName),
			Tok:   token.DEFINE,
			X: &ast.CallExpr{
				Fun:  &ast.SelectorExpr{X: ast.NewIdent("maporder__"), Sel: ast.NewIdent("Keys")},
				Args: []ast.Expr{mExpr},
			},
			Body: body,
		}
		if hoist != nil {
			c.Replace(&ast.BlockStmt{List: []ast.Stmt{hoist, loop}})
		} else {
			c.Replace(loop)
		}
		return true
	})
	if n > 0 {
		astutil.AddNamedImport(fset, file, "maporder__", "verif/maporder")
	}
	return n
}

// insertYields puts a call of sched__.Yield() before every statement of every
// statement list of the source (function bodies, blocks, case and select
// clauses) and points a "sync" import at the scheduler-aware shim. It works on
// the source text (insertions at statement offsets), so comments and compiler
// directives stay where they are.
func insertYields(path string, src []byte) ([]byte, int) {
	fset := token.NewFileSet()
	file, err := parser.ParseFile(fset, path, src, parser.ParseComments)
	if err != nil {
		die(err)
	}
	type edit struct {
		at, end int // replace src[at:end]
		text    string
	}
	var edits []edit
	n := 0
	mark := func(list []ast.Stmt) {
		for _, st := range list {
			switch st.(type) {
			case *ast.CaseClause, *ast.CommClause:
				continue // the body of a switch / select is a list of clauses
			}
			off := fset.Position(st.Pos()).Offset
			edits = append(edits, edit{off, off, "sched__.Yield(); "})
			n++
		}
	}
	ast.Inspect(file, func(node ast.Node) bool {
		switch x := node.(type) {
		case *ast.BlockStmt:
			mark(x.List)
		case *ast.CaseClause:
			mark(x.Body)
		case *ast.CommClause:
			mark(x.Body)
		}
		return true
	})
	for _, imp := range file.Imports {
		if imp.Path.Value == `"sync"` {
			a, b := fset.Position(imp.Pos()).Offset, fset.Position(imp.End()).Offset
			edits = append(edits, edit{a, b, `sync "verif/shim/vsync"`})
			n++
		}
	}
	if n == 0 {
		return src, 0
	}
	// the import of the scheduler goes right after the package clause
	pkgEnd := fset.Position(file.Name.End()).Offset
	edits = append(edits, edit{pkgEnd, pkgEnd, "\n\nimport sched__ \"verif/sched\"\n"})
	sort.SliceStable(edits, func(i, j int) bool { return edits[i].at > edits[j].at })
	out := append([]byte{}, src...)
	for _, e := range edits {
		out = append(out[:e.at], append([]byte(e.text), out[e.end:]...)...)
	}
	if _, err := parser.ParseFile(token.NewFileSet(), path, out, 0); err != nil {
		die(fmt.Errorf("%s: instrumented source does not parse: %v", path, err))
	}
	return out, n
}
