package main

import (
	"context"
	"encoding/json"
	"errors"
	"fmt"

	"github.com/jackc/pgx/v4/minipg"
	"github.com/jackc/pgx/v4/pgxpool"

	"github.com/shutter-network/rolling-shutter/rolling-shutter/keyper"
	kprdb "github.com/shutter-network/rolling-shutter/rolling-shutter/keyper/database"
	"github.com/shutter-network/rolling-shutter/rolling-shutter/keyper/kprconfig"
	"github.com/shutter-network/rolling-shutter/rolling-shutter/medley/configuration"
	"github.com/shutter-network/rolling-shutter/rolling-shutter/medley/encodeable/keys"
	"github.com/shutter-network/rolling-shutter/rolling-shutter/p2pmsg"

	"verif/harness/kpx"
	"verif/report"
)

// C20 — every generated eon key is handed to publication, even several per interval.
//
// The real eonPubKeyHandler.queryAndHandleNewEonPubKeys (one polling tick,
// through the verif hook) over a minipg keyper database. Enumerated: every
// ordered selection of pending eon keys per tick out of four eons of two keyper
// sets, over 1..3 ticks, both publication modes, and the mechanism rejecting the
// j-th hand-over for every j.

type c20eon struct {
	Eon, Cfg, Act int64
	Key           []byte
}

var c20eons = []c20eon{
	{Eon: 1, Cfg: 1, Act: 100, Key: []byte("eon-public-key-1")},
	{Eon: 2, Cfg: 1, Act: 100, Key: []byte("eon-public-key-2-restart")},
	{Eon: 3, Cfg: 2, Act: 250, Key: []byte("eon-public-key-3")},
	{Eon: 4, Cfg: 3, Act: 250, Key: []byte{}},
}

type c20Case struct {
	Ticks     [][]int `json:"ticks"` // per tick: ordered indices into the eon table
	Broadcast bool    `json:"broadcast"`
	RejectAt  int     `json:"reject_at"` // index of the hand-over the mechanism rejects, -1 = none
	// Arrive: one more key generation completes WHILE a tick runs: its key is recorded
	// right before the At-th event of tick Tick (events = the handler's database round
	// trips and its hand-overs, in the order they happen; At = number of events means
	// after the last). One further tick without new keys follows the last one.
	Arrive *c20Arrive `json:"arrives_during_a_tick,omitempty"`
}

type c20Arrive struct {
	Tick int `json:"tick"`
	At   int `json:"before_event"`
	Eon  int `json:"eon_index"`
}

type handed struct {
	Eon, Cfg, Act uint64
	Key           string
}

func c20DB() *pgxpool.Pool {
	pool := kpx.NewPool(kprdb.Definition)
	ctx := context.Background()
	q := kprdb.New(pool)
	me := kpx.Addr(0)
	for cfg := int64(1); cfg <= 3; cfg++ {
		members := kpx.Addrs(1, 0, 2)
		if cfg == 2 {
			members = kpx.Addrs(0, 3)
		}
		kpx.InstallEon(pool, cfg, members, 2, 100+150*((cfg)/2), 0, kpx.ConfigOnly, nil)
	}
	_ = me
	for _, e := range c20eons {
		kpx.Must(q.InsertEon(ctx, kprdb.InsertEonParams{Eon: e.Eon, Height: e.Eon * 10, ActivationBlockNumber: e.Act, KeyperConfigIndex: e.Cfg}))
	}
	return pool
}

func c20Config() *kprconfig.Config {
	pk := &keys.ECDSAPrivate{Key: kpx.Key(0)}
	return &kprconfig.Config{InstanceID: 42, Ethereum: &configuration.EthnodeConfig{PrivateKey: pk}, MaxNumKeysPerMessage: 16}
}

var c20tmpl *pgxpool.Pool

func c20Run(cs c20Case) (class string, violation string) {
	class, violation, _ = c20RunCount(cs)
	return
}

// c20RunCount also returns the number of events (round trips + hand-overs) per tick.
func c20RunCount(cs c20Case) (class string, violation string, events []int) {
	if c20tmpl == nil {
		c20tmpl = c20DB()
	}
	pool := pgxpool.NewWithDB("c20", c20tmpl.DB().Clone())
	ctx := context.Background()
	q := kprdb.New(pool)
	var got []handed
	calls := 0
	// events of the running tick; the key that arrives during a tick is recorded by a
	// second session right before the chosen event
	curTick, evt, inserting := -1, 0, false
	arrive := func() {
		if a := cs.Arrive; a != nil && !inserting && a.Tick == curTick && a.At == evt {
			inserting = true
			e := c20eons[a.Eon]
			kpx.Must(kprdb.New(pool).InsertEonPublicKey(ctx, kprdb.InsertEonPublicKeyParams{EonPublicKey: e.Key, Eon: e.Eon}))
			inserting = false
		}
	}
	event := func() {
		if inserting || curTick < 0 {
			return
		}
		arrive()
		evt++
	}
	pool.DB().SetHooks(&minipg.Hooks{Before: func(minipg.RoundTrip) error { event(); return nil }})
	reject := func() error {
		event()
		calls++
		if cs.RejectAt >= 0 && calls-1 == cs.RejectAt {
			return errors.New("publication mechanism refuses")
		}
		return nil
	}
	capt := kpx.NewCapture()
	capt.FailSend = func(m p2pmsg.Message) error { return reject() }
	cb := func(cctx context.Context, k keyper.EonPublicKey) error {
		// the flavours' callbacks wait on the context they are given (select on
		// ctx.Done(), transactions sent with ctx): a dead context is a failed hand-over
		if err := cctx.Err(); err != nil {
			return err
		}
		if err := reject(); err != nil {
			return err
		}
		got = append(got, handed{k.Eon, k.KeyperConfigIndex, k.ActivationBlock, string(k.PublicKey)})
		return nil
	}
	h := keyper.VerifNewEonPubKeyHandler(pool, c20Config(), capt, cb, cs.Broadcast)
	attempt := 0
	rejected := map[int]bool{} // eon index whose hand-over was refused
	ticks := cs.Ticks
	if cs.Arrive != nil {
		ticks = append(append([][]int{}, ticks...), nil) // a trailing tick picks up what arrived during the last one
	}
	for ti, tick := range ticks {
		for _, ei := range tick {
			e := c20eons[ei]
			kpx.Must(q.InsertEonPublicKey(ctx, kprdb.InsertEonPublicKeyParams{EonPublicKey: e.Key, Eon: e.Eon}))
		}
		curTick, evt = ti, 0
		_ = h.Tick(ctx) // an error is what the polling loop logs; the oracle looks at hand-overs
		arrive()        // At == number of events: right after the tick's last event
		events = append(events, evt)
		curTick = -1
		_ = attempt
	}
	if cs.Broadcast {
		for _, m := range capt.Drain() {
			pk, ok := m.(*p2pmsg.EonPublicKey)
			if !ok {
				return "", fmt.Sprintf("broadcast sent a %T", m), events
			}
			if pk.InstanceId != 42 {
				return "", fmt.Sprintf("broadcast key with instance id %d", pk.InstanceId), events
			}
			okSig, err := p2pmsg.VerifySignature(pk, kpx.Addr(0))
			if err != nil || !okSig {
				return "", fmt.Sprintf("broadcast key for eon %d is not signed by the keyper (%v)", pk.Eon, err), events
			}
			got = append(got, handed{pk.Eon, pk.KeyperConfigIndex, pk.ActivationBlock, string(pk.PublicKey)})
		}
	}
	// Which hand-over was refused is identified by call order = order of
	// insertion within ticks (the handler processes pending keys in that order;
	// if it did not, the refused key is whichever it was, so the oracle only
	// counts: at most one pending key may be missing, and only if a refusal happened).
	want := map[handed]int{}
	total := 0
	for _, tick := range cs.Ticks {
		for _, ei := range tick {
			e := c20eons[ei]
			want[handed{uint64(e.Eon), uint64(e.Cfg), uint64(e.Act), string(e.Key)}]++
			total++
		}
	}
	if a := cs.Arrive; a != nil {
		e := c20eons[a.Eon]
		want[handed{uint64(e.Eon), uint64(e.Cfg), uint64(e.Act), string(e.Key)}]++
		total++
	}
	seen := map[handed]int{}
	for _, g := range got {
		seen[g]++
		if want[g] == 0 {
			return "", fmt.Sprintf("handed over a key that was never recorded: eon=%d set=%d activation=%d key=%q", g.Eon, g.Cfg, g.Act, g.Key), events
		}
		if seen[g] > 1 {
			return "", fmt.Sprintf("key of eon %d handed over twice", g.Eon), events
		}
	}
	missing := 0
	var miss []uint64
	for w := range want {
		if seen[w] == 0 {
			missing++
			miss = append(miss, w.Eon)
		}
	}
	allowed := 0
	if cs.RejectAt >= 0 && cs.RejectAt < total {
		allowed = 1
	}
	_ = rejected
	if missing > allowed {
		return "", fmt.Sprintf("%d of %d recorded eon keys were never handed to the publication mechanism (eons %v); refusals by the mechanism: %d", missing, total, miss, allowed), events
	}
	// Keys still pending after the last tick are not judged: the statement does not
	// say what happens to a key the mechanism refused (dropping it and keeping it
	// for a retry are both admissible); a key that was never offered is already
	// counted as missing above.
	during := ""
	if cs.Arrive != nil {
		during = " one-key-arrives-during-a-tick"
	}
	return fmt.Sprintf("ticks=%d keys=%d handed=%d refused=%d broadcast=%v%s", len(cs.Ticks), total, len(got), allowed, cs.Broadcast, during), "", events
}

// orderedSelections enumerates every ordered selection (no repetition) from avail.
func orderedSelections(avail []int, maxLen int, fn func(sel []int, rest []int)) {
	var rec func(sel []int, rest []int)
	rec = func(sel []int, rest []int) {
		fn(append([]int{}, sel...), append([]int{}, rest...))
		if len(sel) == maxLen {
			return
		}
		for i, x := range rest {
			nr := append(append([]int{}, rest[:i]...), rest[i+1:]...)
			rec(append(sel, x), nr)
		}
	}
	rec(nil, avail)
}

func c20() *report.Check {
	return &report.Check{
		Level: "model_checking",
		Rule:  "one polling tick of the real eonPubKeyHandler per transition over a minipg keyper database; every ordered selection of pending keys (0..4 out of four eons of three keyper sets) per tick over 1..3 ticks x {broadcast, callback} x {mechanism accepts everything, refuses the j-th hand-over for every j}; additionally one more key recorded by a second session at every event boundary (database round trip or hand-over) inside a tick; oracle: every recorded key is handed over exactly once with its activation block, set index and eon unless it is the one refused; nothing unknown or duplicated. Classes = (ticks, keys, handed, refused, mode)",
		Assumptions: []string{
			"PostgreSQL semantics as implemented by minipg (47 of the repository's own database tests pass on it); single session",
			"only eons of keyper sets the keyper belongs to are pending (the statement's precondition)",
			"the publication mechanism honours the context it is called with (a cancelled or expired context makes the hand-over fail), as the flavours' callbacks and the p2p publish path do",
		},
		Shards: func(bool) int { return 8 },
		Budget: minutes(2, 10),
		Run: func(c *report.Ctx) {
			maxTicks := 2
			if c.Thorough {
				maxTicks = 3
			}
			all := []int{0, 1, 2, 3}
			idx := 0
			var run func(ticks [][]int, rest []int)
			run = func(ticks [][]int, rest []int) {
				if len(ticks) > 0 {
					total := 0
					for _, t := range ticks {
						total += len(t)
					}
					for _, bc := range []bool{true, false} {
						for rej := -1; rej < total; rej++ {
							idx++
							if idx%c.NShards != c.Shard {
								continue
							}
							cs := c20Case{Ticks: ticks, Broadcast: bc, RejectAt: rej}
							c.Stats.Evaluations++
							c.Stats.States++
							c.Stats.Transitions += int64(len(ticks))
							c.Stats.Traces++
							cls, v := c20Run(cs)
							if v != "" {
								sig := "C20/eon-key-not-handed-over"
								if rej >= 0 {
									sig = "C20/eon-key-not-handed-over-after-another-was-refused"
								}
								c.Violation(sig, fmt.Sprintf("ticks=%v broadcast=%v reject_at=%d: %s", ticks, bc, rej, v), cs)
								return
							}
							c.Stats.Class(cls)
							if idx == 40 {
								c.Stats.Sample(cs)
							}
							if rej >= 0 {
								continue
							}
							// one more key generation completes while one of the ticks runs: every
							// not yet used eon x every tick x every event boundary of that tick
							_, _, events := c20RunCount(cs)
							for _, ei := range rest {
								for ti := range ticks {
									for at := 0; at <= events[ti]; at++ {
										as := cs
										as.Arrive = &c20Arrive{Tick: ti, At: at, Eon: ei}
										c.Stats.Evaluations++
										c.Stats.Traces++
										c.Stats.Count("runs_with_a_key_arriving_during_a_tick", 1)
										cls, v := c20Run(as)
										if v != "" {
											c.Violation("C20/eon-key-recorded-during-a-tick-not-handed-over", fmt.Sprintf("ticks=%v broadcast=%v; key of eon %d recorded during tick %d right before its event %d of %d: %s", ticks, bc, c20eons[ei].Eon, ti, at, events[ti], v), as)
											return
										}
										c.Stats.Class(cls)
									}
								}
							}
						}
					}
				}
				if len(ticks) == maxTicks || c.Violations() > 0 {
					return
				}
				orderedSelections(rest, 4, func(sel, r []int) {
					nt := append(append([][]int{}, ticks...), sel)
					run(nt, r)
				})
			}
			run(nil, all)
		},
		Replay: func(c *report.Ctx, raw json.RawMessage) string {
			var cs c20Case
			if err := json.Unmarshal(raw, &cs); err != nil {
				return err.Error()
			}
			_, v := c20Run(cs)
			return v
		},
	}
}
