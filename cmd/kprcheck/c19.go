package main

import (
	"bytes"
	"context"
	"database/sql"
	"encoding/json"
	"fmt"
	"math/big"
	"sort"

	"github.com/ethereum/go-ethereum/common"
	"github.com/jackc/pgx/v4/minipg"
	"github.com/jackc/pgx/v4/pgxpool"

	obskeyper "github.com/shutter-network/rolling-shutter/rolling-shutter/chainobserver/db/keyper"
	kprdb "github.com/shutter-network/rolling-shutter/rolling-shutter/keyper/database"
	gnosisdb "github.com/shutter-network/rolling-shutter/rolling-shutter/keyperimpl/gnosis/database"
	"github.com/shutter-network/rolling-shutter/rolling-shutter/keyperimpl/gnosis/gnosisssztypes"
	"github.com/shutter-network/rolling-shutter/rolling-shutter/medley/identitypreimage"
	"github.com/shutter-network/rolling-shutter/rolling-shutter/p2pmsg"
	"github.com/shutter-network/rolling-shutter/rolling-shutter/shdb"

	"verif/explore"
	"verif/harness/kpx"
	"verif/report"
)

// C19 — Gnosis keypers agree on each slot's identities and on the transaction pointer.
//
// (a) state enumeration: every queue / pointer / age / slot combination in the
//     bound is written into a minipg database and the real triggerDecryption is
//     run by two different keypers of the set; the trigger must equal a
//     reference selection written from the statement and be byte-identical for
//     both keypers.
// (b) histories: BFS over {slot trigger, peer key shares, received keys message,
//     new queued transaction, restart} on one real Gnosis node (flavour handlers,
//     middleware, core handlers, KeyShareHandler) in lock-step with a reference
//     model of the pointer.

const (
	c19Set    = 1 // below n: aliases with a keyper index
	c19Limit  = 1_000_000
	c19MaxAge = 2
)

var c19members = []int{20, 21, 22}

func c19spec(keys *kpx.EonSet) kpx.NodeSpec {
	return kpx.NodeSpec{Flavour: "gnosis", CfgIndex: c19Set, Members: c19members, Threshold: 2, Activation: 0, Eon: 5, Keys: keys, MaxKeys: 64, State: kpx.Success}
}

type c19tx struct {
	Gas int64 `json:"gas"`
}

// alias: every fourth queued transaction (index 3, 7, ..) carries the identity
// prefix and sender of the one two places before it - the sequencer contract admits
// the same (prefix, sender) more than once, and each occurrence is a selected entry.
func alias(i int) int {
	if i%4 == 3 {
		return i - 2
	}
	return i
}

func txPrefix(i int) []byte {
	i = alias(i)
	p := make([]byte, 32)
	// neither ascending nor descending in queue order (every window of three
	// consecutive transactions is non-monotone), never all zero
	p[0] = [...]byte{0x90, 0x30, 0xd0, 0x10, 0x70, 0xb0, 0x50, 0xf0}[i%8] + byte(i/8)
	p[31] = byte(i)
	return p
}

func txSender(i int) common.Address { i = alias(i); return kpx.Addr(100 + (i*5)%7) }

func txIdentity(i int) identitypreimage.IdentityPreimage {
	return append(append([]byte{}, txPrefix(i)...), txSender(i).Bytes()...)
}

func slotIdentity(slot uint64) identitypreimage.IdentityPreimage {
	b := make([]byte, 52)
	new(big.Int).SetUint64(slot).FillBytes(b[32:])
	return b
}

func insertQueue(pool *pgxpool.Pool, eon int64, from int, txs []c19tx) {
	q := gnosisdb.New(pool)
	for i, tx := range txs {
		idx := from + i
		_, err := q.InsertTransactionSubmittedEvent(context.Background(), gnosisdb.InsertTransactionSubmittedEventParams{
			Index: int64(idx), BlockNumber: int64(10 + idx), BlockHash: []byte{byte(idx)}, TxIndex: 0, LogIndex: 0, Eon: eon,
			IdentityPrefix: txPrefix(idx), Sender: shdb.EncodeAddress(txSender(idx)), GasLimit: tx.Gas,
		})
		kpx.Must(err)
	}
}

// refSelection is the statement's rule.
func refSelection(slot uint64, queue []c19tx, pointer int64) []identitypreimage.IdentityPreimage {
	var txs []identitypreimage.IdentityPreimage
	gas := int64(0)
	for i := pointer; i >= 0 && i < int64(len(queue)); i++ {
		gas += queue[i].Gas
		if gas > c19Limit && len(txs) >= 1 {
			break
		}
		txs = append(txs, txIdentity(int(i)))
	}
	sort.Slice(txs, func(i, j int) bool { return bytes.Compare(txs[i], txs[j]) < 0 })
	return append([]identitypreimage.IdentityPreimage{slotIdentity(slot)}, txs...)
}

type c19ptr struct {
	Row   bool  `json:"row"`
	Value int64 `json:"value"`
	Age   int64 `json:"age"` // -1 = NULL
}

// refPointer resolves the pointer the next request starts at.
func refPointer(p c19ptr, queueLen int) int64 {
	if !p.Row {
		return 0
	}
	if p.Age < 0 || p.Age > c19MaxAge {
		return int64(queueLen)
	}
	return p.Value
}

type c19StateCase struct {
	Queue   []c19tx `json:"queue"`
	Other   int     `json:"other_eon_queue_len"`
	Pointer c19ptr  `json:"pointer"`
	Slot    uint64  `json:"slot"`
}

func idsEqual(a, b []identitypreimage.IdentityPreimage) bool {
	if len(a) != len(b) {
		return false
	}
	for i := range a {
		if !bytes.Equal(a[i], b[i]) {
			return false
		}
	}
	return true
}

func fmtIDs(ids []identitypreimage.IdentityPreimage) string {
	s := ""
	for _, id := range ids {
		s += fmt.Sprintf("%x.. ", []byte(id)[:3])
		if bytes.Equal(id[:32], make([]byte, 32)) {
			s += fmt.Sprintf("(slot %d) ", new(big.Int).SetBytes(id[32:]).Uint64())
		}
	}
	return s
}

var c19keys *kpx.EonSet

func c19StateRun(cs c19StateCase) (class, violation string) {
	if c19keys == nil {
		c19keys = kpx.NewEonSet(3, 2, "c19")
	}
	var lists [][]identitypreimage.IdentityPreimage
	want := refSelection(cs.Slot, cs.Queue, refPointer(cs.Pointer, len(cs.Queue)))
	for _, p := range []int{20, 22} {
		n := kpx.NewNode(c19spec(c19keys), p)
		insertQueue(n.Pool, c19Set, 0, cs.Queue)
		other := make([]c19tx, cs.Other)
		for i := range other {
			other[i].Gas = 21000
		}
		insertQueue(n.Pool, c19Set+1, 0, other)
		q := gnosisdb.New(n.Pool)
		if cs.Pointer.Row {
			age := sql.NullInt64{Int64: cs.Pointer.Age, Valid: cs.Pointer.Age >= 0}
			kpx.Must(q.SetTxPointer(context.Background(), gnosisdb.SetTxPointerParams{Eon: c19Set, Age: age, Value: cs.Pointer.Value}))
		}
		ks, err := obskeyper.New(n.Pool).GetKeyperSetByKeyperConfigIndex(context.Background(), c19Set)
		kpx.Must(err)
		if err := n.Gnosis.VerifTriggerDecryption(context.Background(), cs.Slot, 5, &ks); err != nil {
			return "", fmt.Sprintf("triggerDecryption failed: %v", err)
		}
		select {
		case ev := <-n.Triggers:
			lists = append(lists, ev.Value.IdentityPreimages)
		default:
			return "", "no decryption trigger was sent"
		}
		trig, err := q.GetCurrentDecryptionTrigger(context.Background(), c19Set)
		if err != nil {
			return "", "no current_decryption_trigger row: " + err.Error()
		}
		if trig.Slot != int64(cs.Slot) || trig.TxPointer != refPointer(cs.Pointer, len(cs.Queue)) {
			return "", fmt.Sprintf("recorded trigger is (slot %d, pointer %d), expected (slot %d, pointer %d)", trig.Slot, trig.TxPointer, cs.Slot, refPointer(cs.Pointer, len(cs.Queue)))
		}
	}
	if !idsEqual(lists[0], lists[1]) {
		return "", fmt.Sprintf("two keypers with the same synced state request different identities:\n%s\n%s", fmtIDs(lists[0]), fmtIDs(lists[1]))
	}
	if !idsEqual(lists[0], want) {
		return "", fmt.Sprintf("requested identities %s, the statement's selection is %s", fmtIDs(lists[0]), fmtIDs(want))
	}
	cls := fmt.Sprintf("%d tx identities", len(want)-1)
	switch {
	case !cs.Pointer.Row:
		cls += ", pointer initialised"
	case cs.Pointer.Age < 0:
		cls += ", pointer age unknown -> queue length"
	case cs.Pointer.Age > c19MaxAge:
		cls += ", pointer outdated -> queue length"
	default:
		cls += ", pointer used"
	}
	return cls, ""
}

// ---------- (b) histories ----------

type c19op struct {
	Kind string `json:"kind"` // slot | peershares | recvkeys | newtx | restart
	A    int    `json:"a"`
	B    int    `json:"b"`
}

func (o c19op) String() string { return fmt.Sprintf("%s(%d,%d)", o.Kind, o.A, o.B) }

type c19model struct {
	Queue []c19tx
	Ptr   c19ptr
	Trig  *struct {
		Slot uint64
		Ptr  int64
	} // current trigger
	Shared bool // own shares for the current trigger were published
}

type c19h struct {
	keys *kpx.EonSet
}

func signGnosis(signer int, eon, slot, ptr uint64, ids []identitypreimage.IdentityPreimage) []byte {
	d, err := gnosisssztypes.NewSlotDecryptionSignatureData(kpx.InstanceID, eon, slot, ptr, ids)
	kpx.Must(err)
	s, err := d.ComputeSignature(kpx.Key(signer))
	kpx.Must(err)
	return s
}

// apply runs one op on node and model; returns violation.
func (h *c19h) apply(n *kpx.Node, m *c19model, o c19op, st *report.Stats) string {
	ctx := context.Background()
	q := gnosisdb.New(n.Pool)
	checkPtr := func(when string) string {
		row, err := q.GetTxPointer(ctx, c19Set)
		if !m.Ptr.Row {
			if err == nil {
				return fmt.Sprintf("%s: tx_pointer row exists (value %d) although the model has none", when, row.Value)
			}
			return ""
		}
		if err != nil {
			return fmt.Sprintf("%s: tx_pointer row missing: %v", when, err)
		}
		age := int64(-1)
		if row.Age.Valid {
			age = row.Age.Int64
		}
		if row.Value != m.Ptr.Value || age != m.Ptr.Age {
			return fmt.Sprintf("%s: tx_pointer is (value %d, age %d), expected (value %d, age %d)", when, row.Value, age, m.Ptr.Value, m.Ptr.Age)
		}
		return ""
	}
	switch o.Kind {
	case "newtx":
		gas := []int64{21000, c19Limit / 2, c19Limit + 1}[o.A]
		insertQueue(n.Pool, c19Set, len(m.Queue), []c19tx{{gas}})
		m.Queue = append(m.Queue, c19tx{gas})
		st.Class("history: transaction queued")
	case "restart":
		kpx.Must(q.ResetAllTxPointerAges(ctx))
		n.Rewire()
		if m.Ptr.Row {
			m.Ptr.Age = -1
		}
		st.Class("history: restart")
	case "slot":
		slot := uint64(100 + o.A)
		// what maybeTriggerDecryption does before triggerDecryption
		_, _ = q.IncrementTxPointerAge(ctx, c19Set)
		if m.Ptr.Row && m.Ptr.Age >= 0 {
			m.Ptr.Age++
		}
		ks, err := obskeyper.New(n.Pool).GetKeyperSetByKeyperConfigIndex(ctx, c19Set)
		kpx.Must(err)
		p := refPointer(m.Ptr, len(m.Queue))
		want := refSelection(slot, m.Queue, p)
		if err := n.Gnosis.VerifTriggerDecryption(ctx, slot, 5, &ks); err != nil {
			return "triggerDecryption: " + err.Error()
		}
		if !m.Ptr.Row {
			m.Ptr = c19ptr{Row: true, Value: 0, Age: 0}
		}
		var got []identitypreimage.IdentityPreimage
		select {
		case ev := <-n.Triggers:
			got = ev.Value.IdentityPreimages
		default:
			return "no trigger sent"
		}
		if !idsEqual(got, want) {
			return fmt.Sprintf("slot %d: requested identities %s, the statement's selection from pointer %d is %s", slot, fmtIDs(got), p, fmtIDs(want))
		}
		m.Trig = &struct {
			Slot uint64
			Ptr  int64
		}{slot, p}
		m.Shared = false
		// the keyper publishes its own shares for the trigger (KeyShareHandler)
		out, err := n.Trigger(5, got)
		if err == nil {
			m.Shared = true
			for _, msg := range out {
				sh, ok := msg.(*p2pmsg.DecryptionKeyShares)
				if !ok {
					continue
				}
				ex := sh.Extra.(*p2pmsg.DecryptionKeyShares_Gnosis).Gnosis
				if ex.Slot != slot || ex.TxPointer != uint64(p) {
					return fmt.Sprintf("own shares message carries (slot %d, pointer %d), trigger was (slot %d, pointer %d)", ex.Slot, ex.TxPointer, slot, p)
				}
			}
		}
		st.Class(fmt.Sprintf("history: slot trigger with %d tx identities", len(want)-1))
	case "peershares":
		if m.Trig == nil {
			return ""
		}
		peer := c19members[1+o.A]
		ids := refSelection(m.Trig.Slot, m.Queue, m.Trig.Ptr)
		msg := &p2pmsg.DecryptionKeyShares{InstanceId: kpx.InstanceID, Eon: c19Set, KeyperIndex: uint64(1 + o.A)}
		for _, id := range ids {
			msg.Shares = append(msg.Shares, &p2pmsg.KeyShare{IdentityPreimage: id, Share: h.keys.Share(1+o.A, id).Marshal()})
		}
		msg.Extra = &p2pmsg.DecryptionKeyShares_Gnosis{Gnosis: &p2pmsg.GnosisDecryptionKeySharesExtra{
			Slot: m.Trig.Slot, TxPointer: uint64(m.Trig.Ptr), Signature: signGnosis(peer, c19Set, m.Trig.Slot, uint64(m.Trig.Ptr), ids),
		}}
		cq := kprdb.New(n.Pool)
		_, errBefore := cq.GetDecryptionKey(ctx, kprdb.GetDecryptionKeyParams{Eon: c19Set, EpochID: ids[0]})
		hadKeys := errBefore == nil
		d, out := n.Receive(msg.Topic(), kpx.Envelope(msg))
		if d.Panic != "" {
			return "panic: " + d.Panic
		}
		if d.Verdict != 0 {
			return fmt.Sprintf("honest peer shares for the current trigger are not accepted (%s)", d.VerdictString())
		}
		_, errAfter := cq.GetDecryptionKey(ctx, kprdb.GetDecryptionKeyParams{Eon: c19Set, EpochID: ids[0]})
		derivedNow := !hadKeys && errAfter == nil
		// a keys message that the flavour's share handler re-emits for keys it already
		// knows is not "processed" by this node (only peers process it): the pointer
		// moves only in the step in which this node derives the keys itself.
		emitted := false
		for _, om := range out {
			if k, ok := om.(*p2pmsg.DecryptionKeys); ok {
				emitted = true
				if !derivedNow {
					continue
				}
				ex, ok := k.Extra.(*p2pmsg.DecryptionKeys_Gnosis)
				if !ok {
					return "self-produced keys message without Gnosis extra was published"
				}
				if ex.Gnosis.Slot != m.Trig.Slot || ex.Gnosis.TxPointer != uint64(m.Trig.Ptr) {
					return fmt.Sprintf("self-produced keys carry (slot %d, pointer %d), trigger was (slot %d, pointer %d)", ex.Gnosis.Slot, ex.Gnosis.TxPointer, m.Trig.Slot, m.Trig.Ptr)
				}
				// released k identities at pointer p -> pointer p+k-1, age 0
				m.Ptr = c19ptr{Row: true, Value: m.Trig.Ptr + int64(len(k.Keys)) - 1, Age: 0}
				st.Class("history: self-produced keys advance the pointer")
			}
		}
		if derivedNow && !emitted {
			// e.g. the same slot was triggered twice with different identity lists and
			// the signature row of the first trigger is kept: the middleware holds the
			// keys back. Liveness of publication is C03's subject, not C19's.
			st.Class("history: keys derived but publication held back (signature count)")
		}
	case "recvkeys":
		k := 1 + o.A // number of identities released
		var p int64
		switch o.B % 3 {
		case 0:
			p = 0
		case 1:
			p = refPointer(m.Ptr, len(m.Queue))
		case 2:
			p = int64(len(m.Queue))
		}
		slot := uint64(200 + o.A)
		if o.B >= 3 {
			// a delayed message: for a slot before every slot this keyper is triggered for
			slot = uint64(90 + o.A)
		}
		ids := []identitypreimage.IdentityPreimage{slotIdentity(slot)}
		var txs []identitypreimage.IdentityPreimage
		for i := 0; i < k-1; i++ {
			txs = append(txs, txIdentity(int(p)+i))
		}
		sort.Slice(txs, func(i, j int) bool { return bytes.Compare(txs[i], txs[j]) < 0 })
		ids = append(ids, txs...)
		msg := &p2pmsg.DecryptionKeys{InstanceId: kpx.InstanceID, Eon: c19Set}
		for _, id := range ids {
			msg.Keys = append(msg.Keys, &p2pmsg.Key{IdentityPreimage: id, Key: h.keys.Key(id).Marshal()})
		}
		msg.Extra = &p2pmsg.DecryptionKeys_Gnosis{Gnosis: &p2pmsg.GnosisDecryptionKeysExtra{
			Slot: slot, TxPointer: uint64(p), SignerIndices: []uint64{1, 2},
			Signatures: [][]byte{signGnosis(c19members[1], c19Set, slot, uint64(p), ids), signGnosis(c19members[2], c19Set, slot, uint64(p), ids)},
		}}
		d, _ := n.Receive(msg.Topic(), kpx.Envelope(msg))
		if d.Panic != "" {
			return "panic: " + d.Panic
		}
		if d.Verdict != 0 {
			return fmt.Sprintf("honest keys message (k=%d, p=%d) not accepted (%s)", k, p, d.VerdictString())
		}
		if d.Err != nil {
			return fmt.Sprintf("honest keys message (k=%d, p=%d) fails in the handler: %v", k, p, d.Err)
		}
		m.Ptr = c19ptr{Row: true, Value: p + int64(k) - 1, Age: 0}
		st.Class(fmt.Sprintf("history: received keys releasing %d identities", k))
	}
	return checkPtr("after " + o.String())
}

type c19node struct {
	ops []c19op
	db  *minipg.DB
	m   *c19model
}

func (m *c19model) clone() *c19model {
	n := *m
	n.Queue = append([]c19tx{}, m.Queue...)
	if m.Trig != nil {
		t := *m.Trig
		n.Trig = &t
	}
	return &n
}

func (h *c19h) initial() c19node {
	n := kpx.NewNode(c19spec(h.keys), 20)
	insertQueue(n.Pool, c19Set, 0, []c19tx{{21000}, {c19Limit / 2}})
	return c19node{db: n.Pool.DB(), m: &c19model{Queue: []c19tx{{21000}, {c19Limit / 2}}}}
}

// step applies one op to a copy of the state.
func (h *c19h) step(s c19node, o c19op, st *report.Stats) (c19node, string) {
	n := kpx.NodeOnDB(c19spec(h.keys), 20, s.db.Clone())
	m := s.m.clone()
	v := h.apply(n, m, o, st)
	return c19node{ops: append(append([]c19op{}, s.ops...), o), db: n.Pool.DB(), m: m}, v
}

func (h *c19h) replay(ops []c19op, st *report.Stats) (*kpx.Node, *c19model, string) {
	n := kpx.NewNode(c19spec(h.keys), 20)
	m := &c19model{}
	// a small initial queue
	insertQueue(n.Pool, c19Set, 0, []c19tx{{21000}, {c19Limit / 2}})
	m.Queue = []c19tx{{21000}, {c19Limit / 2}}
	for i, o := range ops {
		s := &report.Stats{}
		if i == len(ops)-1 {
			s = st
		}
		if v := h.apply(n, m, o, s); v != "" {
			return n, m, v
		}
	}
	return n, m, ""
}

type c19Replay struct {
	Part  string        `json:"part"`
	State *c19StateCase `json:"state,omitempty"`
	Ops   []c19op       `json:"ops,omitempty"`
}

func c19() *report.Check {
	return &report.Check{
		Level: "model_checking",
		Rule:  "(a) every (queue of 0..4/6 transactions with gas in {21000, limit/2, limit, limit+1, 1}, second eon's queue, pointer value in {0, inside, len, len+2}, age in {0, max, max+1, NULL, no row}, slot) written into minipg and triggerDecryption run by two keypers of the set; (b) BFS over {slot trigger + own shares, honest peer shares, received keys message (k in 1..3, pointer in {0,current,queue length}, for a later or an earlier slot than the last trigger), new queued transaction, restart} on one real Gnosis node in lock-step with a reference pointer model, merged on the pointer/trigger/signature/share/key tables. Classes = selection sizes, pointer cases, kinds of history step",
		Assumptions: []string{
			"A-ADDR: transaction identities never sort before the slot identity (non-zero identity prefixes), the code's own stated assumption",
			"the repository's default gas configuration (encrypted gas limit 1 000 000, min gas 21 000, so the query's row limit never binds before the gas bound for the queue sizes explored)",
			"the proposer-registration test of maybeTriggerDecryption (beacon API) is bypassed; its pointer-age increment is replayed with the real query",
			"PostgreSQL semantics as implemented by minipg; single session",
		},
		Shards: func(bool) int { return 16 },
		Budget: minutes(3, 15),
		Run: func(c *report.Ctx) {
			maxQ, depth := 4, 4
			if c.Thorough {
				maxQ, depth = 6, 6
			}
			gasPool := []int64{21000, c19Limit / 2, c19Limit, c19Limit + 1, 1}
			idx := 0
			// (a)
			var queues [][]c19tx
			var rec func(cur []c19tx)
			rec = func(cur []c19tx) {
				queues = append(queues, append([]c19tx{}, cur...))
				if len(cur) == maxQ {
					return
				}
				for _, g := range gasPool {
					if len(cur) >= 3 && g == 1 && !c.Thorough {
						continue
					}
					rec(append(cur, c19tx{g}))
				}
			}
			rec(nil)
			for _, qu := range queues {
				ptrVals := []int64{0, int64(len(qu) / 2), int64(len(qu)), int64(len(qu) + 2)}
				var ptrs []c19ptr
				ptrs = append(ptrs, c19ptr{Row: false})
				for _, v := range ptrVals {
					for _, a := range []int64{0, c19MaxAge, c19MaxAge + 1, -1} {
						ptrs = append(ptrs, c19ptr{Row: true, Value: v, Age: a})
					}
				}
				for _, p := range ptrs {
					for _, slot := range []uint64{7, 1 << 40} {
						idx++
						if idx%c.NShards != c.Shard {
							continue
						}
						if len(qu) == maxQ && idx%3 != 0 && !c.Thorough {
							continue // quick: a third of the largest queues
						}
						if c.Expired() {
							c.Stats.Cap("deadline in state enumeration")
							return
						}
						cs := c19StateCase{Queue: qu, Other: len(qu) % 2, Pointer: p, Slot: slot}
						c.Stats.Evaluations++
						c.Stats.States++
						c.Stats.Transitions++
						cls, v := c19StateRun(cs)
						if v != "" {
							c.Violation("C19/slot-identities-differ-from-selection-rule", fmt.Sprintf("queue=%v pointer=%+v slot=%d: %s", qu, p, slot, v), c19Replay{Part: "state", State: &cs})
							return
						}
						c.Stats.Class("state: " + cls)
						if idx == 160 {
							c.Stats.Sample(cs)
						}
					}
				}
			}
			// (b) BFS, sharded over the first op
			h := &c19h{keys: kpx.NewEonSet(3, 2, "c19")}
			c19keys = h.keys
			alphabet := []c19op{{"slot", 0, 0}, {"slot", 1, 0}, {"peershares", 0, 0}, {"peershares", 1, 0}, {"newtx", 0, 0}, {"newtx", 2, 0}, {"restart", 0, 0}}
			for k := 0; k < 3; k++ {
				for p := 0; p < 3; p++ {
					alphabet = append(alphabet, c19op{"recvkeys", k, p})
				}
			}
			// keys messages for an older slot than the one triggered last (delayed delivery)
			alphabet = append(alphabet, c19op{"recvkeys", 1, 3}, c19op{"recvkeys", 2, 3}, c19op{"recvkeys", 1, 4}, c19op{"recvkeys", 2, 5})
			var b *explore.BFS[c19node]
			b = &explore.BFS[c19node]{
				MaxDepth: depth, Deadline: c.Deadline,
				Key: func(s c19node) string {
					trig := ""
					if s.m.Trig != nil {
						trig = fmt.Sprint(*s.m.Trig, s.m.Shared)
					}
					return s.db.Dump("tx_pointer", "current_decryption_trigger", "slot_decryption_signatures", "decryption_key", "decryption_key_share", "transaction_submitted_event") + trig
				},
				Expand: func(s c19node, d int, _ []string, emit func(string, c19node)) {
					for oi, o := range alphabet {
						if d == 0 && oi%c.NShards != c.Shard {
							continue
						}
						c.Stats.Traces++
						c.Stats.Evaluations++
						ns, v := h.step(s, o, c.Stats)
						if v != "" {
							c.Violation("C19/pointer-or-identities-differ-in-history", fmt.Sprintf("after %v: %s", ns.ops, v), c19Replay{Part: "history", Ops: ns.ops})
							b.Stop = true
							return
						}
						emit(o.String(), ns)
					}
				},
			}
			b.Run([]c19node{h.initial()})
			c.Stats.States += int64(b.States)
			c.Stats.Transitions += int64(b.Transitions)
			if b.Capped != "" {
				c.Stats.Cap(fmt.Sprintf("history BFS: %s at depth %d", b.Capped, b.DepthDone))
			}
			c.Stats.SetExtra(fmt.Sprintf("history_bfs_shard_%d", c.Shard), map[string]any{"states": b.States, "transitions": b.Transitions, "depth_completed": b.DepthDone, "frontier_not_expanded": b.FrontierCut})
		},
		Replay: func(c *report.Ctx, raw json.RawMessage) string {
			var rp c19Replay
			if err := json.Unmarshal(raw, &rp); err != nil {
				return err.Error()
			}
			if rp.Part == "state" {
				_, v := c19StateRun(*rp.State)
				return v
			}
			h := &c19h{keys: kpx.NewEonSet(3, 2, "c19")}
			c19keys = h.keys
			_, _, v := h.replay(rp.Ops, c.Stats)
			return v
		},
	}
}
