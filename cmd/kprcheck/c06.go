package main

import (
	"bytes"
	"encoding/json"
	"fmt"
	"runtime/debug"

	pubsub "github.com/libp2p/go-libp2p-pubsub"

	obskeyper "github.com/shutter-network/rolling-shutter/rolling-shutter/chainobserver/db/keyper"
	"github.com/shutter-network/rolling-shutter/rolling-shutter/gnosisaccessnode"
	"github.com/shutter-network/rolling-shutter/rolling-shutter/keyperimpl/gnosis"
	gnosisdb "github.com/shutter-network/rolling-shutter/rolling-shutter/keyperimpl/gnosis/database"
	"github.com/shutter-network/rolling-shutter/rolling-shutter/keyperimpl/gnosis/gnosisssztypes"
	"github.com/shutter-network/rolling-shutter/rolling-shutter/keyperimpl/shutterservice"
	servicedb "github.com/shutter-network/rolling-shutter/rolling-shutter/keyperimpl/shutterservice/database"
	"github.com/shutter-network/rolling-shutter/rolling-shutter/keyperimpl/shutterservice/serviceztypes"
	"github.com/shutter-network/rolling-shutter/rolling-shutter/medley/identitypreimage"
	"github.com/shutter-network/rolling-shutter/rolling-shutter/p2pmsg"
	"github.com/shutter-network/rolling-shutter/rolling-shutter/shdb"

	"verif/harness/kpx"
	"verif/report"
)

// C06 — released keys carry a genuine threshold of keyper signatures.
//
// Exhaustive enumeration for every keyper set n<=3 (quick) / n<=4 (thorough)
// and every threshold: all signer index lists over {0..n} (n = out of range) of
// length 0..n+1 x signature lists of every relevant length whose entries are
// drawn from {by the listed signer, by another member, by an outsider, over
// data with one field changed, short, garbage} with a bounded number of
// non-genuine entries x every single-field change of the signed tuple.
// Targets: the exported signature validators of both flavours, the flavours'
// ValidateMessage over minipg (through the real combined validator), and the
// Gnosis access node through its real validator chain. Oracle: a reference
// predicate written from the statement.

const (
	c06Instance = 42
	c06Eon      = 1
	c06Slot     = 1000
	c06Ptr      = 7
	outsider    = 9 // participant that is in no keyper set
)

// sigKind is how one signature entry is produced.
// L by the listed signer, M by another member, O by an outsider, F by the
// listed signer over data with one field changed, S 64 bytes, G 65 garbage bytes.
var sigKinds = []byte{'L', 'M', 'O', 'F', 'S', 'G'}

type c06case struct {
	Flavour string   `json:"flavour"` // gnosis | service
	N       int      `json:"n"`
	T       int      `json:"t"`
	Signers []uint64 `json:"signers"`
	Sigs    string   `json:"sigs"`            // one kind letter per signature entry
	Field   string   `json:"field,omitempty"` // single-field change of the message after signing
	Target  string   `json:"target"`          // func | node | accessnode
}

func gnosisIDs() []identitypreimage.IdentityPreimage {
	a := make([]byte, 52)
	b := make([]byte, 52)
	a[51], b[0], b[51] = 1, 0x11, 2
	return []identitypreimage.IdentityPreimage{a, b}
}

func serviceIDs() []identitypreimage.IdentityPreimage {
	a := make([]byte, 32)
	b := make([]byte, 32)
	a[31], b[0], b[31] = 1, 0x11, 2
	return []identitypreimage.IdentityPreimage{a, b}
}

type c06tuple struct {
	Instance, Eon, Slot, Ptr uint64
	IDs                      []identitypreimage.IdentityPreimage
}

func (t c06tuple) mutated(field string) c06tuple {
	n := t
	n.IDs = append([]identitypreimage.IdentityPreimage{}, t.IDs...)
	switch field {
	case "instance":
		n.Instance++
	case "eon":
		n.Eon++ // set c06Eon+1 exists with the same members
	case "slot":
		n.Slot++
	case "ptr":
		n.Ptr++
	case "identity-byte":
		x := append([]byte{}, n.IDs[1]...)
		x[5] ^= 1
		n.IDs[1] = x
	case "identity-leading-zero-stripped":
		// the first identity starts with zero bytes: the same value as an integer, shorter
		n.IDs[0] = append([]byte{}, n.IDs[0][1:]...)
	case "identity-leading-zeros-stripped":
		x := n.IDs[0]
		for len(x) > 1 && x[0] == 0 {
			x = x[1:]
		}
		n.IDs[0] = append([]byte{}, x...)
	case "identity-shorter":
		n.IDs[1] = append([]byte{}, n.IDs[1][:len(n.IDs[1])-1]...)
	case "identity-longer":
		n.IDs[1] = append(append([]byte{}, n.IDs[1]...), 0)
	case "identity-dropped":
		n.IDs = n.IDs[:1]
	case "identity-swapped":
		n.IDs[0], n.IDs[1] = n.IDs[1], n.IDs[0]
	case "identity-added":
		x := append([]byte{}, n.IDs[1]...)
		x[1] = 0x77
		n.IDs = append(n.IDs, x)
	}
	return n
}

var sigCache = map[string][]byte{}

func signTuple(flavour string, t c06tuple, who int) []byte {
	ck := fmt.Sprintf("%s|%d|%d|%d|%d|%d", flavour, t.Instance, t.Eon, t.Slot, t.Ptr, who)
	for _, id := range t.IDs {
		ck += "|" + string([]byte(id))
	}
	if s, ok := sigCache[ck]; ok {
		return s
	}
	s := signTupleUncached(flavour, t, who)
	sigCache[ck] = s
	return s
}

func signTupleUncached(flavour string, t c06tuple, who int) []byte {
	if flavour == "gnosis" {
		d, err := gnosisssztypes.NewSlotDecryptionSignatureData(t.Instance, t.Eon, t.Slot, t.Ptr, t.IDs)
		kpx.Must(err)
		s, err := d.ComputeSignature(kpx.Key(who))
		kpx.Must(err)
		return s
	}
	d, err := serviceztypes.NewDecryptionSignatureData(t.Instance, t.Eon, t.IDs)
	kpx.Must(err)
	s, err := d.ComputeSignature(kpx.Key(who))
	kpx.Must(err)
	return s
}

// members of the keyper set: participant indices 10..10+n-1 (so that keyper
// index != participant index)
func c06members(n int) []int {
	m := make([]int, n)
	for i := range m {
		m[i] = 10 + i
	}
	return m
}

type c06built struct {
	msg  *p2pmsg.DecryptionKeys
	want bool
	why  string
}

// build constructs the message and evaluates the reference predicate.
func c06build(cs c06case, keys *kpx.EonSet) c06built {
	ids := gnosisIDs()
	if cs.Flavour == "service" {
		ids = serviceIDs()
	}
	signed := c06tuple{c06Instance, c06Eon, c06Slot, c06Ptr, ids}
	members := c06members(cs.N)
	var sigs [][]byte
	genuine := make([]bool, len(cs.Sigs))
	for i := 0; i < len(cs.Sigs); i++ {
		listed := -1
		if i < len(cs.Signers) && cs.Signers[i] < uint64(cs.N) {
			listed = members[cs.Signers[i]]
		}
		who := listed
		if who < 0 {
			who = members[0] // no listed signer at this position: signed by some member
		}
		switch cs.Sigs[i] {
		case 'L':
			sigs = append(sigs, signTuple(cs.Flavour, signed, who))
			genuine[i] = listed >= 0
		case 'M':
			other := members[0]
			if other == who && cs.N > 1 {
				other = members[1]
			}
			sigs = append(sigs, signTuple(cs.Flavour, signed, other))
			genuine[i] = listed >= 0 && other == listed
		case 'O':
			sigs = append(sigs, signTuple(cs.Flavour, signed, outsider))
		case 'F':
			sigs = append(sigs, signTuple(cs.Flavour, signed.mutated("identity-byte"), who))
		case 'S':
			sigs = append(sigs, signTuple(cs.Flavour, signed, who)[:64])
		case 'G':
			sigs = append(sigs, bytes.Repeat([]byte{0x5a}, 65))
		}
	}
	carried := signed.mutated(cs.Field)
	msg := &p2pmsg.DecryptionKeys{InstanceId: carried.Instance, Eon: carried.Eon}
	for _, id := range carried.IDs {
		msg.Keys = append(msg.Keys, &p2pmsg.Key{IdentityPreimage: id, Key: keys.Key(id).Marshal()})
	}
	if cs.Flavour == "gnosis" {
		msg.Extra = &p2pmsg.DecryptionKeys_Gnosis{Gnosis: &p2pmsg.GnosisDecryptionKeysExtra{Slot: carried.Slot, TxPointer: carried.Ptr, SignerIndices: cs.Signers, Signatures: sigs}}
	} else {
		msg.Extra = &p2pmsg.DecryptionKeys_Service{Service: &p2pmsg.ShutterServiceDecryptionKeysExtra{SignerIndices: cs.Signers, Signature: sigs}}
	}
	// reference predicate
	out := c06built{msg: msg}
	if cs.Flavour == "service" && len(cs.Signers) == 0 && len(sigs) == 0 {
		out.want, out.why = true, "service: neither signers nor signatures"
		return out
	}
	if len(cs.Signers) != cs.T {
		out.why = "signer count != threshold"
		return out
	}
	for i, s := range cs.Signers {
		if s >= uint64(cs.N) {
			out.why = "signer outside the set"
			return out
		}
		if i > 0 && s <= cs.Signers[i-1] {
			out.why = "signers not strictly increasing"
			return out
		}
	}
	if len(sigs) != len(cs.Signers) {
		out.why = "not exactly one signature per signer"
		return out
	}
	for i := range sigs {
		if !genuine[i] {
			out.why = "a signature is not by the listed signer over the signed data"
			return out
		}
	}
	if cs.Field != "" {
		out.why = "signed data differs from the message (" + cs.Field + ")"
		return out
	}
	out.want, out.why = true, "threshold of genuine signatures"
	return out
}

type c06env struct {
	keys    *kpx.EonSet
	gnosis  map[string]*kpx.Capture // per "n/t"
	service map[string]*kpx.Capture
	access  map[string]*kpx.Capture
}

func (e *c06env) keyperSet(n, t int) *obskeyper.KeyperSet {
	return &obskeyper.KeyperSet{KeyperConfigIndex: c06Eon, ActivationBlockNumber: 0, Keypers: shdb.EncodeAddresses(kpx.Addrs(c06members(n)...)), Threshold: int32(t)}
}

func (e *c06env) node(flavour string, n, t int) *kpx.Capture {
	key := fmt.Sprintf("%d/%d", n, t)
	m := e.gnosis
	if flavour == "service" {
		m = e.service
	}
	if c, ok := m[key]; ok {
		return c
	}
	def := gnosisdb.Definition
	if flavour == "service" {
		def = servicedb.Definition
	}
	pool := kpx.NewPool(def)
	// receiver is member 0 of the set; DKG successful with the shared key set
	kpx.InstallEon(pool, c06Eon, kpx.Addrs(c06members(n)...), t, 0, 5, kpx.Success, e.keys.Result(5, 0))
	kpx.InstallEon(pool, c06Eon+1, kpx.Addrs(c06members(n)...), t, 10, 6, kpx.Success, e.keys.Result(6, 0))
	capt := kpx.NewCapture()
	if flavour == "gnosis" {
		capt.AddMessageHandler(gnosis.VerifNewHandlers(pool)...)
	} else {
		capt.AddMessageHandler(shutterservice.VerifNewHandlers(pool)...)
	}
	m[key] = capt
	return capt
}

func (e *c06env) accessNode(n, t int) *kpx.Capture {
	key := fmt.Sprintf("%d/%d", n, t)
	if c, ok := e.access[key]; ok {
		return c
	}
	st := gnosisaccessnode.NewStorage()
	for _, eon := range []uint64{c06Eon, c06Eon + 1} {
		ks := e.keyperSet(n, t)
		ks.KeyperConfigIndex = int64(eon)
		st.AddKeyperSet(eon, ks)
		st.AddEonKey(eon, e.keys.PublicKey)
	}
	capt := kpx.NewCapture()
	capt.AddMessageHandler(gnosisaccessnode.NewDecryptionKeysHandler(&gnosisaccessnode.Config{InstanceID: c06Instance, MaxNumKeysPerMessage: 8}, st))
	e.access[key] = capt
	return capt
}

func (e *c06env) run(cs c06case) (class, sig, violation string) {
	b := c06build(cs, e.keys)
	var got bool
	var panicked string
	func() {
		defer func() {
			if p := recover(); p != nil {
				panicked = fmt.Sprintf("%v\n%s", p, firstLines(string(debug.Stack()), 14))
			}
		}()
		switch cs.Target {
		case "func":
			var res pubsub.ValidationResult
			if cs.Flavour == "gnosis" {
				res, _ = gnosis.ValidateDecryptionKeysSignatures(b.msg, b.msg.Extra.(*p2pmsg.DecryptionKeys_Gnosis).Gnosis, e.keyperSet(cs.N, cs.T))
			} else {
				res, _ = shutterservice.ValidateDecryptionKeysSignatures(b.msg, b.msg.Extra.(*p2pmsg.DecryptionKeys_Service).Service, e.keyperSet(cs.N, cs.T))
			}
			got = res == pubsub.ValidationAccept
		case "node":
			d := kpx.Deliver(e.node(cs.Flavour, cs.N, cs.T).P2PMessaging, b.msg.Topic(), kpx.Envelope(b.msg))
			if d.Panic != "" {
				panic(d.Panic)
			}
			got = d.Verdict == pubsub.ValidationAccept
		case "accessnode":
			d := kpx.Deliver(e.accessNode(cs.N, cs.T).P2PMessaging, b.msg.Topic(), kpx.Envelope(b.msg))
			if d.Panic != "" {
				panic(d.Panic)
			}
			got = d.Verdict == pubsub.ValidationAccept
		}
	}()
	if panicked != "" {
		return "", fmt.Sprintf("C06/%s-signature-validation-panics", cs.Flavour), "panic: " + panicked
	}
	if got != b.want {
		s := "accepted-without-genuine-threshold"
		if b.want {
			s = "genuine-threshold-rejected"
		}
		return "", fmt.Sprintf("C06/%s-%s", cs.Flavour, s), fmt.Sprintf("verdict accept=%v, the statement says accept=%v (%s)", got, b.want, b.why)
	}
	v := "rejected"
	if got {
		v = "accepted"
	}
	return fmt.Sprintf("%s %s: %s", cs.Flavour, v, b.why), "", ""
}

// enumeration helpers
func allSignerLists(n, maxLen int, fn func([]uint64)) {
	var rec func(cur []uint64)
	rec = func(cur []uint64) {
		fn(append([]uint64{}, cur...))
		if len(cur) == maxLen {
			return
		}
		for v := 0; v <= n; v++ {
			rec(append(cur, uint64(v)))
		}
	}
	rec(nil)
}

func sigPatterns(length, maxBad int, fn func(string)) {
	cur := make([]byte, length)
	var rec func(i, bad int)
	rec = func(i, bad int) {
		if i == length {
			fn(string(cur))
			return
		}
		cur[i] = 'L'
		rec(i+1, bad)
		if bad < maxBad {
			for _, k := range sigKinds[1:] {
				cur[i] = k
				rec(i+1, bad+1)
			}
		}
	}
	rec(0, 0)
}

func c06() *report.Check {
	return &report.Check{
		Level: "exploration",
		Rule:  "for every keyper set n<=3/4 and threshold: all signer index lists over {0..n} of length 0..n+1 x signature lists of length {0, |signers|-1, |signers|, |signers|+1, n+1} with entries from {listed signer, other member, outsider, over changed data, 64-byte, garbage} (at most 1 / 2 non-genuine entries) x every single-field change of the signed tuple, against the exported validators of both flavours, the flavours' ValidateMessage through the real combined validator over minipg, and the access node's validator chain; verdict compared with a reference predicate from the statement. Classes = (flavour, verdict, reason)",
		Assumptions: []string{
			"signatures are produced with the repository's own SSZ signing helpers; 'genuine' is decided by construction (who signed what), not by re-running the verification code",
			"identity preimages have the flavour's usual size (52 / 32 bytes) when signed; the carried message also has one identity a byte shorter / longer (the Gnosis signing root cannot be computed for it)",
		},
		Shards: func(bool) int { return 16 },
		Budget: minutes(3, 20),
		Run: func(c *report.Ctx) {
			kpx.SeedRand("c06")
			e := &c06env{keys: kpx.NewEonSet(3, 2, "c06"), gnosis: map[string]*kpx.Capture{}, service: map[string]*kpx.Capture{}, access: map[string]*kpx.Capture{}}
			maxN, maxBad := 3, 1
			if c.Thorough {
				maxN, maxBad = 4, 2
			}
			idx := 0
			try := func(cs c06case) bool {
				idx++
				if idx%c.NShards != c.Shard {
					return true
				}
				if c.Expired() {
					c.Stats.Cap("deadline")
					return false
				}
				c.Stats.Evaluations++
				cls, sig, v := e.run(cs)
				if v != "" {
					c.Violation(sig, fmt.Sprintf("%s n=%d t=%d target=%s signers=%v signatures=%q field=%q: %s", cs.Flavour, cs.N, cs.T, cs.Target, cs.Signers, cs.Sigs, cs.Field, v), cs)
					return true
				}
				c.Stats.Class(cls)
				if idx == 5000 {
					c.Stats.Sample(cs)
				}
				return true
			}
			for n := 1; n <= maxN; n++ {
				for t := 1; t <= n; t++ {
					for _, fl := range []string{"gnosis", "service"} {
						ok := true
						allSignerLists(n, n+1, func(signers []uint64) {
							if !ok {
								return
							}
							lens := map[int]bool{0: true, len(signers) - 1: true, len(signers): true, len(signers) + 1: true, n + 1: true}
							for l := range lens {
								if l < 0 {
									continue
								}
								bad := maxBad
								sigPatterns(l, bad, func(p string) {
									if !ok {
										return
									}
									ok = try(c06case{Flavour: fl, N: n, T: t, Signers: signers, Sigs: p, Target: "func"})
								})
							}
						})
						if !ok {
							return
						}
						// the validator chains and the signed tuple, around the honest message
						honest := make([]uint64, t)
						for i := range honest {
							honest[i] = uint64(i) + uint64(n-t) // the last t members
						}
						allL := string(bytes.Repeat([]byte{'L'}, t))
						targets := []string{"node"}
						if fl == "gnosis" {
							targets = append(targets, "accessnode")
						}
						for _, tg := range append([]string{"func"}, targets...) {
							for _, f := range []string{"", "instance", "eon", "slot", "ptr", "identity-byte", "identity-leading-zero-stripped", "identity-leading-zeros-stripped", "identity-shorter", "identity-longer", "identity-dropped", "identity-swapped", "identity-added"} {
								if fl == "service" && (f == "slot" || f == "ptr") {
									continue
								}
								if tg != "func" && f == "instance" {
									continue // the chains reject a foreign instance id before looking at signatures
								}
								if !try(c06case{Flavour: fl, N: n, T: t, Signers: honest, Sigs: allL, Field: f, Target: tg}) {
									return
								}
							}
							// through the chains: every signer list with genuine signatures and the length variants
							if tg != "func" {
								allSignerLists(n, n+1, func(signers []uint64) {
									for _, l := range []int{0, len(signers) - 1, len(signers), len(signers) + 1} {
										if l < 0 {
											continue
										}
										sigPatterns(l, 1, func(p string) {
											if ok {
												ok = try(c06case{Flavour: fl, N: n, T: t, Signers: signers, Sigs: p, Target: tg})
											}
										})
									}
								})
							}
						}
					}
				}
			}
		},
		Replay: func(c *report.Ctx, raw json.RawMessage) string {
			var cs c06case
			if err := json.Unmarshal(raw, &cs); err != nil {
				return err.Error()
			}
			e := &c06env{keys: kpx.NewEonSet(3, 2, "c06"), gnosis: map[string]*kpx.Capture{}, service: map[string]*kpx.Capture{}, access: map[string]*kpx.Capture{}}
			_, _, v := e.run(cs)
			return v
		},
	}
}
