package main

import (
	"bytes"
	"context"
	"encoding/json"
	"fmt"
	"runtime/debug"
	"sort"
	"strings"

	"github.com/jackc/pgx/v4/pgxpool"

	"github.com/shutter-network/shutter/shlib/shcrypto"
	blst "github.com/supranational/blst/bindings/go"

	kprdb "github.com/shutter-network/rolling-shutter/rolling-shutter/keyper/database"
	"github.com/shutter-network/rolling-shutter/rolling-shutter/keyper/epochkg"
	"github.com/shutter-network/rolling-shutter/rolling-shutter/keyper/epochkghandler"
	"github.com/shutter-network/rolling-shutter/rolling-shutter/medley/identitypreimage"
	"github.com/shutter-network/rolling-shutter/rolling-shutter/p2pmsg"

	"verif/canon"
	"verif/explore"
	"verif/harness/kpx"
	"verif/report"
)

// C01 — a derived decryption key is the unique correct key, from any t valid shares.
//
// Object layer: explicit-state search over ALL sequences of share arrivals on
// the real epochkg.EpochKG (successors by replay on a fresh object) until the
// key exists plus two further steps. Handler layer: the same on the real
// DecryptionKeyShareHandler / DecryptionKeyHandler over a minipg database,
// every message passing through the real combined gossip validator first.

var (
	idA = []byte("identity-A-0123456789abcdef0123456789")
	idB = []byte("identity-B-0123456789abcdef0123456789")
)

// c01sym is one element of the object-layer alphabet.
type c01sym struct {
	Kind   byte `json:"kind"` // V valid for A | U valid for B | W share for B labelled A | X share for A from another eon key set
	Sender int  `json:"sender"`
}

func (s c01sym) String() string { return fmt.Sprintf("%c%d", s.Kind, s.Sender) }

type c01obj struct {
	N, T  int
	Set   *kpx.EonSet
	Other *kpx.EonSet
	Alpha []c01sym
}

func newC01obj(n, t int) *c01obj {
	o := &c01obj{N: n, T: t, Set: kpx.NewEonSet(n, t, "c01"), Other: kpx.NewEonSet(n, t, "c01-other")}
	for i := 0; i < n; i++ {
		o.Alpha = append(o.Alpha, c01sym{'V', i})
	}
	for i := 0; i < n; i++ {
		o.Alpha = append(o.Alpha, c01sym{'W', i}, c01sym{'X', i})
		if n <= 4 {
			// a second identity interleaved with the first (dropped for n=5 to keep
			// the product of the two share orders enumerable)
			o.Alpha = append(o.Alpha, c01sym{'U', i})
		}
	}
	return o
}

func (o *c01obj) share(s c01sym) *epochkg.EpochSecretKeyShare {
	sh := &epochkg.EpochSecretKeyShare{Eon: 7, Sender: uint64(s.Sender)}
	switch s.Kind {
	case 'V':
		sh.IdentityPreimage, sh.Share = idA, o.Set.Share(s.Sender, idA)
	case 'U':
		sh.IdentityPreimage, sh.Share = idB, o.Set.Share(s.Sender, idB)
	case 'W':
		sh.IdentityPreimage, sh.Share = idA, o.Set.Share(s.Sender, idB)
	case 'X':
		sh.IdentityPreimage, sh.Share = idA, o.Other.Share(s.Sender, idA)
	}
	return sh
}

// objDump is the canonical state of an EpochKG: per identity the ORDERED sender
// list of held shares and the key bytes. Order is kept so that order-dependent
// interpolation bugs are not merged away.
func objDump(kg *epochkg.EpochKG) string {
	var parts []string
	for _, id := range [][]byte{idA, idB} {
		hexid := identitypreimage.IdentityPreimage(id).Hex()
		var senders []string
		for _, s := range kg.SecretShares[hexid] {
			senders = append(senders, fmt.Sprintf("%d:%x", s.Sender, s.Share.Marshal()[:4]))
		}
		k, ok := kg.SecretKeys[hexid]
		ks := "nokey"
		if ok && k == nil {
			ks = "NILKEY"
		} else if ok {
			ks = fmt.Sprintf("%x", k.Marshal())
		}
		parts = append(parts, fmt.Sprintf("%s[%s]%s", id[:10], strings.Join(senders, ","), ks))
	}
	for k := range kg.SecretShares {
		if k != identitypreimage.IdentityPreimage(idA).Hex() && k != identitypreimage.IdentityPreimage(idB).Hex() {
			parts = append(parts, "stray-shares:"+k)
		}
	}
	for k := range kg.SecretKeys {
		if k != identitypreimage.IdentityPreimage(idA).Hex() && k != identitypreimage.IdentityPreimage(idB).Hex() {
			parts = append(parts, "stray-key:"+k)
		}
	}
	sort.Strings(parts[2:])
	return strings.Join(parts, "|")
}

type c01state struct {
	seq      []int
	afterKey int // steps taken since both... since the key for A exists
}

// build replays a sequence on a fresh EpochKG.
func (o *c01obj) build(seq []int) (kg *epochkg.EpochKG, panicked string) {
	defer func() {
		if p := recover(); p != nil {
			panicked = fmt.Sprintf("%v\n%s", p, debug.Stack())
		}
	}()
	kg = epochkg.NewEpochKG(o.Set.Result(7, 0))
	for _, x := range seq {
		_ = kg.HandleEpochSecretKeyShare(o.share(o.Alpha[x]))
	}
	return kg, ""
}

// check evaluates the state oracle for the state reached by seq.
func (o *c01obj) check(seq []int, kg *epochkg.EpochKG) string {
	for _, id := range [][]byte{idA, idB} {
		valid := map[int]bool{}
		validKind := byte('V')
		if bytes.Equal(id, idB) {
			validKind = 'U'
		}
		for _, x := range seq {
			if o.Alpha[x].Kind == validKind {
				valid[o.Alpha[x].Sender] = true
			}
		}
		k, present := kg.SecretKeys[identitypreimage.IdentityPreimage(id).Hex()]
		if present != (len(valid) >= o.T) {
			return fmt.Sprintf("identity %s: key present=%v but %d distinct valid shares arrived (threshold %d)", id[:10], present, len(valid), o.T)
		}
		if !present {
			continue
		}
		if k == nil {
			return fmt.Sprintf("identity %s: key entry is nil (aggregation failed and poisoned the result)", id[:10])
		}
		if !k.Equal(o.Set.Key(id)) {
			return fmt.Sprintf("identity %s: derived key differs from master*H1(identity)", id[:10])
		}
		ok, err := shcrypto.VerifyEpochSecretKey(k, o.Set.PublicKey, id)
		if err != nil || !ok {
			return fmt.Sprintf("identity %s: derived key does not verify against the eon public key (%v)", id[:10], err)
		}
		msg := []byte("trial message for " + string(id[:10]))
		sigma := shcrypto.Block{1, 2, 3}
		enc := shcrypto.Encrypt(msg, o.Set.PublicKey, shcrypto.ComputeEpochID(id), sigma)
		dec, err := enc.Decrypt(k)
		if err != nil || !bytes.Equal(dec, msg) {
			return fmt.Sprintf("identity %s: derived key does not decrypt a message encrypted for that identity (%v)", id[:10], err)
		}
	}
	return ""
}

type c01Replay struct {
	Layer string   `json:"layer"`
	N     int      `json:"n"`
	T     int      `json:"t"`
	Seq   []string `json:"sequence"`
	Idx   []int    `json:"indices"`
}

func c01Object(c *report.Ctx, n, t int) {
	o := newC01obj(n, t)
	names := func(seq []int) []string {
		var out []string
		for _, x := range seq {
			out = append(out, o.Alpha[x].String())
		}
		return out
	}
	fail := func(sig string, seq []int, msg string) {
		c.Violation(sig, fmt.Sprintf("EpochKG n=%d t=%d sequence %v: %s", n, t, names(seq), msg), c01Replay{Layer: "object", N: n, T: t, Seq: names(seq), Idx: seq})
	}
	var b *explore.BFS[c01state]
	b = &explore.BFS[c01state]{
		MaxDepth: 64,
		Deadline: c.Deadline,
		Key: func(s c01state) string {
			// merged on the complete object (every field, also ones the oracle does not
			// look at: two histories are only merged when nothing in the object tells
			// them apart), not only on the shares and keys it holds
			kg, _ := o.build(s.seq)
			return objDump(kg) + fmt.Sprint("|", s.afterKey) + "|" + canon.Dump(kg, nil)
		},
		Expand: func(s c01state, depth int, _ []string, emit func(string, c01state)) {
			if s.afterKey >= 2 {
				return
			}
			before, _ := o.build(s.seq)
			bd := objDump(before)
			for x, sym := range o.Alpha {
				seq := append(append([]int{}, s.seq...), x)
				kg, p := o.build(seq)
				c.Stats.Traces++
				c.Stats.Evaluations++
				if p != "" {
					fail("C01/epochkg-panics", seq, "panic: "+p)
					b.Stop = true
					return
				}
				if msg := o.check(seq, kg); msg != "" {
					fail("C01/epochkg-wrong-key-or-count", seq, msg)
					b.Stop = true
					return
				}
				ad := objDump(kg)
				// invalid and duplicate shares never alter the state
				dup := false
				for _, y := range s.seq {
					if y == x {
						dup = true
					}
				}
				if (sym.Kind == 'W' || sym.Kind == 'X' || dup) && ad != bd {
					fail("C01/invalid-or-duplicate-share-alters-state", seq, fmt.Sprintf("step %s is invalid or a repeat but changed the state\nbefore: %s\nafter:  %s", sym, bd, ad))
					b.Stop = true
					return
				}
				cls := "valid share stored"
				switch {
				case sym.Kind == 'W':
					cls = "share for another identity ignored"
				case sym.Kind == 'X':
					cls = "share from another eon key ignored"
				case dup:
					cls = "repeat ignored"
				case ad == bd:
					cls = "valid share after key exists ignored"
				case strings.Count(ad, "nokey") < strings.Count(bd, "nokey"):
					cls = "valid share completes a key"
				}
				c.Stats.Class(fmt.Sprintf("object n=%d t=%d: %s", n, t, cls))
				ns := c01state{seq: seq, afterKey: s.afterKey}
				if _, has := kg.SecretKeys[identitypreimage.IdentityPreimage(idA).Hex()]; has {
					if _, hasB := kg.SecretKeys[identitypreimage.IdentityPreimage(idB).Hex()]; hasB || n > 4 {
						ns.afterKey++
					}
				}
				emit(sym.String(), ns)
			}
		},
	}
	b.Run([]c01state{{}})
	c.Stats.States += int64(b.States)
	c.Stats.Transitions += int64(b.Transitions)
	if b.Capped != "" {
		c.Stats.Cap(fmt.Sprintf("object n=%d t=%d: %s at depth %d", n, t, b.Capped, b.DepthDone))
	}
	c.Stats.SetExtra(fmt.Sprintf("object_n%d_t%d", n, t), map[string]any{"states": b.States, "transitions": b.Transitions, "depth": b.DepthDone})
}

// ---------- handler layer ----------

type c01msg struct {
	Kind   string `json:"kind"`   // shares | keys
	Sender int    `json:"sender"` // keyper index of a shares message
	IDs    string `json:"ids"`    // "A", "B", "AB"
	Bad    string `json:"bad"`    // "", "S" (the two shares swapped), "D" (first share +D, last share -D), "W" (one share computed for the other identity), "X" (one share from another eon key set), "K" (keys message with a wrong key)
}

func (m c01msg) String() string { return fmt.Sprintf("%s(k%d,%s%s)", m.Kind, m.Sender, m.IDs, m.Bad) }

type c01h struct {
	N, T  int
	Set   *kpx.EonSet
	Other *kpx.EonSet
	Alpha []c01msg
	Tmpl  *pgxpool.Pool
	Mixed bool // senders use different identity lists
}

func ids(s string) [][]byte {
	var out [][]byte
	for _, ch := range s {
		if ch == 'A' {
			out = append(out, idA)
		} else {
			out = append(out, idB)
		}
	}
	return out
}

func newC01h(n, t int, mixed bool) *c01h {
	h := &c01h{N: n, T: t, Set: kpx.NewEonSet(n, t, "c01"), Other: kpx.NewEonSet(n, t, "c01-other"), Mixed: mixed}
	lists := []string{"AB"}
	if mixed {
		lists = []string{"A", "B", "AB"}
	}
	for i := 0; i < n; i++ {
		for _, l := range lists {
			h.Alpha = append(h.Alpha, c01msg{"shares", i, l, ""})
		}
	}
	for i := 0; i < n; i++ {
		h.Alpha = append(h.Alpha, c01msg{"shares", i, "AB", "W"}, c01msg{"shares", i, "AB", "X"})
	}
	// shares whose errors cancel when the shares of one message are added up: the
	// two shares attached to each other's identity, and share_A+D / share_B-D
	h.Alpha = append(h.Alpha, c01msg{"shares", 0, "AB", "S"}, c01msg{"shares", n - 1, "AB", "D"})
	h.Alpha = append(h.Alpha, c01msg{"keys", 0, "A", ""}, c01msg{"keys", 0, "AB", ""}, c01msg{"keys", 0, "AB", "K"})
	pool := kpx.NewPool(kprdb.Definition)
	members := make([]int, n)
	for i := range members {
		members[i] = i
	}
	kpx.InstallEon(pool, 3, kpx.Addrs(members...), t, 0, 5, kpx.Success, h.Set.Result(5, 0))
	h.Tmpl = pool
	return h
}

func (h *c01h) message(m c01msg) p2pmsg.Message {
	if m.Kind == "keys" {
		var ks []*p2pmsg.Key
		for i, id := range ids(m.IDs) {
			k := h.Set.Key(id)
			if m.Bad == "K" && i == len(ids(m.IDs))-1 {
				k = h.Other.Key(id)
			}
			ks = append(ks, &p2pmsg.Key{IdentityPreimage: id, Key: k.Marshal()})
		}
		return &p2pmsg.DecryptionKeys{InstanceId: 42, Eon: 3, Keys: ks}
	}
	var shares []*p2pmsg.KeyShare
	l := ids(m.IDs)
	for i, id := range l {
		sh := h.Set.Share(m.Sender, id)
		switch m.Bad {
		case "S":
			sh = h.Set.Share(m.Sender, l[len(l)-1-i])
		case "D":
			d := new(blst.P1)
			d.FromAffine((*blst.P1Affine)(h.Other.Share(m.Sender, idA)))
			p := new(blst.P1)
			p.FromAffine((*blst.P1Affine)(sh))
			if i == 0 {
				p = p.Add(d)
			} else if i == len(l)-1 {
				p = p.Sub(d)
			}
			sh = (*shcrypto.EpochSecretKeyShare)(p.ToAffine())
		}
		if i == len(l)-1 {
			switch m.Bad {
			case "W":
				sh = h.Set.Share(m.Sender, l[0])
			case "X":
				sh = h.Other.Share(m.Sender, id)
			}
		}
		shares = append(shares, &p2pmsg.KeyShare{IdentityPreimage: id, Share: sh.Marshal()})
	}
	return &p2pmsg.DecryptionKeyShares{InstanceId: 42, Eon: 3, KeyperIndex: uint64(m.Sender), Shares: shares}
}

type c01node struct {
	pool *pgxpool.Pool
	seq  []int
	done int
}

func (h *c01h) fresh() (*pgxpool.Pool, *kpx.Capture) {
	pool := pgxpool.NewWithDB("c01", h.Tmpl.DB().Clone())
	return pool, h.messaging(pool)
}

func (h *c01h) messaging(pool *pgxpool.Pool) *kpx.Capture {
	cfg := kpx.CoreConfig{Address: kpx.Addr(0), InstanceID: 42, MaxKeys: 8}
	capt := kpx.NewCapture()
	capt.AddMessageHandler(
		epochkghandler.NewDecryptionKeyHandler(cfg, pool),
		epochkghandler.NewDecryptionKeyShareHandler(cfg, pool),
		epochkghandler.NewEonPublicKeyHandler(cfg, pool),
	)
	return capt
}

func tablesDump(pool *pgxpool.Pool) string {
	return pool.DB().Dump("decryption_key", "decryption_key_share")
}

// hstep delivers one message and checks the transition + state oracles.
// valid[id] = set of senders whose valid share for id has been accepted so far;
// keysSeen[id] = a valid keys message containing id was accepted.
func (h *c01h) hstep(pool *pgxpool.Pool, capt *kpx.Capture, m c01msg, valid map[string]map[int]bool, keysSeen map[string]bool, st *report.Stats) string {
	before := tablesDump(pool)
	q := kprdb.New(pool)
	ctx := context.Background()
	hadAll := true // did every identity of this message already have its key before?
	for _, id := range ids(m.IDs) {
		if _, err := q.GetDecryptionKey(ctx, kprdb.GetDecryptionKeyParams{Eon: 3, EpochID: id}); err != nil {
			hadAll = false
		}
	}
	msg := h.message(m)
	d := kpx.Deliver(capt.P2PMessaging, msg.Topic(), kpx.Envelope(msg))
	if d.Panic != "" {
		return "panic: " + d.Panic
	}
	expectAccept := m.Bad == ""
	if expectAccept != (d.Verdict == 0) {
		return fmt.Sprintf("%s: validator says %s, expected accept=%v", m, d.VerdictString(), expectAccept)
	}
	if !expectAccept {
		if after := tablesDump(pool); after != before {
			return fmt.Sprintf("%s was rejected but changed the tables\nbefore: %s\nafter:  %s", m, before, after)
		}
		if len(d.Out) > 0 {
			return fmt.Sprintf("%s was rejected but produced %d outgoing messages", m, len(d.Out))
		}
		st.Class(fmt.Sprintf("handler: invalid %s rejected", m.Kind))
		return ""
	}
	if d.Err != nil {
		return fmt.Sprintf("%s: handler error %v", m, d.Err)
	}
	if m.Kind == "keys" {
		for _, id := range ids(m.IDs) {
			keysSeen[string(id)] = true
		}
	} else {
		for _, id := range ids(m.IDs) {
			if valid[string(id)] == nil {
				valid[string(id)] = map[int]bool{}
			}
			valid[string(id)][m.Sender] = true
		}
	}
	// state oracle
	for _, id := range [][]byte{idA, idB} {
		row, err := q.GetDecryptionKey(ctx, kprdb.GetDecryptionKeyParams{Eon: 3, EpochID: id})
		present := err == nil
		enough := len(valid[string(id)]) >= h.T || keysSeen[string(id)]
		if present && !enough {
			return fmt.Sprintf("after %s: key for %s stored although only %d distinct valid shares are held (threshold %d) and no keys message was accepted", m, id[:10], len(valid[string(id)]), h.T)
		}
		if !present && enough && !h.Mixed {
			return fmt.Sprintf("after %s: %d distinct valid shares for %s are held (threshold %d) but no key is stored", m, len(valid[string(id)]), id[:10], h.T)
		}
		if present && !bytes.Equal(row.DecryptionKey, h.Set.Key(id).Marshal()) {
			return fmt.Sprintf("after %s: stored key for %s is not the correct epoch secret key", m, id[:10])
		}
	}
	// transition oracle for shares messages: a keys message is emitted exactly on
	// the transition that completes all identities of the delivered message
	if m.Kind == "shares" {
		complete := true
		for _, id := range ids(m.IDs) {
			if len(valid[string(id)]) < h.T {
				complete = false
			}
		}
		var out *p2pmsg.DecryptionKeys
		for _, o := range d.Out {
			if k, ok := o.(*p2pmsg.DecryptionKeys); ok {
				out = k
			}
		}
		shouldEmit := complete && !hadAll
		if out != nil && !complete {
			return fmt.Sprintf("%s: keys message emitted although some identity of the message has fewer than %d valid shares", m, h.T)
		}
		if out == nil && shouldEmit {
			return fmt.Sprintf("%s completes all identities of the message (and not all keys were known) but no keys message was emitted", m)
		}
		if out != nil {
			if len(out.Keys) != len(ids(m.IDs)) {
				return fmt.Sprintf("%s: emitted keys message has %d keys for %d identities", m, len(out.Keys), len(ids(m.IDs)))
			}
			for i, k := range out.Keys {
				id := ids(m.IDs)[i]
				if !bytes.Equal(k.IdentityPreimage, id) || !bytes.Equal(k.Key, h.Set.Key(id).Marshal()) {
					return fmt.Sprintf("%s: emitted key %d is not the correct key of its identity", m, i)
				}
			}
			st.Class("handler: shares message completes keys, keys message emitted")
		} else if complete {
			st.Class("handler: shares message for already known keys")
		} else {
			st.Class("handler: shares message stored, threshold not reached")
		}
	} else {
		st.Class("handler: valid keys message stored")
	}
	return ""
}

func c01Handler(c *report.Ctx, n, t int, mixed bool, depth int) {
	h := newC01h(n, t, mixed)
	type hs struct{ seq []int }
	names := func(seq []int) []string {
		var out []string
		for _, x := range seq {
			out = append(out, h.Alpha[x].String())
		}
		return out
	}
	// replay a sequence on a fresh database, checking every step
	run := func(seq []int) (string, string) {
		pool, capt := h.fresh()
		valid := map[string]map[int]bool{}
		keysSeen := map[string]bool{}
		for i, x := range seq {
			st := &report.Stats{}
			if i == len(seq)-1 {
				st = c.Stats
			}
			if msg := h.hstep(pool, capt, h.Alpha[x], valid, keysSeen, st); msg != "" {
				return "", msg
			}
		}
		return tablesDump(pool), ""
	}
	var b *explore.BFS[hs]
	b = &explore.BFS[hs]{
		MaxDepth: depth, Deadline: c.Deadline,
		Key: func(s hs) string {
			d, _ := run(s.seq)
			return d
		},
		Expand: func(s hs, d int, _ []string, emit func(string, hs)) {
			for x := range h.Alpha {
				seq := append(append([]int{}, s.seq...), x)
				c.Stats.Traces++
				c.Stats.Evaluations++
				if _, msg := run(seq); msg != "" {
					sig := "C01/handler-derives-or-misses-key"
					if strings.HasPrefix(msg, "panic") {
						sig = "C01/handler-panics"
					}
					c.Violation(sig, fmt.Sprintf("handlers n=%d t=%d mixed=%v after %v: %s", n, t, mixed, names(seq[:len(seq)-1]), msg),
						c01Replay{Layer: fmt.Sprintf("handler mixed=%v depth=%d", mixed, depth), N: n, T: t, Seq: names(seq), Idx: seq})
					b.Stop = true
					return
				}
				emit(h.Alpha[x].String(), hs{seq})
			}
		},
	}
	b.Run([]hs{{}})
	c.Stats.States += int64(b.States)
	c.Stats.Transitions += int64(b.Transitions)
	if b.Capped != "" {
		c.Stats.Cap(fmt.Sprintf("handler n=%d t=%d mixed=%v: %s at depth %d", n, t, mixed, b.Capped, b.DepthDone))
	}
	c.Stats.SetExtra(fmt.Sprintf("handler_n%d_t%d_mixed%v", n, t, mixed), map[string]any{"states": b.States, "transitions": b.Transitions, "depth": b.DepthDone, "frontier_not_expanded": b.FrontierCut})
}

func c01() *report.Check {
	return &report.Check{
		Level: "model_checking",
		Rule:  "object layer: all sequences over {valid share of keyper i for A / for B, share for B labelled A, share from another eon key set, repeats} on the real EpochKG until both keys exist plus two steps, merged on (ordered senders, key bytes); handler layer: all sequences of share/keys messages (valid, with one wrong share, with two wrong shares whose errors cancel in the sum, wrong key, re-deliveries) through the real combined validator and handlers over minipg, merged on the share and key tables. Oracle: key present iff t distinct valid shares (or, handler layer, an accepted keys message); key equals master*H1(id), verifies, decrypts; invalid/duplicate steps change nothing. Classes = kinds of transition per layer and (n,t)",
		Assumptions: []string{
			"shcrypto/puredkg (shlib) are trusted primitives; the expected key is computed from the known master secret, not by interpolation",
			"handler layer: 'key stored as soon as t valid shares are held' is demanded only when all senders use the same identity list (what honest keypers triggered for the same identities do); with mixed lists only the safety direction is demanded",
			"PostgreSQL semantics as implemented by minipg; single session",
		},
		Shards: func(bool) int { return 16 },
		Budget: minutes(3, 20),
		Run: func(c *report.Ctx) {
			type unit struct {
				layer string
				n, t  int
				mixed bool
				depth int
			}
			var units []unit
			maxN := 3
			if c.Thorough {
				maxN = 4
			}
			for n := 1; n <= maxN; n++ {
				for t := 1; t <= n; t++ {
					units = append(units, unit{"object", n, t, false, 0})
				}
			}
			if c.Thorough {
				units = append(units, unit{"object", 5, 1, false, 0}, unit{"object", 5, 3, false, 0}, unit{"object", 5, 5, false, 0})
			}
			for t := 1; t <= 3; t++ {
				hd, md := 4, 3
				if c.Thorough {
					hd, md = 5, 4
				}
				units = append(units, unit{"handler", 3, t, false, hd}, unit{"handler", 3, t, true, md})
			}
			if c.Thorough {
				for t := 1; t <= 4; t++ {
					units = append(units, unit{"handler", 4, t, false, 4})
				}
			}
			for i, u := range units {
				if i%c.NShards != c.Shard {
					continue
				}
				if u.layer == "object" {
					c01Object(c, u.n, u.t)
				} else {
					c01Handler(c, u.n, u.t, u.mixed, u.depth)
				}
				if i == 4 {
					c.Stats.Sample(map[string]any{"unit": fmt.Sprint(u), "alphabet_object_n3": fmt.Sprint(newC01obj(3, 2).Alpha)})
				}
			}
		},
		Replay: func(c *report.Ctx, raw json.RawMessage) string {
			var rp c01Replay
			if err := json.Unmarshal(raw, &rp); err != nil {
				return err.Error()
			}
			if rp.Layer == "object" {
				o := newC01obj(rp.N, rp.T)
				kg, p := o.build(rp.Idx)
				if p != "" {
					return p
				}
				return o.check(rp.Idx, kg)
			}
			h := newC01h(rp.N, rp.T, strings.Contains(rp.Layer, "mixed=true"))
			pool, capt := h.fresh()
			valid := map[string]map[int]bool{}
			keysSeen := map[string]bool{}
			for _, x := range rp.Idx {
				if msg := h.hstep(pool, capt, h.Alpha[x], valid, keysSeen, c.Stats); msg != "" {
					return msg
				}
			}
			return ""
		},
	}
}
