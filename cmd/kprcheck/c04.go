package main

import (
	"bytes"
	"context"
	"encoding/json"
	"fmt"
	"math"
	"strings"

	"github.com/jackc/pgx/v4/pgxpool"
	"google.golang.org/protobuf/proto"
	"google.golang.org/protobuf/types/known/anypb"

	"github.com/shutter-network/shutter/shlib/shcrypto"

	kprdb "github.com/shutter-network/rolling-shutter/rolling-shutter/keyper/database"
	"github.com/shutter-network/rolling-shutter/rolling-shutter/keyper/epochkghandler"
	"github.com/shutter-network/rolling-shutter/rolling-shutter/p2pmsg"
	"github.com/shutter-network/rolling-shutter/rolling-shutter/shdb"

	"verif/harness/kpx"
	"verif/report"
)

// C04 — gossip validation accepts exactly the well-formed, cryptographically valid.
//
// Exhaustive enumeration without search state: base valid key-shares / keys
// messages (1..3 identities) x all single and all pairs of field mutations x
// receiver database states, executed on real envelope bytes through the real
// combined validator (and Handle iff accepted). The verdict is compared with a
// reference predicate written from the property statement that shares no code
// with the handlers.

const (
	c04Instance = 42
	c04MaxKeys  = 4
	c04Set      = 1 // keyper set named by the base messages (equal to the keyper index of the receiver, so that a set index used as a keyper index aliases)
	c04OtherSet = 4 // a second set the receiver belongs to (always successful, different keys)
)

var c04IDs = [][]byte{[]byte("id-1-aaaaaaaaaaaaaaaaaaaaaaaaaaaaa"), []byte("id-2-bbbbbbbbbbbbbbbbbbbbbbbbbbbbb"), []byte("id-3-ccccccccccccccccccccccccccccc"), []byte("id-4-ddddddddddddddddddddddddddddd"), []byte("id-5-eeeeeeeeeeeeeeeeeeeeeeeeeeeee")}

type c04item struct {
	ID  []byte `json:"id"`
	Src string `json:"src"` // own | otherkeyper | otherid | othereon | truncated | empty | garbage | stored
	// For is set when the bytes are the valid share/key of ANOTHER identity of the
	// same message (values exchanged between items, identities left in place).
	For []byte `json:"for,omitempty"`
}

type c04spec struct {
	Type        string    `json:"type"` // shares | keys
	Instance    uint64    `json:"instance"`
	Eon         uint64    `json:"eon"`
	KeyperIndex uint64    `json:"keyper_index"`
	Items       []c04item `json:"items"`
	Extra       string    `json:"extra,omitempty"`    // "", gnosis, service
	Envelope    string    `json:"envelope,omitempty"` // "", badversion, othertype, notrace
	Muts        []string  `json:"mutations"`
}

type c04world struct {
	N, T  int
	Set   *kpx.EonSet // keys of set 3
	Other *kpx.EonSet // keys of set 4
}

func newC04world() *c04world {
	return &c04world{N: 3, T: 2, Set: kpx.NewEonSet(3, 2, "c04"), Other: kpx.NewEonSet(3, 2, "c04-other")}
}

func (w *c04world) setKeys(eon uint64) *kpx.EonSet {
	if eon == c04OtherSet {
		return w.Other
	}
	return w.Set
}

// bytesFor materialises the share/key bytes of an item.
func (w *c04world) bytesFor(s c04spec, it c04item, stored []byte) []byte {
	ks := w.Set // sources are always relative to the base set's keys
	idx := int(s.KeyperIndex)
	if idx < 0 || idx >= w.N || s.KeyperIndex > 100 {
		idx = 1
	}
	var valid []byte
	vid := it.ID
	if it.For != nil {
		vid = it.For
	}
	if s.Type == "shares" {
		valid = ks.Share(idx, vid).Marshal()
	} else {
		valid = ks.Key(vid).Marshal()
	}
	switch it.Src {
	case "own":
		return valid
	case "otherkeyper":
		if s.Type == "shares" {
			return ks.Share((idx+1)%w.N, it.ID).Marshal()
		}
		return ks.Share(idx, it.ID).Marshal() // a single share posing as the key
	case "otherid":
		other := append([]byte("x"), it.ID...)
		if s.Type == "shares" {
			return ks.Share(idx, other).Marshal()
		}
		return ks.Key(other).Marshal()
	case "othereon":
		if s.Type == "shares" {
			return w.Other.Share(idx, it.ID).Marshal()
		}
		return w.Other.Key(it.ID).Marshal()
	case "truncated":
		return valid[:len(valid)-1]
	case "empty":
		return nil
	case "garbage":
		return bytes.Repeat([]byte{0xab}, len(valid))
	case "stored":
		return stored
	}
	panic("src " + it.Src)
}

func (w *c04world) build(s c04spec, stored []byte) (topic string, data []byte) {
	var m p2pmsg.Message
	if s.Type == "shares" {
		msg := &p2pmsg.DecryptionKeyShares{InstanceId: s.Instance, Eon: s.Eon, KeyperIndex: s.KeyperIndex}
		for _, it := range s.Items {
			msg.Shares = append(msg.Shares, &p2pmsg.KeyShare{IdentityPreimage: it.ID, Share: w.bytesFor(s, it, stored)})
		}
		switch s.Extra {
		case "gnosis":
			msg.Extra = &p2pmsg.DecryptionKeyShares_Gnosis{Gnosis: &p2pmsg.GnosisDecryptionKeySharesExtra{Slot: 1, TxPointer: 2, Signature: []byte{1}}}
		case "service":
			msg.Extra = &p2pmsg.DecryptionKeyShares_Service{Service: &p2pmsg.ShutterServiceDecryptionKeySharesExtra{Signature: []byte{1}}}
		}
		m = msg
	} else {
		msg := &p2pmsg.DecryptionKeys{InstanceId: s.Instance, Eon: s.Eon}
		for _, it := range s.Items {
			msg.Keys = append(msg.Keys, &p2pmsg.Key{IdentityPreimage: it.ID, Key: w.bytesFor(s, it, stored)})
		}
		switch s.Extra {
		case "gnosis":
			msg.Extra = &p2pmsg.DecryptionKeys_Gnosis{Gnosis: &p2pmsg.GnosisDecryptionKeysExtra{Slot: 1}}
		case "service":
			msg.Extra = &p2pmsg.DecryptionKeys_Service{Service: &p2pmsg.ShutterServiceDecryptionKeysExtra{}}
		}
		m = msg
	}
	topic = m.Topic()
	switch s.Envelope {
	case "":
		data = kpx.Envelope(m)
	case "badversion":
		any, _ := anypb.New(m)
		data, _ = proto.Marshal(&p2pmsg.Envelope{Version: p2pmsg.EnvelopeVersion + "x", Message: any})
	case "nomessage":
		data, _ = proto.Marshal(&p2pmsg.Envelope{Version: p2pmsg.EnvelopeVersion})
	case "othertype":
		// a well-formed message of the other type published on this topic
		var o p2pmsg.Message
		if s.Type == "shares" {
			o = &p2pmsg.DecryptionKeys{InstanceId: s.Instance, Eon: s.Eon, Keys: []*p2pmsg.Key{{IdentityPreimage: c04IDs[0], Key: w.Set.Key(c04IDs[0]).Marshal()}}}
		} else {
			o = &p2pmsg.DecryptionKeyShares{InstanceId: s.Instance, Eon: s.Eon, KeyperIndex: 1, Shares: []*p2pmsg.KeyShare{{IdentityPreimage: c04IDs[0], Share: w.Set.Share(1, c04IDs[0]).Marshal()}}}
		}
		data = kpx.Envelope(o)
	}
	return topic, data
}

// ---------- receiver database states ----------

type c04state struct {
	Name      string
	Member    bool   // receiver is a keyper of set 3
	Succeeded bool   // set 3's newest key generation has a successful result
	Stored    string // "", same, different: a key for c04IDs[0] is already stored
}

var c04states = []c04state{
	{Name: "success", Member: true, Succeeded: true},
	{Name: "not a keyper of the set", Member: false, Succeeded: true},
	{Name: "keyper set unknown"},
	{Name: "config only, no eon", Member: true},
	{Name: "eon started, no DKG result", Member: true},
	{Name: "DKG failed", Member: true},
	{Name: "DKG failed, restarted, no result yet", Member: true},
	{Name: "DKG failed, restarted, succeeded", Member: true, Succeeded: true},
	{Name: "success, key for identity 1 already stored (correct bytes)", Member: true, Succeeded: true, Stored: "same"},
	{Name: "success, key for identity 1 already stored (other bytes)", Member: true, Succeeded: true, Stored: "different"},
}

func (w *c04world) makeDB(si int) (*pgxpool.Pool, []byte) {
	pool := kpx.NewPool(kprdb.Definition)
	members := kpx.Addrs(1, 0, 2) // receiver (participant 0) has keyper index 1
	res := w.Set.Result(5, 1)
	var stored []byte
	switch si {
	case 0:
		kpx.InstallEon(pool, c04Set, members, w.T, 0, 5, kpx.Success, res)
	case 1:
		kpx.InstallEon(pool, c04Set, kpx.Addrs(1, 7, 2), w.T, 0, 5, kpx.Success, res)
	case 2:
	case 3:
		kpx.InstallEon(pool, c04Set, members, w.T, 0, 5, kpx.ConfigOnly, res)
	case 4:
		kpx.InstallEon(pool, c04Set, members, w.T, 0, 5, kpx.Started, res)
	case 5:
		kpx.InstallEon(pool, c04Set, members, w.T, 0, 5, kpx.Failed, res)
	case 6:
		kpx.InstallEon(pool, c04Set, members, w.T, 0, 5, kpx.Restarted, res)
	case 7:
		kpx.InstallEon(pool, c04Set, members, w.T, 0, 5, kpx.RestartedSuccess, res)
	case 8, 9:
		kpx.InstallEon(pool, c04Set, members, w.T, 0, 5, kpx.Success, res)
		stored = w.Set.Key(c04IDs[0]).Marshal()
		if si == 9 {
			stored = w.Other.Key(c04IDs[0]).Marshal()
		}
		_, err := kprdb.New(pool).InsertDecryptionKey(context.Background(), kprdb.InsertDecryptionKeyParams{Eon: c04Set, EpochID: c04IDs[0], DecryptionKey: stored})
		kpx.Must(err)
	}
	// the other set: always there, receiver is a member (index 1), success with other keys
	kpx.InstallEon(pool, c04OtherSet, members, w.T, 50, 20, kpx.Success, w.Other.Result(20, 1))
	return pool, stored
}

// ---------- reference predicate (from the statement) ----------

func (w *c04world) reference(s c04spec, st c04state, stored []byte) (accept bool, why string) {
	if s.Envelope != "" {
		return false, "envelope/type"
	}
	if s.Instance != c04Instance {
		return false, "instance id"
	}
	var member, succeeded bool
	switch s.Eon {
	case c04Set:
		member, succeeded = st.Member, st.Succeeded
	case c04OtherSet:
		member, succeeded = true, true
	default:
		return false, "unknown keyper set"
	}
	if !member {
		return false, "receiver not a keyper of the set"
	}
	if !succeeded {
		return false, "key generation of the set did not succeed"
	}
	if len(s.Items) < 1 || len(s.Items) > c04MaxKeys {
		return false, "count"
	}
	for i := 1; i < len(s.Items); i++ {
		if bytes.Compare(s.Items[i].ID, s.Items[i-1].ID) < 0 {
			return false, "identities decreasing"
		}
	}
	ks := w.setKeys(s.Eon)
	if s.Type == "shares" {
		if s.KeyperIndex >= uint64(w.N) {
			return false, "sender index does not exist"
		}
		for _, it := range s.Items {
			b := w.bytesFor(s, it, stored)
			sh := new(shcrypto.EpochSecretKeyShare)
			if err := sh.Unmarshal(b); err != nil {
				return false, "share bytes undecodable"
			}
			if !shcrypto.VerifyEpochSecretKeyShare(sh, ks.PubShares[s.KeyperIndex], shcrypto.ComputeEpochID(it.ID)) {
				return false, "share does not verify"
			}
		}
		return true, "valid shares"
	}
	for _, it := range s.Items {
		b := w.bytesFor(s, it, stored)
		k := new(shcrypto.EpochSecretKey)
		if err := k.Unmarshal(b); err != nil {
			return false, "key bytes undecodable"
		}
		if s.Eon == c04Set && st.Stored != "" && bytes.Equal(it.ID, c04IDs[0]) && bytes.Equal(b, stored) {
			continue // equals a key already stored
		}
		ok, err := shcrypto.VerifyEpochSecretKey(k, ks.PublicKey, it.ID)
		if err != nil || !ok {
			return false, "key does not verify"
		}
	}
	return true, "valid keys"
}

// ---------- mutations ----------

type c04mut struct {
	Name  string
	Group string // two mutations of the same group are not combined
	Apply func(s *c04spec)
}

func c04muts(typ string) []c04mut {
	var ms []c04mut
	add := func(group, name string, f func(s *c04spec)) { ms = append(ms, c04mut{name, group, f}) }
	add("instance", "instance+1", func(s *c04spec) { s.Instance++ })
	add("instance", "instance-1", func(s *c04spec) { s.Instance-- })
	add("eon", "eon=other set", func(s *c04spec) { s.Eon = c04OtherSet })
	add("eon", "eon=unknown", func(s *c04spec) { s.Eon = 99 })
	add("eon", "eon=2^63", func(s *c04spec) { s.Eon = 1 << 63 })
	add("eon", "eon=2^64-1", func(s *c04spec) { s.Eon = math.MaxUint64 })
	add("eon", "eon=2^63-1", func(s *c04spec) { s.Eon = math.MaxInt64 })
	if typ == "shares" {
		add("index", "index=other member", func(s *c04spec) { s.KeyperIndex = (s.KeyperIndex + 1) % 3 })
		add("index", "index=the receiver's own", func(s *c04spec) { s.KeyperIndex = 1 })
		add("index", "index=n", func(s *c04spec) { s.KeyperIndex = 3 })
		add("index", "index=n+1", func(s *c04spec) { s.KeyperIndex = 4 })
		add("index", "index=2^63", func(s *c04spec) { s.KeyperIndex = 1 << 63 })
		add("index", "index=2^64-1", func(s *c04spec) { s.KeyperIndex = math.MaxUint64 })
	}
	for _, pos := range []string{"first", "last"} {
		pos := pos
		at := func(s *c04spec) *c04item {
			if len(s.Items) == 0 {
				return nil
			}
			if pos == "first" {
				return &s.Items[0]
			}
			return &s.Items[len(s.Items)-1]
		}
		for _, src := range []string{"otherkeyper", "otherid", "othereon", "truncated", "empty", "garbage"} {
			src := src
			add("bytes-"+pos, pos+" bytes="+src, func(s *c04spec) {
				if it := at(s); it != nil {
					it.Src = src
				}
			})
		}
		add("id-"+pos, pos+" identity changed", func(s *c04spec) {
			if it := at(s); it != nil {
				it.ID = append(append([]byte{}, it.ID...), 'z')
			}
		})
		add("id-"+pos, pos+" identity empty", func(s *c04spec) {
			if it := at(s); it != nil {
				it.ID = nil
			}
		})
	}
	if typ == "keys" {
		add("bytes-first", "first bytes=stored", func(s *c04spec) {
			if len(s.Items) > 0 {
				s.Items[0].Src = "stored"
			}
		})
	}
	add("bytes-first", "values of the first two items exchanged", func(s *c04spec) {
		if len(s.Items) >= 2 {
			s.Items[0].For, s.Items[1].For = s.Items[1].ID, s.Items[0].ID
		}
	})
	add("order", "swap first two", func(s *c04spec) {
		if len(s.Items) >= 2 {
			s.Items[0], s.Items[1] = s.Items[1], s.Items[0]
		}
	})
	add("order", "duplicate first", func(s *c04spec) {
		if len(s.Items) >= 1 {
			s.Items = append([]c04item{s.Items[0]}, s.Items...)
		}
	})
	add("order", "reverse", func(s *c04spec) {
		for i, j := 0, len(s.Items)-1; i < j; i, j = i+1, j-1 {
			s.Items[i], s.Items[j] = s.Items[j], s.Items[i]
		}
	})
	add("count", "count=0", func(s *c04spec) { s.Items = nil })
	add("count", "count=max", func(s *c04spec) {
		for i := len(s.Items); i < c04MaxKeys; i++ {
			s.Items = append(s.Items, c04item{ID: c04IDs[len(c04IDs)-1-(c04MaxKeys-1-i)%2], Src: "own"})
		}
		sortItems(s.Items)
	})
	add("count", "count=max+1", func(s *c04spec) {
		for i := len(s.Items); i < c04MaxKeys+1; i++ {
			s.Items = append(s.Items, c04item{ID: c04IDs[4], Src: "own"})
		}
		sortItems(s.Items)
	})
	add("extra", "extra=gnosis", func(s *c04spec) { s.Extra = "gnosis" })
	add("extra", "extra=service", func(s *c04spec) { s.Extra = "service" })
	add("envelope", "envelope version", func(s *c04spec) { s.Envelope = "badversion" })
	add("envelope", "envelope without message", func(s *c04spec) { s.Envelope = "nomessage" })
	add("envelope", "other message type on the topic", func(s *c04spec) { s.Envelope = "othertype" })
	return ms
}

func sortItems(items []c04item) {
	for i := 1; i < len(items); i++ {
		for j := i; j > 0 && bytes.Compare(items[j].ID, items[j-1].ID) < 0; j-- {
			items[j], items[j-1] = items[j-1], items[j]
		}
	}
}

func c04base(typ string, n int) c04spec {
	s := c04spec{Type: typ, Instance: c04Instance, Eon: c04Set, KeyperIndex: 2}
	for i := 0; i < n; i++ {
		s.Items = append(s.Items, c04item{ID: c04IDs[i], Src: "own"})
	}
	return s
}

func cloneSpec(s c04spec) c04spec {
	c := s
	c.Items = make([]c04item, len(s.Items))
	for i, it := range s.Items {
		c.Items[i] = c04item{ID: append([]byte(nil), it.ID...), Src: it.Src, For: it.For}
	}
	c.Muts = append([]string(nil), s.Muts...)
	return c
}

type c04Replay struct {
	State int     `json:"state"`
	Spec  c04spec `json:"spec"`
}

var c04dbs = map[int]*pgxpool.Pool{}
var c04stored = map[int][]byte{}

// c04Case runs one (spec, state) and returns the outcome class or a violation.
func (w *c04world) runCase(s c04spec, si int) (class, sig, violation string) {
	tmpl, ok := c04dbs[si]
	if !ok {
		tmpl, c04stored[si] = w.makeDB(si)
		c04dbs[si] = tmpl
	}
	stored := c04stored[si]
	pool := pgxpool.NewWithDB("c04", tmpl.DB().Clone())
	cfg := kpx.CoreConfig{Address: kpx.Addr(0), InstanceID: c04Instance, MaxKeys: c04MaxKeys}
	capt := kpx.NewCapture()
	capt.AddMessageHandler(
		epochkghandler.NewDecryptionKeyHandler(cfg, pool),
		epochkghandler.NewDecryptionKeyShareHandler(cfg, pool),
		epochkghandler.NewEonPublicKeyHandler(cfg, pool),
	)
	before := pool.DB().Dump()
	topic, data := w.build(s, stored)
	want, why := w.reference(s, c04states[si], stored)
	d := kpx.Deliver(capt.P2PMessaging, topic, data)
	if d.Panic != "" {
		return "", "C04/validator-or-handler-panics", fmt.Sprintf("panic: %s", firstLines(d.Panic, 12))
	}
	got := d.Verdict == 0
	if got != want {
		return "", fmt.Sprintf("C04/verdict-differs/%s-should-be-%s", s.Type, map[bool]string{true: "accepted", false: "rejected"}[want]),
			fmt.Sprintf("validator says %s, the statement says accept=%v (%s)", d.VerdictString(), want, why)
	}
	if !got {
		if after := pool.DB().Dump(); after != before {
			return "", "C04/rejected-message-stored", "a rejected message changed the database"
		}
		if len(d.Out) > 0 || len(capt.Sent) > 0 {
			return "", "C04/rejected-message-causes-output", "a rejected message caused an outgoing message"
		}
		return "rejected: " + why, "", ""
	}
	if d.Err != nil {
		// the statement says nothing about handling of accepted messages (e.g. an
		// empty identity is rejected by a NOT NULL column); recorded, not failed
		return "accepted: " + why + " (handler returned an error)", "", ""
	}
	return "accepted: " + why, "", ""
}

// c04Restarted: one set of handler objects lives through a restart of the key
// generation of its keyper set. First the set's eon 5 succeeded (keys K1) and
// valid messages of the chosen kinds were validated; then shuttermint restarted
// the key generation for the same keyper set as eon 6, which succeeded with other
// keys K2. From then on exactly the messages made with K2 are valid.
func c04Restarted(c *report.Ctx) {
	for warm := 0; warm < 4; warm++ { // which kinds were validated before the restart: bit 0 shares, bit 1 keys
		w := newC04world()
		k1, k2 := w.Set, kpx.NewEonSet(3, 2, "c04-restarted-eon")
		pool := kpx.NewPool(kprdb.Definition)
		members := kpx.Addrs(1, 0, 2)
		kpx.InstallEon(pool, c04Set, members, w.T, 0, 5, kpx.Success, k1.Result(5, 1))
		cfg := kpx.CoreConfig{Address: kpx.Addr(0), InstanceID: c04Instance, MaxKeys: c04MaxKeys}
		capt := kpx.NewCapture()
		capt.AddMessageHandler(
			epochkghandler.NewDecryptionKeyHandler(cfg, pool),
			epochkghandler.NewDecryptionKeyShareHandler(cfg, pool),
			epochkghandler.NewEonPublicKeyHandler(cfg, pool),
		)
		deliver := func(keys *kpx.EonSet, typ string, id []byte) (bool, string) {
			w.Set = keys
			sp := c04base(typ, 1)
			sp.Items[0].ID = id
			topic, data := w.build(sp, nil)
			d := kpx.Deliver(capt.P2PMessaging, topic, data)
			c.Stats.Evaluations++
			if d.Panic != "" {
				return false, "panic: " + firstLines(d.Panic, 8)
			}
			return d.Verdict == 0, ""
		}
		fail := func(msg string) {
			c.Violation("C04/verdict-differs/after-the-key-generation-was-restarted", fmt.Sprintf("kinds validated before the restart: shares=%v keys=%v: %s", warm&1 != 0, warm&2 != 0, msg), c04Replay{State: -1 - warm})
		}
		for bit, typ := range []string{"shares", "keys"} {
			if warm&(1<<bit) == 0 {
				continue
			}
			if ok, p := deliver(k1, typ, c04IDs[0]); !ok {
				fail(fmt.Sprintf("before the restart a valid %s message is not accepted %s", typ, p))
			}
		}
		ctx := context.Background()
		q := kprdb.New(pool)
		kpx.Must(q.InsertEon(ctx, kprdb.InsertEonParams{Eon: 6, Height: 9, ActivationBlockNumber: 0, KeyperConfigIndex: c04Set}))
		// running, no result yet: nothing is valid
		for _, typ := range []string{"shares", "keys"} {
			if ok, p := deliver(k1, typ, c04IDs[1]); ok || p != "" {
				fail(fmt.Sprintf("the key generation was restarted (eon 6 running, no result): a %s message made with the superseded eon's keys is accepted %s", typ, p))
			}
		}
		r2 := *k2.Result(6, 1)
		b, err := shdb.EncodePureDKGResult(&r2)
		kpx.Must(err)
		kpx.Must(q.InsertDKGResult(ctx, kprdb.InsertDKGResultParams{Eon: 6, Success: true, PureResult: b}))
		for _, typ := range []string{"shares", "keys"} {
			if ok, p := deliver(k1, typ, c04IDs[2]); ok || p != "" {
				fail(fmt.Sprintf("eon 6 succeeded with new keys: a %s message made with the superseded eon 5's keys is accepted %s", typ, p))
			}
			if ok, p := deliver(k2, typ, c04IDs[3]); !ok {
				fail(fmt.Sprintf("eon 6 succeeded with new keys: a valid %s message made with them is rejected %s", typ, p))
			}
		}
		c.Stats.Class(fmt.Sprintf("handlers living through a restarted key generation (validated before: shares=%v keys=%v)", warm&1 != 0, warm&2 != 0))
	}
}

func firstLines(s string, n int) string {
	l := strings.Split(s, "\n")
	if len(l) > n {
		l = l[:n]
	}
	return strings.Join(l, "\n")
}

func c04() *report.Check {
	return &report.Check{
		Level: "exploration",
		Rule:  "base valid key-shares and keys messages with 1..3 identities x every single and every pair of field mutations (instance id, eon incl. 2^63 and 2^64-1, sender index incl. out of range, share/key bytes of another keyper / identity / eon key, truncated, empty, garbage, stored key, identity changed/empty, order swapped/reversed/duplicated, count 0/max/max+1, flavour extras, envelope version, missing message, other message type on the topic) x 10 receiver database states, on real envelope bytes through the real combined validator (Handle iff accepted); verdict compared with a reference predicate written from the statement; plus one set of handler objects living through a restart of its keyper set's key generation (eon 5 succeeded, messages validated, eon 6 started, eon 6 succeeded with other keys). Classes = (verdict, reason)",
		Assumptions: []string{
			"shcrypto verification functions are the ground truth for 'verifies against the public key (share)'",
			"accept vs not-accept is compared (Reject and Ignore both count as rejected)",
			"PostgreSQL semantics as implemented by minipg; single session",
		},
		Shards: func(bool) int { return 16 },
		Budget: minutes(3, 15),
		Run: func(c *report.Ctx) {
			if c.Shard == 0 {
				c04Restarted(c)
			}
			w := newC04world()
			idx := 0
			for _, typ := range []string{"shares", "keys"} {
				muts := c04muts(typ)
				for nIDs := 1; nIDs <= 3; nIDs++ {
					base := c04base(typ, nIDs)
					var specs []c04spec
					specs = append(specs, cloneSpec(base))
					for i, m1 := range muts {
						s1 := cloneSpec(base)
						m1.Apply(&s1)
						s1.Muts = []string{m1.Name}
						specs = append(specs, s1)
						if !c.Thorough && nIDs == 3 {
							continue // pairs for 3 identities only in the thorough tier
						}
						for _, m2 := range muts[i+1:] {
							if m2.Group == m1.Group {
								continue
							}
							s2 := cloneSpec(base)
							m1.Apply(&s2)
							m2.Apply(&s2)
							s2.Muts = []string{m1.Name, m2.Name}
							specs = append(specs, s2)
						}
					}
					for _, s := range specs {
						for si := range c04states {
							if !c.Thorough && len(s.Muts) == 2 && si != 0 && si != 8 && si != 9 && si != 1 {
								continue // quick: pairs against the four most discriminating states
							}
							idx++
							if idx%c.NShards != c.Shard {
								continue
							}
							if c.Expired() {
								c.Stats.Cap("deadline")
								return
							}
							c.Stats.Evaluations++
							cls, sig, v := w.runCase(s, si)
							if v != "" {
								c.Violation(sig, fmt.Sprintf("%s message with %d identities, mutations %v, receiver state %q: %s", typ, nIDs, s.Muts, c04states[si].Name, v), c04Replay{si, s})
								continue
							}
							c.Stats.Class(typ + " " + cls)
							if idx == 4000 {
								c.Stats.Sample(map[string]any{"spec": s, "state": c04states[si].Name, "outcome": cls})
							}
						}
					}
				}
			}
		},
		Replay: func(c *report.Ctx, raw json.RawMessage) string {
			var rp c04Replay
			if err := json.Unmarshal(raw, &rp); err != nil {
				return err.Error()
			}
			if rp.State < 0 {
				cc := &report.Ctx{Property: c.Property, Stats: &report.Stats{}, NShards: 1}
				c04Restarted(cc)
				if cc.Violations() > 0 {
					return "validators are wrong after the key generation of the keyper set was restarted (see the run's message)"
				}
				return ""
			}
			_, _, v := newC04world().runCase(rp.Spec, rp.State)
			return v
		},
	}
}
