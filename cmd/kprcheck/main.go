// Command kprcheck holds the checks of the keyper group that run on a single
// node's database (minipg): C01 key derivation, C04 gossip validation, C06
// signatures, C19 Gnosis slot identities, C20 eon key publication.
package main

import (
	"time"

	"verif/report"
)

func main() {
	report.Main(map[string]*report.Check{
		"C01": c01(),
		"C04": c04(),
		"C06": c06(),
		"C19": c19(),
		"C20": c20(),
	})
}

func minutes(quick, thorough float64) func(bool) time.Duration {
	return func(t bool) time.Duration {
		if t {
			return time.Duration(thorough * float64(time.Minute))
		}
		return time.Duration(quick * float64(time.Minute))
	}
}
