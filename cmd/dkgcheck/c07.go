package main

import (
	"crypto/sha256"
	"encoding/json"
	"fmt"
	"strings"

	"verif/explore"
	"verif/harness/shmx"
	"verif/report"
)

// C07 — honest keypers agree on the eon key despite Byzantine participants.
//
// One execution = one complete key generation (plus the restarted one, if the
// first fails on chain) from genesis through fakeshm. The adversary's script and
// the schedule are choice points of a stateless DFS; the oracle is the
// property statement (shmx.World.CheckAgreement).

// Tier parameters (easy to change when calibrating run times).
var (
	c07PhaseLength        int64 = 5 // with a two-block lag a message lands 3+delay blocks into its phase: delays 0..1 are in phase
	c07QuickBound               = 2 // adversary deviations from honest behaviour, quick
	c07ThoroughSchedBound       = 2 // adversary deviations combined with one schedule deviation, thorough
	c07N4Bound                  = 2
	c07SelfCheckEvery           = 61 // every k-th execution is executed twice and the observations compared
)

type c07Unit struct {
	Name string `json:"name"`
	N    int    `json:"n"`
	T    int    `json:"t"`
	L    int64  `json:"phase_length"`
	Byz  []int  `json:"byzantine"`
	// Mode: "adversary" = every strategy dimension of every Byzantine keyper is a
	// choice point costing one deviation; "product" = the same points, free (full
	// product); "delays" = no adversary, the pause of every (keyper, phase) is a
	// free choice in 0..MaxDelay; "delays-bounded" = the same, one deviation each.
	Mode     string        `json:"mode"`
	MaxDelay int           `json:"max_delay,omitempty"`
	Bound    int           `json:"bound"`
	Sched    shmx.Schedule `json:"schedule"` // fixed part of the schedule
	Big      bool          `json:"-"`        // shard inside the DFS instead of by unit
}

type c07Replay struct {
	Unit    c07Unit `json:"unit"`
	Choices []int   `json:"choices"`
	Labels  []string
}

func honestOf(n int, byz []int) []int {
	var out []int
	for i := 0; i < n; i++ {
		is := false
		for _, b := range byz {
			is = is || b == i
		}
		if !is {
			out = append(out, i)
		}
	}
	return out
}

// chooseStrategy reads one Byzantine keyper's script from the explorer.
func chooseStrategy(r *explore.Run, b int, honest []int, cost int) shmx.Strategy {
	ch := func(n int, label string) int { return r.ChooseCost(n, cost, fmt.Sprintf("byz%d.%s", b, label)) }
	st := shmx.Strategy{Evals: map[int]int{}, Apology: map[int]int{}, Accuse: -1}
	st.Commit = ch(shmx.NumCommit, "commitment{correct,none,too-few,too-many,twice}")
	for _, h := range honest {
		st.Evals[h] = ch(shmx.NumEval, fmt.Sprintf("eval->%d{correct,wrong,none}", h))
	}
	if a := ch(1+len(honest), "false-accusation{none,each honest}"); a > 0 {
		st.Accuse = honest[a-1]
	}
	for _, h := range honest {
		st.Apology[h] = ch(shmx.NumApology, fmt.Sprintf("apology->%d{honest,wrong,opposite}", h))
	}
	st.EvalsFirst = ch(2, "dealing-order{commitment first,evaluations first}") == 1
	for c := 0; c < shmx.NumClass; c++ {
		st.Late[c] = ch(2, [...]string{"commitment", "evals", "accusation", "apology"}[c]+"-timing{in-phase,one-phase-late}") == 1
	}
	return st
}

// canonical reports whether no irrelevant dimension of the script is away
// from its default (timing of a message class that is never sent). Only used
// to skip duplicates of the full product; under the default schedule the honest
// keypers' accusations are a function of the script.
func canonical(st shmx.Strategy, honest []int) bool {
	if st.EvalsFirst && (st.Commit == shmx.CommitNone || st.Late[shmx.ClassCommit] != st.Late[shmx.ClassEval]) {
		return false // the order only matters when both messages land in the same block
	}
	if st.Commit == shmx.CommitNone && st.Late[shmx.ClassCommit] {
		return false
	}
	anyEval := false
	for _, h := range honest {
		anyEval = anyEval || st.Evals[h] != shmx.EvalNone
	}
	if !anyEval && (st.Late[shmx.ClassEval] || st.EvalsFirst) {
		return false
	}
	if st.Accuse < 0 && st.Late[shmx.ClassAccuse] {
		return false
	}
	commitOK := (st.Commit == shmx.CommitCorrect || st.Commit == shmx.CommitTwice) && !st.Late[shmx.ClassCommit]
	anyApology := false
	for _, h := range honest {
		accused := !(commitOK && st.Evals[h] == shmx.EvalCorrect && !st.Late[shmx.ClassEval])
		switch st.Apology[h] {
		case shmx.ApologyHonest:
			anyApology = anyApology || accused
		case shmx.ApologyWrong:
			anyApology = true
		case shmx.ApologyOpposite:
			anyApology = anyApology || !accused
		}
	}
	if !anyApology && st.Late[shmx.ClassApology] {
		return false
	}
	return true
}

type c07Result struct {
	Obs     [32]byte
	Classes []string
	Pruned  bool
	Desc    string
	Sig     string // violation found in this execution
	Msg     string
}

// c07Exec is the body of one execution.
func c07Exec(r *explore.Run, u c07Unit) c07Result {
	setup := shmx.DefaultSetup(u.N, u.T, u.L)
	honest := honestOf(u.N, u.Byz)
	spec := shmx.Spec{Setup: setup, Byz: map[int]shmx.Strategy{}, Seed: "c07", MaxEons: 2}
	spec.Schedule = shmx.Schedule{Delay: map[int][3]int{}, Order: map[int64]int{}}
	for k, v := range u.Sched.Delay {
		spec.Schedule.Delay[k] = v
	}
	for k, v := range u.Sched.Order {
		spec.Schedule.Order[k] = v
	}
	var res c07Result
	failf := func(sig, format string, args ...any) {
		if res.Sig == "" {
			res.Sig, res.Msg = sig, fmt.Sprintf(format, args...)
		}
		r.Failf(sig, format, args...)
	}
	switch u.Mode {
	case "adversary", "product":
		cost := 1
		if u.Mode == "product" {
			cost = 0
		}
		for _, b := range u.Byz {
			spec.Byz[b] = chooseStrategy(r, b, honest, cost)
		}
		if u.Mode == "product" {
			for _, b := range u.Byz {
				if !canonical(spec.Byz[b], honest) {
					res.Pruned = true
					return res
				}
			}
		}
	case "standing-accusation":
		// the Byzantine keyper deals a wrong evaluation to one honest keyper (free
		// choice which) and answers the accusation with a wrong apology, so the
		// accusation stands; every further dimension of its script costs a deviation
		b := u.Byz[0]
		st := chooseStrategy(r, b, honest, 1)
		v := honest[r.ChooseFree(len(honest), fmt.Sprintf("byz%d.victim", b))]
		st.Evals[v] = shmx.EvalWrong
		st.Apology[v] = []int{shmx.ApologyWrong, shmx.ApologyOpposite}[r.ChooseFree(2, fmt.Sprintf("byz%d.answer-to-the-accusation{wrong apology,none}", b))]
		spec.Byz[b] = st
	case "delays", "delays-bounded":
		cost := 0
		if u.Mode == "delays-bounded" {
			cost = 1
		}
		for _, k := range honest {
			d := spec.Schedule.Delay[k]
			for p := 0; p < 3; p++ {
				d[p] = r.ChooseCost(u.MaxDelay+1, cost, fmt.Sprintf("keyper%d.pause-at-phase%d{0..%d blocks}", k, p+1, u.MaxDelay))
			}
			spec.Schedule.Delay[k] = d
		}
	default:
		panic("unknown mode " + u.Mode)
	}
	w := shmx.NewWorld(spec)
	w.Run()
	res.Obs = sha256.Sum256([]byte(w.Observation()))

	var desc []string
	desc = append(desc, fmt.Sprintf("n=%d t=%d phase length %d", u.N, u.T, u.L))
	for _, b := range u.Byz {
		desc = append(desc, fmt.Sprintf("Byzantine keyper %d: %s", b, spec.Byz[b]))
	}
	desc = append(desc, spec.Schedule.String())
	res.Desc = strings.Join(desc, "; ")

	inPhase := len(u.Byz) == 0
	for _, d := range spec.Schedule.Delay {
		for _, x := range d {
			if int64(x) > u.L-4 {
				inPhase = false
			}
		}
	}
	prefix := fmt.Sprintf("n%d t%d byz=%v", u.N, u.T, u.Byz)
	if len(w.Eons) == 0 {
		failf("C07/eon-never-started", "%s: no eon was started although %d keypers voted for the new keyper set", res.Desc, u.N)
		return res
	}
	for n, eon := range w.Eons {
		if n >= spec.MaxEons {
			break
		}
		v := w.CheckAgreement(eon)
		cl := fmt.Sprintf("%s eon#%d: %s", prefix, n+1, v.Class)
		res.Classes = append(res.Classes, cl)
		if v.Signature != "" {
			failf(v.Signature, "%s\n%s\noutcome: %s", v.Message, res.Desc, v.Class)
			return res
		}
		if inPhase && n == 0 && len(v.Succeeded) != len(honest) {
			failf("C07/honest-in-phase-run-does-not-succeed", "every keyper is honest and every message lands within its phase, but not all keypers report success\n%s\noutcome: %s\nsteps that did not end normally: %v", res.Desc, v.Class, w.StepLog)
			return res
		}
	}
	if inPhase && len(w.Eons) > 1 {
		failf("C07/honest-in-phase-run-restarts-dkg", "every keyper is honest and in phase, but a second eon was started\n%s", res.Desc)
	}
	for _, i := range w.Honest {
		k := w.Keypers[i]
		for _, p := range k.Panics {
			res.Classes = append(res.Classes, prefix+" honest keyper process ended: "+p)
		}
		for _, e := range k.Errors {
			res.Classes = append(res.Classes, prefix+" honest keyper loop returned an error: "+e)
		}
	}
	return res
}

func c07Units(thorough bool) []c07Unit {
	L := c07PhaseLength
	var us []c07Unit
	// all honest, every in-phase placement
	us = append(us, c07Unit{Name: "all-honest, every pause placement in {0,1} per (keyper, phase)", N: 3, T: 2, L: L, Mode: "delays", MaxDelay: int(L - 4), Bound: -1, Big: true})
	for b := 0; b < 3; b++ {
		us = append(us, c07Unit{Name: fmt.Sprintf("n=3 t=2, keyper %d Byzantine, scripts within %d deviations, default schedule", b, c07QuickBound), N: 3, T: 2, L: L, Byz: []int{b}, Mode: "adversary", Bound: c07QuickBound, Big: true})
	}
	// all honest, default placement, every single step-order deviation
	nperm := 6
	last := int64(shmx.VoteBlock) + 3*L + 8
	for h := int64(1); h <= last; h++ {
		for pi := 1; pi < nperm; pi++ {
			us = append(us, c07Unit{Name: fmt.Sprintf("n=3 t=2, all honest, block %d step order %d", h, pi), N: 3, T: 2, L: L, Mode: "delays-bounded", Bound: 0,
				Sched: shmx.Schedule{Order: map[int64]int{h: pi}}})
		}
	}
	// an accusation that stands (wrong evaluation, wrong apology) while one honest keyper
	// lags: it pauses 1..2 blocks at the start of a phase and then handles the blocks it
	// missed in one sync round
	for b := 0; b < 3; b++ {
		for _, h := range honestOf(3, []int{b}) {
			for p := 0; p < 3; p++ {
				// in the accusing and apologizing phases a keyper that has nothing to send
				// may lag by a whole phase and catch up in one sync round
				maxd := int(L - 3)
				if p > 0 {
					maxd = int(L)
				}
				for d := 1; d <= maxd; d++ {
					var dd [3]int
					dd[p] = d
					us = append(us, c07Unit{Name: fmt.Sprintf("n=3 t=2, keyper %d Byzantine with a standing accusation, keyper %d pauses %d at phase %d", b, h, d, p+1), N: 3, T: 2, L: L, Byz: []int{b}, Mode: "standing-accusation", Bound: 0,
						Sched: shmx.Schedule{Delay: map[int][3]int{h: dd}}})
				}
			}
		}
	}
	if !thorough {
		return us
	}
	// all honest: pauses up to one block beyond the phase, within 2 deviations
	us = append(us, c07Unit{Name: "all-honest, pauses 0..2 within 2 deviations", N: 3, T: 2, L: L, Mode: "delays-bounded", MaxDelay: int(L - 3), Bound: 2})
	// all honest, tight phase length: the only in-phase placement
	us = append(us, c07Unit{Name: "all-honest, phase length 4 (single in-phase placement), pauses 0..1 within 2 deviations", N: 3, T: 2, L: 4, Mode: "delays-bounded", MaxDelay: 1, Bound: 2})
	// the full script product per Byzantine index
	for b := 0; b < 3; b++ {
		us = append(us, c07Unit{Name: fmt.Sprintf("n=3 t=2, keyper %d Byzantine, full script product, default schedule", b), N: 3, T: 2, L: L, Byz: []int{b}, Mode: "product", Bound: -1, Big: true})
	}
	// scripts within the bound x one schedule deviation
	for b := 0; b < 3; b++ {
		byz := []int{b}
		mode := "adversary"
		name := fmt.Sprintf("keyper %d Byzantine (scripts within %d deviations)", b, c07ThoroughSchedBound)
		for _, h := range honestOf(3, byz) {
			for p := 0; p < 3; p++ {
				for d := 1; d <= int(L-3); d++ {
					var dd [3]int
					dd[p] = d
					us = append(us, c07Unit{Name: fmt.Sprintf("n=3 t=2, %s, keyper %d pauses %d at phase %d", name, h, d, p+1), N: 3, T: 2, L: L, Byz: byz, Mode: mode, Bound: c07ThoroughSchedBound,
						Sched: shmx.Schedule{Delay: map[int][3]int{h: dd}}})
				}
			}
		}
		for h := int64(1); h <= last; h++ {
			for pi := 1; pi < nperm; pi++ {
				us = append(us, c07Unit{Name: fmt.Sprintf("n=3 t=2, %s, block %d step order %d", name, h, pi), N: 3, T: 2, L: L, Byz: byz, Mode: mode, Bound: c07ThoroughSchedBound,
					Sched: shmx.Schedule{Order: map[int64]int{h: pi}}})
			}
		}
	}
	// n = 4
	us = append(us, c07Unit{Name: "n=4 t=3 all honest, pauses 0..1 within 2 deviations", N: 4, T: 3, L: L, Mode: "delays-bounded", MaxDelay: 1, Bound: 2})
	for b := 0; b < 4; b++ {
		us = append(us, c07Unit{Name: fmt.Sprintf("n=4 t=3, keyper %d Byzantine, scripts within %d deviations", b, c07N4Bound), N: 4, T: 3, L: L, Byz: []int{b}, Mode: "adversary", Bound: c07N4Bound})
	}
	for a := 0; a < 4; a++ {
		for b := a + 1; b < 4; b++ {
			us = append(us, c07Unit{Name: fmt.Sprintf("n=4 t=2, keypers %d and %d Byzantine, scripts within %d deviations", a, b, c07N4Bound), N: 4, T: 2, L: L, Byz: []int{a, b}, Mode: "adversary", Bound: c07N4Bound})
		}
	}
	return us
}

func c07RunUnit(c *report.Ctx, u c07Unit, shard, nshards int) bool {
	var last c07Result
	var dfs *explore.DFS
	dfs = &explore.DFS{
		Bound: u.Bound, Shard: shard, NShards: nshards, Deadline: c.Deadline,
		Body: func(r *explore.Run) { last = c07Exec(r, u) },
		OnRun: func(r *explore.Run) {
			if last.Pruned {
				c.Stats.Count("scripts_skipped_as_duplicates", 1)
				return
			}
			c.Stats.Evaluations++
			for _, cl := range last.Classes {
				c.Stats.Class(cl)
			}
			if c.Stats.Evaluations%int64(c07SelfCheckEvery) == 1 && !r.Failed() {
				first := last
				dfs.Replay(r.Choices)
				dfs.Execs--
				c.Stats.Count("determinism_self_checks", 1)
				if last.Obs != first.Obs {
					panic(fmt.Sprintf("C07 harness is not deterministic: the same choice list %v of unit %q gave two different observations", r.Choices, u.Name))
				}
				last = first
			}
			if c.Stats.Evaluations%997 == 2 {
				c.Stats.Sample(map[string]any{"unit": u.Name, "run": last.Desc, "outcome": last.Classes})
			}
		},
	}
	dfs.Explore()
	for _, f := range dfs.Failures {
		c.Violation(f.Signature, fmt.Sprintf("[%s]\n%s\nchoices: %v", u.Name, f.Message, f.Labels), c07Replay{Unit: u, Choices: f.Choices, Labels: f.Labels})
	}
	if dfs.Capped != "" {
		c.Stats.Cap(fmt.Sprintf("%s in unit %q", dfs.Capped, u.Name))
		return false
	}
	return true
}

func c07() *report.Check {
	return &report.Check{
		Level: "model_checking",
		Rule: "stateless deviation-bounded DFS over complete key generations through fakeshm (real app.ShutterApp, real smobserver.SyncAppWithDB/ShuttermintState, real KeyperCore.handleOnChainChanges, real fx.SendShutterMessages + RPCMessageSender per honest keyper on minipg; scripted Byzantine signers). " +
			"quick: n=3,t=2, every Byzantine index, all scripts within 2 deviations from honest behaviour x default schedule; a standing accusation (wrong evaluation to either honest keyper, answered with a wrong apology or not at all) x every single pause of either honest keyper (1..2 blocks at the dealing phase, 1..5 at the accusing and apologizing phases); all-honest runs with every pause placement in {0,1} per (keyper, phase) (2^9) and, at the default placement, every single step-order deviation (any of the 5 non-identity orders in any one block). " +
			"thorough adds: the full script product (commitment 5 x eval 3^2 x false accusation 3 x apology 3^2 x dealing order 2 x timing 2^4, duplicates with an unsent message class skipped) per Byzantine index x default schedule; scripts within 2 deviations x every single schedule deviation (pause 1..2 of one honest keyper at one phase; any of the 5 non-identity step orders in any one block); all-honest pauses 0..2 within 2 deviations, phase length 4; n=4 (t=3 one Byzantine, t=2 two Byzantine) within 2 deviations. " +
			"Oracle per eon: equal PublicKey/PublicKeyShares among successful honest keypers, g2^secret == own public share, every t-subset interpolates to a key passing VerifyEpochSecretKey and decrypting a message encrypted to the eon key, DKG result votes on chain == rows, published eon key == result; all-honest in-phase => all succeed. Classes = who succeeded / failed with which error / which dealers are in the key (qualified set).",
		Assumptions: []string{
			"a keyper's loop iteration is atomic with respect to block boundaries (it runs while one block is open); which block, and in which order inside the block, is the explorer's choice",
			"Byzantine keypers check in and vote honestly (so that the eon starts) and choose per message class between the last block of its phase and the first block of the next one",
			"PostgreSQL semantics as implemented by minipg; single-session serial execution",
			"tendermint_sync_meta.sync_timestamp (wall clock) is excluded from observations",
		},
		Shards: func(bool) int { return 16 },
		Budget: minutes(1.5, 23),
		Run: func(c *report.Ctx) {
			units := c07Units(c.Thorough)
			small := 0
			for _, u := range units {
				if c.Expired() {
					c.Stats.Cap("deadline before unit " + u.Name)
					break
				}
				if u.Big {
					c07RunUnit(c, u, c.Shard, c.NShards)
				} else {
					small++
					if small%c.NShards == c.Shard {
						c07RunUnit(c, u, 0, 1)
					}
				}
				if c.Violations() > 3 {
					return
				}
			}
			c.Stats.SetExtra("units", len(units))
		},
		Replay: func(c *report.Ctx, raw json.RawMessage) string {
			var rp c07Replay
			if err := json.Unmarshal(raw, &rp); err != nil {
				return err.Error()
			}
			var out c07Result
			dfs := &explore.DFS{Body: func(r *explore.Run) { out = c07Exec(r, rp.Unit) }}
			dfs.Replay(rp.Choices)
			if out.Sig != "" {
				return "[" + out.Sig + "] " + out.Msg
			}
			return ""
		},
		Trivial: func(class string) bool { return false },
	}
}
