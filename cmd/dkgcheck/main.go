// Command dkgcheck holds the checks of the distributed key generation over
// shuttermint: C07 (agreement despite Byzantine keypers) and C08 (a keyper
// survives a crash at any instant). Every execution runs the real
// app.ShutterApp, the real smobserver/fx/keyper code of N keypers on minipg
// databases, and scripted Byzantine keypers, inside the fake shuttermint of
// verif/harness/shmx.
package main

import (
	"time"

	"verif/report"
)

func main() {
	report.Main(map[string]*report.Check{
		"C07": c07(),
		"C08": c08(),
	})
}

func minutes(quick, thorough float64) func(bool) time.Duration {
	return func(t bool) time.Duration {
		if t {
			return time.Duration(thorough * float64(time.Minute))
		}
		return time.Duration(quick * float64(time.Minute))
	}
}
