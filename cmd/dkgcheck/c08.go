package main

import (
	"bytes"
	"crypto/sha256"
	"encoding/json"
	"fmt"
	"math/big"
	"reflect"
	"regexp"
	"sort"
	"strings"

	"github.com/ethereum/go-ethereum/common"
	"github.com/ethereum/go-ethereum/crypto/ecies"
	"google.golang.org/protobuf/proto"

	"github.com/shutter-network/shutter/shlib/puredkg"
	"github.com/shutter-network/shutter/shlib/shcrypto"

	"github.com/shutter-network/rolling-shutter/rolling-shutter/app"
	"github.com/shutter-network/rolling-shutter/rolling-shutter/shdb"
	"github.com/shutter-network/rolling-shutter/rolling-shutter/shmsg"

	"verif/harness/shmx"
	"verif/report"
)

// C08 — a keyper survives a crash at any instant.
//
// Fault enumeration on complete key generations: a crash-free twin run numbers
// the victim's database round trips and shuttermint RPC calls; every crash run
// replays the same schedule with a crash at one (thorough: two) of these
// points. A crash is a panic from the minipg Before/After hook or from the fake
// RPC client, recovered at the top of the keyper's loop iteration; the open
// transaction is dropped, every in-memory object of the keyper is thrown away
// and rebuilt the way KeyperCore.Start builds them.

// Tier parameters.
var (
	c08PhaseLength   int64 = 5
	c08PairWindow          = 60 // second crash within this many round trips after the restart
	c08PairRPCWindow       = 6
)

type c08Case struct {
	Scenario string            `json:"scenario"` // S1 .. S11
	Victim   int               `json:"victim"`
	Crash    []shmx.CrashPoint `json:"crash"`
}

func c08Spec(cs c08Case) shmx.Spec {
	spec := shmx.Spec{Setup: shmx.DefaultSetup(3, 2, c08PhaseLength), Seed: "c08", MaxEons: 1, Victim: cs.Victim, Crash: cs.Crash}
	if cs.Scenario == "S2" {
		// keyper 2 deals one wrong evaluation to the victim, accuses the victim
		// falsely and answers the victim's accusation with the correct value: the
		// victim walks the accusation and the apology path.
		st := shmx.HonestStrategy()
		st.Evals = map[int]int{cs.Victim: shmx.EvalWrong}
		st.Accuse = cs.Victim
		spec.Byz = map[int]shmx.Strategy{2: st}
	}
	if cs.Scenario == "S8" {
		// keyper 2 deals correctly, nobody accuses it, and in the apology phase it
		// publishes an apology nobody asked for, with wrong values: the honest keypers
		// exclude it - a fact that only the stored DKG state carries over a restart
		st := shmx.HonestStrategy()
		st.Apology = map[int]int{0: shmx.ApologyWrong, 1: shmx.ApologyWrong}
		spec.Byz = map[int]shmx.Strategy{2: st}
	}
	if cs.Scenario == "S9" {
		// all honest; in every block the victim takes its step after the other keypers,
		// so that each of its messages (in particular its DKG result) is the last of its
		// kind to reach shuttermint
		ord := map[int64]int{}
		idx := map[int]int{0: 3, 1: 1, 2: 0}[cs.Victim] // lexicographic index of a permutation with the victim last
		for h := int64(1); h <= 80; h++ {
			ord[h] = idx
		}
		spec.Schedule = shmx.Schedule{Order: ord}
	}
	if cs.Scenario == "S10" {
		// all honest; the victim is not in shuttermint's genesis configuration (only the
		// two other keypers are): it becomes a keyper, and has to check in, with the
		// batch config of the new set
		spec.Setup.GenesisN = 2
		if cs.Victim != 2 {
			panic("C08 scenario S10 is defined for victim 2 (the keyper outside the genesis configuration)")
		}
	}
	if cs.Scenario == "S11" {
		// all honest; the keypers vote for the new set when its activation block has
		// already passed on the main chain, so shuttermint starts the configuration as
		// soon as it is accepted (a vote re-sent after a crash meets a started configuration)
		spec.Setup.L1Past = true
	}
	if cs.Scenario == "S3" {
		// all honest; the third keyper is one block slower at the start of the
		// dealing phase (its commitment and evaluations land one block after the
		// others', still inside the phase)
		spec.Schedule = shmx.Schedule{Delay: map[int][3]int{2: {1, 0, 0}}}
	}
	if cs.Scenario == "S6" {
		// the first key generation fails on chain (the two other keypers sleep through
		// the dealing phase), shuttermint restarts it as a second eon on the same keyper
		// configuration, which everybody follows in time: the eon's start height differs
		// from the height at which its configuration was announced
		spec.MaxEons = 2
		o1, o2 := (cs.Victim+1)%3, (cs.Victim+2)%3
		spec.Schedule = shmx.Schedule{Delay: map[int][3]int{o1: {int(c08PhaseLength), 0, 0}, o2: {int(c08PhaseLength), 0, 0}}}
	}
	if cs.Scenario == "S7" {
		// all honest; one of the other keypers is started late, so that its check-in
		// (which carries its encryption key) reaches shuttermint only after the eon has
		// started: the victim's evaluation for it waits in the database in between
		spec.Schedule = shmx.Schedule{LateStart: map[int]int64{(cs.Victim + 2) % 3: 5}}
	}
	if cs.Scenario == "S4" || cs.Scenario == "S5" {
		// all honest; the victim itself pauses for one block at the start of the dealing
		// (S4) / accusing (S5) phase, so that its next sync round handles two shuttermint
		// blocks: crash points then also lie between the blocks of one round
		d := [3]int{1, 0, 0}
		if cs.Scenario == "S5" {
			d = [3]int{0, 1, 0}
		}
		spec.Schedule = shmx.Schedule{Delay: map[int][3]int{cs.Victim: d}}
	}
	return spec
}

// ---------- the monitor: looks at the victim's database at every commit point ----------

type queuedMsg struct {
	Desc string
	Msg  *shmsg.Message
	Raw  []byte
}

type c08Monitor struct {
	w *shmx.World
	k *shmx.Keyper

	prevBlock   int64
	prevDump    string
	maxOutboxID int64
	ever        map[int64]queuedMsg
	Commits     int

	// per handled block: structure of the block-driven tables right after the
	// block's commit and the descriptions of the outbox rows it inserted
	Structure map[int64]string
	NewDescs  map[int64][]string

	Sig, Msg string

	// a restart found the stored DKG state with never-filled commitment /
	// evaluation slots (see signature C08/restart-during-dealing-loses-commitment-slots)
	Vulnerable string

	pureCache map[[32]byte]*pureInfo
	decCache  map[[32]byte]*big.Int
}

type pureInfo struct {
	pure   *puredkg.PureDKG
	gammas *shcrypto.Gammas
	err    error
}

var blockTables = []string{"tendermint_batch_config", "tendermint_encryption_key", "eons", "puredkg", "poly_evals", "dkg_result", "outgoing_eon_keys"}

func newMonitor(w *shmx.World, victim int) *c08Monitor {
	m := &c08Monitor{w: w, k: w.Keypers[victim], ever: map[int64]queuedMsg{}, Structure: map[int64]string{}, NewDescs: map[int64][]string{},
		pureCache: map[[32]byte]*pureInfo{}, decCache: map[[32]byte]*big.Int{}}
	m.prevDump = m.k.DB().Dump(blockTables...)
	m.k.OnCommit = m.onCommit
	m.k.OnRestart = m.onRestart
	m.k.OnError = m.onRestart // an error makes ShuttermintState reload from the database, too
	return m
}

func (m *c08Monitor) failf(sig, format string, args ...any) {
	if m.Sig == "" {
		m.Sig, m.Msg = sig, fmt.Sprintf(format, args...)
	}
}

func colIndex(k *shmx.Keyper, table string) map[string]int {
	ci := map[string]int{}
	for i, c := range k.DB().Columns(table) {
		ci[c] = i
	}
	return ci
}

func (m *c08Monitor) currentBlock() (int64, []int64) {
	var mx int64 = -1
	var all []int64
	for _, r := range m.k.DB().Rows("tendermint_sync_meta") {
		b := r[0].(int64)
		all = append(all, b)
		if b > mx {
			mx = b
		}
	}
	return mx, all
}

func (m *c08Monitor) pure(b []byte) *pureInfo {
	h := sha256.Sum256(b)
	if p, ok := m.pureCache[h]; ok {
		return p
	}
	p := &pureInfo{}
	p.pure, p.err = shdb.DecodePureDKG(b)
	if p.err == nil && p.pure.Polynomial != nil {
		p.gammas = p.pure.Polynomial.Gammas()
	}
	m.pureCache[h] = p
	return p
}

func (m *c08Monitor) decrypt(receiver int, ct []byte) *big.Int {
	h := sha256.Sum256(append([]byte{byte(receiver)}, ct...))
	if v, ok := m.decCache[h]; ok {
		return v
	}
	var v *big.Int
	if pt, err := ecies.ImportECDSA(shmx.EncKey(receiver)).Decrypt(ct, nil, nil); err == nil {
		v = new(big.Int).SetBytes(pt)
	}
	m.decCache[h] = v
	return v
}

func idxOf(a common.Address, n int) int {
	for i := 0; i < n; i++ {
		if shmx.Addr(i) == a {
			return i
		}
	}
	return -1
}

var numRe = regexp.MustCompile(`[0-9]+`)

// structure renders the block-driven tables without random payloads.
func (m *c08Monitor) structure() string {
	var sb strings.Builder
	db := m.k.DB()
	for _, t := range blockTables {
		ci := colIndex(m.k, t)
		var lines []string
		for _, r := range db.Rows(t) {
			switch t {
			case "tendermint_batch_config", "eons":
				lines = append(lines, fmt.Sprint(r...))
			case "tendermint_encryption_key":
				lines = append(lines, fmt.Sprint(r[ci["address"]], r[ci["height"]]))
			case "poly_evals":
				lines = append(lines, fmt.Sprint(r[ci["eon"]], r[ci["receiver_address"]]))
			case "dkg_result":
				e, _ := r[ci["error"]].(string)
				lines = append(lines, fmt.Sprint(r[ci["eon"]], r[ci["success"]], numRe.ReplaceAllString(e, "N")))
			case "outgoing_eon_keys":
				lines = append(lines, fmt.Sprint(r[ci["eon"]]))
			case "puredkg":
				p := m.pure(r[ci["puredkg"]].([]byte))
				if p.err != nil {
					lines = append(lines, fmt.Sprint(r[ci["eon"]], " undecodable: ", p.err))
					continue
				}
				lines = append(lines, fmt.Sprint(r[ci["eon"]], " ", pureStructure(p.pure)))
			}
		}
		sort.Strings(lines)
		sb.WriteString("## " + t + "\n" + strings.Join(lines, "\n") + "\n")
	}
	return sb.String()
}

// pureStructure: what a PureDKG holds, without values.
func pureStructure(p *puredkg.PureDKG) string {
	var c, e []string
	for _, g := range p.Commitments {
		switch {
		case g == nil || len(*g) == 0:
			c = append(c, "-")
		default:
			c = append(c, fmt.Sprint(len(*g)))
		}
	}
	for _, v := range p.Evals {
		switch {
		case v == nil || v.Sign() == 0:
			e = append(e, "-")
		default:
			e = append(e, "x")
		}
	}
	keys := func(v reflect.Value) string {
		var ks []string
		for _, k := range v.MapKeys() {
			ks = append(ks, fmt.Sprintf("%d>%d", k.Field(0).Uint(), k.Field(1).Uint()))
		}
		sort.Strings(ks)
		return strings.Join(ks, ",")
	}
	return fmt.Sprintf("phase=%s keyper=%d n=%d t=%d poly=%v commitments=[%s] evals=[%s] accusations=[%s] apologies=[%s]",
		p.Phase, p.Keyper, p.NumKeypers, p.Threshold, p.Polynomial != nil, strings.Join(c, " "), strings.Join(e, " "),
		keys(reflect.ValueOf(p.Accusations)), keys(reflect.ValueOf(p.Apologies)))
}

// onRestart: does the state the restarted keyper is about to load contain
// slots that gob turned from "nothing received" into "received, empty"?
func (m *c08Monitor) onRestart(k *shmx.Keyper) {
	ci := colIndex(k, "puredkg")
	for _, r := range k.DB().Rows("puredkg") {
		p, err := shdb.DecodePureDKG(r[ci["puredkg"]].([]byte))
		if err != nil {
			continue
		}
		var slots []string
		for i, g := range p.Commitments {
			if g != nil && len(*g) == 0 {
				slots = append(slots, fmt.Sprintf("Commitments[%d] = non-nil empty Gammas", i))
			}
		}
		for i, v := range p.Evals {
			if v != nil && v.Sign() == 0 {
				slots = append(slots, fmt.Sprintf("Evals[%d] = non-nil 0", i))
			}
		}
		if len(slots) > 0 && m.Vulnerable == "" {
			what := fmt.Sprintf("restart #%d", k.Restarts)
			if len(k.Injected) > 0 {
				what = "the reload after the injected error"
			}
			m.Vulnerable = fmt.Sprintf("%s loads the eon %d DKG state in phase %s with %s", what, p.Eon, p.Phase, strings.Join(slots, ", "))
		}
	}
}

func (m *c08Monitor) onCommit(k *shmx.Keyper) {
	m.Commits++
	cb, _ := m.currentBlock()
	dump := k.DB().Dump(blockTables...)
	// outbox rows that are new at this commit point
	ids, descs, raws := shmx.Outbox(k)
	var fresh []string
	for i, id := range ids {
		if _, ok := m.ever[id]; !ok {
			msg := &shmsg.Message{}
			if err := proto.Unmarshal(raws[i], msg); err != nil {
				m.failf("C08/outbox-row-undecodable", "outbox row %d (%s) does not decode: %v", id, descs[i], err)
			}
			m.ever[id] = queuedMsg{Desc: descs[i], Msg: msg, Raw: raws[i]}
			if id > m.maxOutboxID {
				m.maxOutboxID = id
			}
			fresh = append(fresh, descs[i])
		}
	}
	switch {
	case cb == m.prevBlock:
		// (1) not a block commit: nothing a block's events drive may change
		if dump != m.prevDump {
			m.failf("C08/block-effects-outside-the-block-transaction", "commit point %d leaves tendermint_sync_meta.current_block at %d but changes block-driven tables:\n%s", m.Commits, cb, diffLines(m.prevDump, dump))
		}
		for _, d := range fresh {
			if !strings.HasPrefix(d, "new batch config") && !strings.HasPrefix(d, "block seen") {
				m.failf("C08/message-queued-outside-the-block-transaction", "commit point %d (current_block stays %d) queues the shuttermint message %q: a crash between this commit and the block's commit separates the message from the state it belongs to", m.Commits, cb, d)
			}
		}
	case cb == m.prevBlock+1:
		m.Structure[cb] = m.structure()
		m.NewDescs[cb] = fresh
	default:
		m.failf("C08/current-block-does-not-advance-by-one", "commit point %d moves tendermint_sync_meta.current_block from %d to %d", m.Commits, m.prevBlock, cb)
	}
	m.prevBlock, m.prevDump = cb, dump
	m.checkSecrets("commit point " + fmt.Sprint(m.Commits))
}

// checkSecrets is oracle (3): everything queued or sent is consistent with the
// stored secret polynomial.
func (m *c08Monitor) checkSecrets(where string) {
	k := m.k
	n := m.w.Spec.Setup.N
	ci := colIndex(k, "puredkg")
	pures := map[uint64]*pureInfo{}
	for _, r := range k.DB().Rows("puredkg") {
		p := m.pure(r[ci["puredkg"]].([]byte))
		if p.err != nil {
			m.failf("C08/stored-dkg-state-undecodable", "%s: puredkg row of eon %v does not decode: %v", where, r[ci["eon"]], p.err)
			continue
		}
		pures[uint64(r[ci["eon"]].(int64))] = p
	}
	if len(pures) == 0 {
		return
	}
	checkMsg := func(origin string, msg *shmsg.Message) {
		if pc := msg.GetPolyCommitment(); pc != nil {
			p := pures[pc.Eon]
			if p == nil || p.gammas == nil {
				return
			}
			parsed, err := app.ParsePolyCommitmentMsg(pc, k.Address())
			if err != nil || !parsed.Gammas.Equal(*p.gammas) {
				m.failf("C08/commitment-differs-from-stored-polynomial", "%s: the %s polynomial commitment of eon %d is not Polynomial.Gammas() of the stored puredkg row", where, origin, pc.Eon)
			}
		}
		if pe := msg.GetPolyEval(); pe != nil {
			p := pures[pe.Eon]
			if p == nil || p.pure.Polynomial == nil {
				return
			}
			for i, rb := range pe.Receivers {
				ri := idxOf(common.BytesToAddress(rb), n)
				if ri < 0 || i >= len(pe.EncryptedEvals) {
					continue
				}
				v := m.decrypt(ri, pe.EncryptedEvals[i])
				if v == nil || v.Cmp(p.pure.Polynomial.EvalForKeyper(ri)) != 0 {
					m.failf("C08/eval-differs-from-stored-polynomial", "%s: the %s polynomial evaluation for keyper %d (eon %d) does not decrypt to the stored polynomial's value", where, origin, ri, pe.Eon)
				}
			}
		}
	}
	ids, _, _ := shmx.Outbox(k)
	for _, id := range ids {
		checkMsg(fmt.Sprintf("queued (outbox id %d)", id), m.ever[id].Msg)
	}
	for _, t := range m.w.Chain.Txs {
		if t.From == k.Address() && t.Check == 0 && t.Msg != nil {
			checkMsg(fmt.Sprintf("sent (block %d)", t.Height), t.Msg)
		}
	}
	pci := colIndex(k, "poly_evals")
	for _, r := range k.DB().Rows("poly_evals") {
		p := pures[uint64(r[pci["eon"]].(int64))]
		if p == nil || p.pure.Polynomial == nil {
			continue
		}
		a, err := shdb.DecodeAddress(r[pci["receiver_address"]].(string))
		ri := idxOf(a, n)
		if err != nil || ri < 0 {
			continue
		}
		if shdb.DecodeBigint(r[pci["eval"]].([]byte)).Cmp(p.pure.Polynomial.EvalForKeyper(ri)) != 0 {
			m.failf("C08/eval-differs-from-stored-polynomial", "%s: the poly_evals row for keyper %d is not the stored polynomial's value", where, ri)
		}
	}
}

func diffLines(a, b string) string {
	as, bs := strings.Split(a, "\n"), strings.Split(b, "\n")
	in := map[string]int{}
	for _, l := range as {
		in[l]++
	}
	var out []string
	for _, l := range bs {
		if in[l] > 0 {
			in[l]--
		} else {
			out = append(out, "+ "+cut(l, 160))
		}
	}
	for l, c := range in {
		for ; c > 0; c-- {
			out = append(out, "- "+cut(l, 160))
		}
	}
	sort.Strings(out)
	if len(out) > 12 {
		out = out[:12]
	}
	return strings.Join(out, "\n")
}

func cut(s string, n int) string {
	if len(s) > n {
		return s[:n] + "…"
	}
	return s
}

// ---------- one run ----------

type c08Run struct {
	W        *shmx.World
	M        *c08Monitor
	RT       int // victim's database round trips
	RPC      int
	RTLog    []string
	RPCLog   []string
	Success  map[int]string // keyper -> "success" | "failed(...)" | "no-result"
	SentOK   map[string]bool
	Sig, Msg string
	Class    string
	Obs      [32]byte
}

func c08Execute(cs c08Case, logRT bool) *c08Run {
	w := shmx.NewWorld(c08Spec(cs))
	run := &c08Run{W: w, Success: map[int]string{}, SentOK: map[string]bool{}}
	run.M = newMonitor(w, cs.Victim)
	v := w.Keypers[cs.Victim]
	v.LogRoundTrips = logRT
	w.Run()
	run.RT, run.RPC = v.DB().RoundTrips(), v.Client.Calls
	run.RTLog, run.RPCLog = v.RTLog, v.Client.Log
	run.Obs = sha256.Sum256([]byte(w.Observation()))
	lastEon := uint64(1)
	for e := range w.EonStart {
		if e > lastEon {
			lastEon = e
		}
	}
	for _, i := range w.Honest {
		o := shmx.OutcomeOf(w.Keypers[i], lastEon) // the outcome of the newest eon counts
		switch {
		case !o.HasRow:
			run.Success[i] = "no-result"
		case o.Success:
			run.Success[i] = "success"
		default:
			run.Success[i] = "failed(" + numRe.ReplaceAllString(o.Error, "N") + ")"
		}
	}
	for _, t := range w.Chain.Txs {
		if t.From == v.Address() && t.Check == 0 && t.Deliver == 0 && t.Msg != nil {
			key := shmx.Kind(t.Msg)
			if d := t.Msg.GetDkgResult(); d != nil {
				key += fmt.Sprintf("(success=%v)", d.Success)
			}
			if a := t.Msg.GetAccusation(); a != nil {
				key += fmt.Sprintf("(%d accused)", len(a.Accused))
			}
			if a := t.Msg.GetApology(); a != nil {
				key += fmt.Sprintf("(%d accusers)", len(a.Accusers))
			}
			if e := t.Msg.GetPolyEval(); e != nil {
				key += fmt.Sprintf("(%d receivers)", len(e.Receivers))
			}
			run.SentOK[key] = true
		}
	}
	return run
}

func keysOf(m map[string]bool) string {
	var ks []string
	for k := range m {
		ks = append(ks, k)
	}
	sort.Strings(ks)
	return strings.Join(ks, ", ")
}

// c08Judge evaluates the oracle of a crash run against its twin.
func c08Judge(cs c08Case, run, twin *c08Run) {
	m := run.M
	w := run.W
	v := w.Keypers[cs.Victim]
	failf := func(sig, format string, args ...any) {
		if run.Sig == "" {
			run.Sig, run.Msg = sig, fmt.Sprintf(format, args...)
		}
	}
	// a divergence that follows a restart which loaded gob-mangled slots is
	// attributed to that defect
	attribute := func(sig string) string {
		if m.Vulnerable != "" {
			return "C08/restart-during-dealing-loses-commitment-slots"
		}
		return sig
	}
	// agreement with the other keypers (C07's oracle) is judged first: it is the
	// gravest consequence
	var eons []uint64
	for e := range w.EonStart {
		eons = append(eons, e)
	}
	sort.Slice(eons, func(i, j int) bool { return eons[i] < eons[j] })
	for _, e := range eons {
		if ver := w.CheckAgreement(e); ver.Signature != "" {
			if m.Vulnerable != "" {
				failf("C08/restart-during-dealing-honest-keypers-disagree-on-eon-key", "%s\n%s", ver.Message, m.Vulnerable)
			} else {
				failf(strings.Replace(ver.Signature, "C07/", "C08/agreement/", 1), "eon %d: %s", e, ver.Message)
			}
		}
	}
	if m.Sig != "" {
		failf(m.Sig, "%s", m.Msg)
	}
	if len(v.Panics) > 0 {
		failf("C08/keyper-panics-after-restart", "the victim's process ended by itself: %v", v.Panics)
	}
	if len(v.Errors) > 0 {
		failf("C08/keyper-loop-returns-error", "the victim's loop returned an error: %v", v.Errors)
	}
	// (1) every block applied exactly once, same final position as the twin
	cb, all := m.currentBlock()
	sort.Slice(all, func(i, j int) bool { return all[i] < all[j] })
	for i, b := range all {
		if b != int64(i) {
			failf("C08/block-not-applied-exactly-once", "tendermint_sync_meta holds current_block values %v: not every block exactly once", all)
			break
		}
	}
	if twin != nil {
		tcb, _ := twin.M.currentBlock()
		if cb != tcb {
			failf(attribute("C08/sync-position-differs-from-twin"), "at the horizon the victim has handled blocks up to %d, the crash-free twin up to %d", cb, tcb)
		}
		// state after each block == twin's (structure: row keys, phases, which slots are filled)
		var hs []int64
		for h := range twin.M.Structure {
			hs = append(hs, h)
		}
		sort.Slice(hs, func(i, j int) bool { return hs[i] < hs[j] })
		for _, h := range hs {
			got, ok := m.Structure[h]
			if !ok {
				continue
			}
			if got != twin.M.Structure[h] {
				failf(attribute("C08/state-after-block-differs-from-twin"), "after the commit of block %d the victim's database differs in structure from the crash-free twin's:\n%s\n%s", h, diffLines(twin.M.Structure[h], got), m.Vulnerable)
				break
			}
			if a, b := strings.Join(m.NewDescs[h], " | "), strings.Join(twin.M.NewDescs[h], " | "); a != b {
				failf(attribute("C08/messages-queued-by-block-differ-from-twin"), "the commit of block %d queued [%s], in the crash-free twin [%s]\n%s", h, a, b, m.Vulnerable)
				break
			}
		}
	}
	// (2) never two different commitments for one eon
	first := map[uint64][]byte{}
	for _, t := range w.Chain.Txs {
		if pc := t.Msg.GetPolyCommitment(); pc != nil && t.From == v.Address() {
			b := bytes.Join(pc.Gammas, nil)
			if f, ok := first[pc.Eon]; ok && !bytes.Equal(f, b) {
				failf("C08/two-different-commitments-sent", "the victim sent two different polynomial commitments for eon %d (second one in block %d)", pc.Eon, t.Height)
			} else if !ok {
				first[pc.Eon] = b
			}
		}
	}
	// (3) every evaluation sent verifies against the commitment on chain
	for _, t := range w.Chain.Txs {
		pe := t.Msg.GetPolyEval()
		if pe == nil || t.From != v.Address() || t.Check != 0 || t.Deliver != 0 {
			continue
		}
		cm := w.Commitments(pe.Eon)[cs.Victim]
		for i, rb := range pe.Receivers {
			ri := idxOf(common.BytesToAddress(rb), w.Spec.Setup.N)
			val := m.decrypt(ri, pe.EncryptedEvals[i])
			if cm == nil || val == nil || !shcrypto.VerifyPolyEval(ri, val, cm, uint64(w.Spec.Setup.T)) {
				failf("C08/sent-eval-does-not-verify", "the evaluation the victim sent to keyper %d in block %d does not decrypt/verify against the commitment it published", ri, t.Height)
			}
		}
	}
	// (4) outbox drained, messages reached the chain in outbox order
	ids, descs, _ := shmx.Outbox(v)
	if len(ids) > 0 {
		failf(attribute("C08/outbox-not-empty-at-quiescence"), "at the horizon (block %d) the victim's outbox still holds %v", w.Chain.Committed, descs)
	}
	var qids []int64
	for id := range m.ever {
		qids = append(qids, id)
	}
	sort.Slice(qids, func(i, j int) bool { return qids[i] < qids[j] })
	delivered := map[int64]bool{}
	last := int64(0)
	for _, t := range w.Chain.Txs {
		if t.From != v.Address() || t.Msg == nil {
			continue
		}
		match, earlier := int64(-1), int64(-1)
		for _, id := range qids {
			if proto.Equal(m.ever[id].Msg, t.Msg) {
				if id >= last && match < 0 {
					match = id
				}
				if id < last {
					earlier = id
				}
			}
		}
		switch {
		case match >= 0:
			last = match
			if t.Check == 0 {
				delivered[match] = true
			}
		case earlier >= 0:
			failf("C08/messages-sent-out-of-outbox-order", "block %d: the victim sent outbox message %d (%s) after message %d (%s)", t.Height, earlier, m.ever[earlier].Desc, last, m.ever[last].Desc)
		default:
			failf("C08/sent-message-was-never-queued", "block %d: the victim sent a %s message that no committed outbox row ever contained", t.Height, shmx.Kind(t.Msg))
		}
	}
	for _, id := range qids {
		if !delivered[id] && !strings.HasPrefix(m.ever[id].Desc, "new batch config") {
			failf(attribute("C08/queued-message-never-delivered"), "outbox message %d (%s) was committed to the outbox but never reached shuttermint", id, m.ever[id].Desc)
		}
	}
	// (5) same outcome as the twin, agreement with the other keypers
	if twin != nil {
		for _, i := range w.Honest {
			if run.Success[i] != twin.Success[i] {
				failf(attribute("C08/dkg-outcome-differs-from-twin"), "keyper %d ends the key generation with %q, in the crash-free twin with %q (victim is keyper %d)\n%s", i, run.Success[i], twin.Success[i], cs.Victim, m.Vulnerable)
				break
			}
		}
		if a, b := keysOf(run.SentOK), keysOf(twin.SentOK); a != b {
			failf(attribute("C08/messages-differ-from-twin"), "shuttermint accepted from the victim {%s}, in the crash-free twin {%s}\n%s", a, b, m.Vulnerable)
		}
	}
	var cl []string
	for _, i := range w.Honest {
		cl = append(cl, fmt.Sprintf("%d:%s", i, run.Success[i]))
	}
	run.Class = fmt.Sprintf("%s victim=%d restarts=%d injected-errors=%d: %s", cs.Scenario, cs.Victim, v.Restarts, len(v.Injected), strings.Join(cl, " "))
	if m.Vulnerable != "" {
		run.Class += " [reload point with gob-mangled empty slots]"
	}
}

// ---------- enumeration ----------

// c08Twin runs the crash-free twin and checks it against itself.
func c08Twin(scenario string, victim int) *c08Run {
	cs := c08Case{Scenario: scenario, Victim: victim}
	twin := c08Execute(cs, true)
	c08Judge(cs, twin, nil)
	return twin
}

// firstPoints lists the crash points of the twin's victim. With reduce, points
// that leave the same state after the restart are represented once:
//   - every statement of a transaction that does not commit (the transaction is
//     rolled back): "before BEGIN", "before COMMIT" and "after COMMIT" cover the
//     transaction;
//   - a read-only request (autocommit query, Block, BlockResults, BlockchainInfo)
//     leaves the same state whether or not it was executed: "before" only.
func firstPoints(twin *c08Run, reduce bool) []shmx.CrashPoint {
	var out []shmx.CrashPoint
	inTx := false
	for seq, l := range twin.RTLog {
		kind := strings.SplitN(l, " ", 2)[0]
		switch {
		case !reduce:
			out = append(out, shmx.CrashPoint{Seq: seq}, shmx.CrashPoint{Seq: seq, After: true})
		case kind == "begin":
			inTx = true
			out = append(out, shmx.CrashPoint{Seq: seq})
		case kind == "commit":
			inTx = false
			out = append(out, shmx.CrashPoint{Seq: seq}, shmx.CrashPoint{Seq: seq, After: true})
		case kind == "rollback":
			inTx = false
		case inTx:
		case kind == "query":
			out = append(out, shmx.CrashPoint{Seq: seq})
		default:
			out = append(out, shmx.CrashPoint{Seq: seq}, shmx.CrashPoint{Seq: seq, After: true})
		}
	}
	for seq, m := range twin.RPCLog {
		out = append(out, shmx.CrashPoint{RPC: true, Seq: seq})
		if !reduce || m == "BroadcastTxCommit" {
			out = append(out, shmx.CrashPoint{RPC: true, Seq: seq, After: true})
		}
	}
	return out
}

// errorPoints: every database round trip refused with an error, every RPC call
// failing before it is made or after the chain executed it. The process lives.
func errorPoints(twin *c08Run) []shmx.CrashPoint {
	var out []shmx.CrashPoint
	for seq := range twin.RTLog {
		out = append(out, shmx.CrashPoint{Seq: seq, Err: true})
	}
	for seq := range twin.RPCLog {
		out = append(out, shmx.CrashPoint{RPC: true, Seq: seq, Err: true}, shmx.CrashPoint{RPC: true, Seq: seq, After: true, Err: true})
	}
	return out
}

func c08() *report.Check {
	return &report.Check{
		Level: "fault_enumeration",
		Rule: "complete key generations (n=3, t=2) through fakeshm with real keypers on minipg; S1 all honest, S2 a scripted third keyper deals a wrong evaluation to the victim and accuses it falsely (the victim accuses and apologises), S3 all honest with the third keyper one block slower in the dealing phase, S4 / S5 all honest with the victim itself pausing one block at the start of the dealing / accusing phase (its next sync round then handles two blocks), S6 the first key generation fails on chain because the two other keypers sleep through its dealing phase and shuttermint restarts it as a second eon, which succeeds (crash points in both eons), S7 one of the other keypers is started late, so that its check-in (with its encryption key) arrives after the eon has started and the victim's evaluation for it waits in the database in between, S8 the scripted third keyper deals correctly, is not accused, and publishes an unsolicited apology with wrong values (the honest keypers exclude it), S9 all honest with the victim always taking its step last in a block (its messages, in particular its DKG result, are the last of their kind to reach shuttermint), S10 all honest with the victim (keyper 2) outside shuttermint's genesis configuration: it becomes a keyper and checks in only with the batch config of the new set, S11 all honest voting for the new set after its activation block has passed (the configuration is started right after it is accepted). A crash-free twin numbers the victim's database round trips (N) and shuttermint RPC calls (M). " +
			"quick: victim 0, all scenarios, every single crash point (single transient errors: S2 only): every round trip and every RPC call x {before it is sent, applied but reply lost}; additionally every single transient error (a database round trip refused, an RPC call failing before / after the chain executed it) after which the keyper re-enters its loop with the same in-memory objects. thorough: both victims, all scenarios, all single points, and for S1/S2 every pair (first point: every state-changing autocommit statement and BroadcastTxCommit in both modes, read-only requests before only, per transaction before BEGIN / before COMMIT / after COMMIT; second point: each of the next 60 round trips and 6 RPC calls after the restart, both modes). " +
			"A crash drops the open transaction and every in-memory object; the keyper is rebuilt like KeyperCore.Start and runs on to a fixed horizon. Oracle at every commit point of the victim's database: current_block advances by one, block-driven tables change only together with current_block, queued/sent commitments and evaluations equal the stored polynomial; at the horizon: every block once, one commitment per eon, sent evaluations verify, outbox empty and delivered in id order, same outcome / accepted message kinds / per-block database structure as the twin, C07's agreement oracle.",
		Assumptions: []string{
			"a restart completes within one block interval: the restarted keyper runs its loop again while the same block is open (so that a crash changes state, not timing)",
			"randomness is re-drawn after a crash; comparison with the twin is on structure (row keys, phases, filled slots, message kinds, outcome)",
			"outbox rows 'new batch config' may be deleted undelivered by handleBatchConfig (the repository's deliberate behaviour once the config is accepted)",
			"PostgreSQL semantics as implemented by minipg; a dropped connection rolls back its open transaction",
		},
		Shards: func(bool) int { return 16 },
		Budget: minutes(3, 23),
		Run: func(c *report.Ctx) {
			type job struct {
				scenario string
				victim   int
				errors   bool // also every single transient error
				pairs    bool // also crash pairs (thorough)
			}
			jobs := []job{{"S1", 0, false, true}, {"S2", 0, true, true}, {"S3", 0, false, false}, {"S4", 0, false, false}, {"S5", 0, false, false}, {"S6", 0, false, false}, {"S7", 0, false, false}, {"S8", 0, false, false}, {"S9", 0, false, false}, {"S10", 2, false, false}, {"S11", 0, false, false}}
			if c.Thorough {
				jobs = []job{{"S1", 0, true, true}, {"S2", 0, true, true}, {"S3", 0, true, false}, {"S1", 1, true, true}, {"S2", 1, true, true}, {"S3", 1, true, false},
					{"S4", 0, true, false}, {"S5", 0, true, false}, {"S4", 1, true, false}, {"S5", 1, true, false}, {"S6", 0, true, false}, {"S6", 1, false, false}, {"S7", 0, true, false}, {"S7", 1, true, false}, {"S8", 0, true, false}, {"S8", 1, true, false}, {"S9", 0, true, false}, {"S9", 1, true, false}, {"S10", 2, true, false}, {"S11", 0, true, false}, {"S11", 1, true, false}}
			}
			unit := 0
			runCase := func(cs c08Case, twin *c08Run) {
				run := c08Execute(cs, false)
				c08Judge(cs, run, twin)
				c.Stats.Evaluations++
				c.Stats.Class(run.Class)
				if vk := run.W.Keypers[cs.Victim]; len(vk.Crashes)+len(vk.Injected) < len(cs.Crash) {
					c.Stats.Count("crash_points_not_reached", 1)
				}
				if run.Sig != "" {
					c.Violation(run.Sig, fmt.Sprintf("scenario %s, victim keyper %d, fault at %v\nfired: %v %v\n%s", cs.Scenario, cs.Victim, cs.Crash, run.W.Keypers[cs.Victim].Crashes, run.W.Keypers[cs.Victim].Injected, run.Msg), cs)
				}
				if c.Stats.Evaluations%211 == 1 {
					c.Stats.Sample(map[string]any{"case": cs, "fired": run.W.Keypers[cs.Victim].Crashes, "outcome": run.Class})
					// determinism: the same case again gives the same observation
					again := c08Execute(cs, false)
					c.Stats.Count("determinism_self_checks", 1)
					if again.Obs != run.Obs {
						panic(fmt.Sprintf("C08 harness is not deterministic: case %+v gave two different observations", cs))
					}
				}
			}
			twins := map[job]*c08Run{}
			for _, j := range jobs {
				twin := c08Twin(j.scenario, j.victim)
				twins[j] = twin
				if c.Shard == 0 {
					c.Stats.Evaluations++
					c.Stats.Class(fmt.Sprintf("twin %s", twin.Class))
					c.Stats.SetExtra(fmt.Sprintf("twin_%s_victim%d", j.scenario, j.victim), map[string]any{
						"db_round_trips": twin.RT, "rpc_calls": twin.RPC, "commit_points": twin.M.Commits, "accepted_message_kinds": keysOf(twin.SentOK), "blocks": twin.W.Chain.Committed,
					})
					if twin.Sig != "" {
						c.Violation(twin.Sig, fmt.Sprintf("crash-free twin run of scenario %s (victim %d) violates the oracle: %s", j.scenario, j.victim, twin.Msg), c08Case{Scenario: j.scenario, Victim: j.victim})
					}
					for i, s := range twin.Success {
						if s != "success" {
							panic(fmt.Sprintf("C08: the crash-free twin of scenario %s does not succeed for keyper %d (%s): the base run is wrong", j.scenario, i, s))
						}
					}
				}
				// singles
				for _, p := range firstPoints(twin, false) {
					unit++
					if unit%c.NShards != c.Shard {
						continue
					}
					if c.Expired() {
						c.Stats.Cap("deadline during single crash points")
						return
					}
					runCase(c08Case{Scenario: j.scenario, Victim: j.victim, Crash: []shmx.CrashPoint{p}}, twin)
					c.Stats.Count("single_crash_runs", 1)
				}
				// single transient errors (no crash, the keyper keeps its objects)
				for _, p := range errorPoints(twin) {
					if !j.errors {
						break
					}
					unit++
					if unit%c.NShards != c.Shard {
						continue
					}
					if c.Expired() {
						c.Stats.Cap("deadline during single error points")
						return
					}
					runCase(c08Case{Scenario: j.scenario, Victim: j.victim, Crash: []shmx.CrashPoint{p}}, twin)
					c.Stats.Count("single_error_runs", 1)
				}
			}
			if !c.Thorough {
				return
			}
			// pairs, nearest second point first so that a cap cuts the far ones
			for d := 0; d < c08PairWindow; d++ {
				for _, j := range jobs {
					if !j.pairs {
						continue
					}
					twin := twins[j]
					for _, p := range firstPoints(twin, true) {
						for _, after := range []bool{false, true} {
							unit++
							if unit%c.NShards != c.Shard {
								continue
							}
							if c.Expired() {
								c.Stats.Cap(fmt.Sprintf("deadline during crash pairs (second point %d round trips after the restart)", d))
								return
							}
							runCase(c08Case{Scenario: j.scenario, Victim: j.victim, Crash: []shmx.CrashPoint{p, {Seq: d, Rel: true, After: after}}}, twin)
							c.Stats.Count("pair_crash_runs", 1)
							if d < c08PairRPCWindow {
								runCase(c08Case{Scenario: j.scenario, Victim: j.victim, Crash: []shmx.CrashPoint{p, {RPC: true, Seq: d, Rel: true, After: after}}}, twin)
								c.Stats.Count("pair_crash_runs", 1)
							}
						}
					}
				}
				c.Stats.SetExtra("pair_window_completed", d+1)
			}
		},
		Replay: func(c *report.Ctx, raw json.RawMessage) string {
			var cs c08Case
			if err := json.Unmarshal(raw, &cs); err != nil {
				return err.Error()
			}
			twin := c08Twin(cs.Scenario, cs.Victim)
			if len(cs.Crash) == 0 {
				if twin.Sig != "" {
					return "[" + twin.Sig + "] " + twin.Msg
				}
				return ""
			}
			run := c08Execute(cs, false)
			c08Judge(cs, run, twin)
			if run.Sig != "" {
				return fmt.Sprintf("[%s] fault at %v (fired: %v %v)\n%s\nsteps: %v", run.Sig, cs.Crash, run.W.Keypers[cs.Victim].Crashes, run.W.Keypers[cs.Victim].Injected, run.Msg, run.W.StepLog)
			}
			return ""
		},
	}
}
