package main

import (
	"testing"

	"verif/harness/shmx"
)

func TestDbgS2(t *testing.T) {
	twin := c08Twin("S2", 0)
	for _, seq := range []int{164, 200} {
		cs := c08Case{Scenario: "S2", Victim: 0, Crash: []shmx.CrashPoint{{Seq: seq, After: true}}}
		run := c08Execute(cs, false)
		c08Judge(cs, run, twin)
		v := run.W.CheckAgreement(1)
		t.Logf("seq %d fired=%v\n vulnerable=%s\n agreement sig=%s msg=%s class=%s", seq, run.W.Keypers[0].Crashes, run.M.Vulnerable, v.Signature, v.Message, v.Class)
		for _, x := range run.W.Chain.Txs {
			if x.Height >= 8 {
				t.Logf("h=%d from=%d %s deliver=%d", x.Height, run.W.Keypers[0].Idx, shmx.Kind(x.Msg), x.Deliver)
			}
		}
	}
}
