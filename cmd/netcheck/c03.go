package main

import (
	"bytes"
	"context"
	"crypto/sha256"
	"encoding/json"
	"fmt"
	"os"
	"runtime"
	"runtime/debug"
	"sort"
	"strings"

	"github.com/jackc/pgx/v4/minipg"

	obskeyper "github.com/shutter-network/rolling-shutter/rolling-shutter/chainobserver/db/keyper"
	"github.com/shutter-network/rolling-shutter/rolling-shutter/gnosisaccessnode"
	kprdb "github.com/shutter-network/rolling-shutter/rolling-shutter/keyper/database"
	gnosisdb "github.com/shutter-network/rolling-shutter/rolling-shutter/keyperimpl/gnosis/database"
	"github.com/shutter-network/rolling-shutter/rolling-shutter/medley/identitypreimage"
	"github.com/shutter-network/rolling-shutter/rolling-shutter/p2pmsg"
	"github.com/shutter-network/rolling-shutter/rolling-shutter/shdb"

	"verif/explore"
	"verif/harness/kpx"
	"verif/report"
)

// C03 — every honest keyper obtains the correct key under any gossip delivery order.
//
// Explicit-state BFS over a network of n=3 real nodes (t=2) per flavour. A state
// is the three node databases plus the set of in-flight (message, receiver)
// pairs; transitions are Trigger(i), Deliver(m -> j), Duplicate(m -> j) and
// Drop(share m -> j), each executed on the real validators, handlers,
// middleware and KeyShareHandler of the node involved.

const (
	c03Set   = 3 // default keyper set (config) index; c03cfg.Set overrides it
	c03N     = 3
	c03T     = 2
	c03Block = 5
)

var c03members = []int{30, 31, 32}

type flight struct {
	Topic string
	Data  []byte
	Dest  int    // node index
	Kind  string // shares | keys
	From  int
}

func (f flight) id() string {
	h := sha256.Sum256(f.Data)
	return fmt.Sprintf("%s:%x->%d", f.Kind, h[:6], f.Dest)
}

type c03cfg struct {
	Flavour   string `json:"flavour"`
	NumIDs    int    `json:"identities"`
	Triggered []int  `json:"triggered"` // node indices that get triggered
	Dups      int    `json:"duplicate_budget"`
	Drops     int    `json:"drops_per_receiver"`
	Pre       []int  `json:"pre_triggered,omitempty"`         // nodes whose trigger happens before any delivery (restricts the schedules explored)
	DupTx     bool   `json:"duplicate_tx_identity,omitempty"` // Gnosis: the same (prefix, sender) is queued twice, so the trigger lists one identity twice
	// Rounds == 2 (core, service): every triggered node is triggered twice, first for
	// the first identity only (block c03Block), then for all identities (next
	// block): overlapping identity lists, the second trigger at any time after the first.
	Rounds int `json:"rounds,omitempty"`
	// R1 (with Rounds == 2 and Pre): how far the first round got, in the default
	// order, before the exploration starts: "all" = every message of the first round
	// delivered, "dest<j>" = only those addressed to node j (node j holds the first
	// key, the others do not yet), "" = nothing (the full interleaving of both rounds).
	R1 string `json:"first_round_delivered,omitempty"`
	// Set: keyper set (config) index, 0 = c03Set. With an index below n the set index
	// coincides with the index of one of the keypers.
	Set int `json:"keyper_set_index,omitempty"`
	// TxOrder (Gnosis): order of the queued transactions' identity prefixes in queue
	// order: "" ascending, "desc" descending, "mid" the largest in the middle.
	TxOrder string `json:"tx_queue_order,omitempty"`
}

type c03state struct {
	dbs       [c03N]*minipg.DB
	inflight  []flight        // sorted by id
	delivered map[string]bool // flight ids already delivered (re-emissions of the same content are gossip duplicates)
	triggered [c03N]bool
	round2    [c03N]bool // second trigger (overlapping identity list) done
	dups      int
	drops     [c03N]int
	keysSent  int // keys messages published network-wide
	path      []string
}

type c03net struct {
	set    int64
	cfg    c03cfg
	keys   *kpx.EonSet
	ids    []identitypreimage.IdentityPreimage
	spec   kpx.NodeSpec
	access *kpx.Capture
}

func newC03net(cfg c03cfg) *c03net {
	net := &c03net{cfg: cfg, keys: kpx.NewEonSet(c03N, c03T, "c03"), set: c03Set}
	if cfg.Set > 0 {
		net.set = int64(cfg.Set)
	}
	net.spec = kpx.NodeSpec{Flavour: cfg.Flavour, CfgIndex: net.set, Members: c03members, Threshold: c03T, Activation: 0, Eon: 5, Keys: net.keys, MaxKeys: uint64(cfg.NumIDs), State: kpx.Success} // messages are exactly as large as the configured maximum
	switch cfg.Flavour {
	case "gnosis":
		// identities are decided by the real triggerDecryption from the queue
	case "service":
		for i := 0; i < cfg.NumIDs; i++ {
			id := make([]byte, 32)
			id[0], id[31] = byte(0x40+i), byte(i)
			net.ids = append(net.ids, id)
		}
	default:
		for i := 0; i < cfg.NumIDs; i++ {
			net.ids = append(net.ids, []byte(fmt.Sprintf("core-identity-%d-0123456789", i)))
		}
	}
	if cfg.Flavour == "gnosis" {
		st := gnosisaccessnode.NewStorage()
		st.AddKeyperSet(uint64(net.set), &obskeyper.KeyperSet{KeyperConfigIndex: net.set, Keypers: shdb.EncodeAddresses(kpx.Addrs(c03members...)), Threshold: c03T})
		st.AddEonKey(uint64(net.set), net.keys.PublicKey)
		net.access = kpx.NewCapture()
		net.access.AddMessageHandler(gnosisaccessnode.NewDecryptionKeysHandler(&gnosisaccessnode.Config{InstanceID: kpx.InstanceID, MaxNumKeysPerMessage: uint64(cfg.NumIDs)}, st))
	}
	return net
}

func (net *c03net) initial() *c03state {
	s := &c03state{delivered: map[string]bool{}}
	defer func() {
		if net.cfg.Flavour == "gnosis" && net.ids == nil {
			// the identities honest keypers are triggered for: what the real
			// triggerDecryption selects on the initial state (dry run on a copy)
			n := kpx.NodeOnDB(net.spec, c03members[0], s.dbs[0].Clone())
			ks, err := obskeyper.New(n.Pool).GetKeyperSetByKeyperConfigIndex(context.Background(), net.set)
			kpx.Must(err)
			kpx.Must(n.Gnosis.VerifTriggerDecryption(context.Background(), 77, c03Block, &ks))
			net.ids = (<-n.Triggers).Value.IdentityPreimages
		}
	}()
	for i := 0; i < c03N; i++ {
		n := kpx.NewNode(net.spec, c03members[i])
		if net.cfg.Flavour == "gnosis" {
			// one queued transaction per extra identity
			q := gnosisdb.New(n.Pool)
			for k := 0; k < net.cfg.NumIDs-1; k++ {
				prefix := make([]byte, 32)
				prefix[0], prefix[31] = byte(0xa0+k), byte(k)
				switch net.cfg.TxOrder {
				case "desc":
					prefix[0] = byte(0xa0 + net.cfg.NumIDs - 2 - k)
				case "mid":
					prefix[0] = byte(0xa0 + []int{1, 2, 0, 3, 4, 5, 6}[k])
				}
				sender := kpx.Addr(200 + k)
				if net.cfg.DupTx {
					prefix[0], prefix[31] = 0xa0, 0
					sender = kpx.Addr(200)
				}
				_, err := q.InsertTransactionSubmittedEvent(context.Background(), gnosisdb.InsertTransactionSubmittedEventParams{
					Index: int64(k), BlockNumber: 3, BlockHash: []byte{1}, Eon: net.set, IdentityPrefix: prefix, Sender: shdb.EncodeAddress(sender), GasLimit: 21000,
				})
				kpx.Must(err)
			}
		}
		s.dbs[i] = n.Pool.DB()
	}
	return s
}

func (s *c03state) clone() *c03state {
	n := *s
	n.inflight = append([]flight{}, s.inflight...)
	n.delivered = map[string]bool{}
	for k := range s.delivered {
		n.delivered[k] = true
	}
	n.path = append([]string{}, s.path...)
	return &n
}

func (s *c03state) addFlight(f flight) {
	id := f.id()
	if s.delivered[id] {
		return
	}
	for _, x := range s.inflight {
		if x.id() == id {
			return
		}
	}
	s.inflight = append(s.inflight, f)
	sort.Slice(s.inflight, func(i, j int) bool { return s.inflight[i].id() < s.inflight[j].id() })
}

func (net *c03net) key(s *c03state) string {
	var sb strings.Builder
	for i := 0; i < c03N; i++ {
		sb.WriteString(s.dbs[i].Dump("decryption_key", "decryption_key_share", "slot_decryption_signatures", "decryption_signatures", "current_decryption_trigger", "tx_pointer"))
		sb.WriteString("|")
	}
	for _, f := range s.inflight {
		sb.WriteString(f.id())
		sb.WriteString(",")
	}
	var del []string
	for k := range s.delivered {
		del = append(del, k)
	}
	sort.Strings(del)
	fmt.Fprintf(&sb, "|%v|%v|%v|%d|%v|%d", del, s.triggered, s.round2, s.dups, s.drops, minI(s.keysSent, 1))
	return sb.String()
}

func minI(a, b int) int {
	if a < b {
		return a
	}
	return b
}

// publish adds the messages node i published to the in-flight set and applies
// the per-message oracles (every keys message is accepted by the access node).
func (net *c03net) publish(s *c03state, i int, msgs []p2pmsg.Message) string {
	for _, m := range msgs {
		kind := ""
		switch mm := m.(type) {
		case *p2pmsg.DecryptionKeyShares:
			kind = "shares"
		case *p2pmsg.DecryptionKeys:
			kind = "keys"
			s.keysSent++
			for k, key := range mm.Keys {
				if !bytes.Equal(key.Key, net.keys.Key(key.IdentityPreimage).Marshal()) {
					return fmt.Sprintf("node %d published a keys message whose key %d is not the correct epoch secret key", i, k)
				}
			}
			if net.access != nil {
				d := kpx.Deliver(net.access.P2PMessaging, m.Topic(), kpx.Envelope(m))
				if d.Panic != "" {
					return "access node panics: " + d.Panic
				}
				if d.Verdict != 0 {
					return fmt.Sprintf("keys message published by node %d is not accepted by the access node (%s)", i, d.VerdictString())
				}
			}
		default:
			continue
		}
		data := kpx.Envelope(m)
		for j := 0; j < c03N; j++ {
			if j != i {
				s.addFlight(flight{Topic: m.Topic(), Data: data, Dest: j, Kind: kind, From: i})
			}
		}
	}
	return ""
}

func (net *c03net) hasAllKeys(db *minipg.DB, ids []identitypreimage.IdentityPreimage) (bool, string) {
	pool := kpx.PoolOn(db)
	q := kprdb.New(pool)
	for _, id := range ids {
		row, err := q.GetDecryptionKey(context.Background(), kprdb.GetDecryptionKeyParams{Eon: net.set, EpochID: id})
		if err != nil {
			return false, ""
		}
		if !bytes.Equal(row.DecryptionKey, net.keys.Key(id).Marshal()) {
			return true, fmt.Sprintf("stored key for identity %x is not the correct epoch secret key", id[:4])
		}
	}
	return true, ""
}

// identities of the run (for gnosis decided by the first real trigger)
func (net *c03net) identities() []identitypreimage.IdentityPreimage { return net.ids }

// trigger: node i gets its decryption trigger and publishes its shares.
func (net *c03net) trigger(s *c03state, i int) string {
	n := kpx.NodeOnDB(net.spec, c03members[i], s.dbs[i].Clone())
	ids := net.ids
	block := uint64(c03Block)
	if net.cfg.Rounds == 2 {
		if !s.triggered[i] {
			ids = net.ids[:1]
		} else {
			block++
			s.round2[i] = true
		}
	}
	if net.cfg.Flavour == "gnosis" {
		ks, err := obskeyper.New(n.Pool).GetKeyperSetByKeyperConfigIndex(context.Background(), net.set)
		kpx.Must(err)
		if err := n.Gnosis.VerifTriggerDecryption(context.Background(), 77, c03Block, &ks); err != nil {
			return "triggerDecryption: " + err.Error()
		}
		ev := <-n.Triggers
		ids = ev.Value.IdentityPreimages
	}
	out, err := n.Trigger(block, ids)
	if err != nil {
		return fmt.Sprintf("node %d cannot produce its key shares: %v", i, err)
	}
	hadShare := false
	for _, m := range out {
		if _, ok := m.(*p2pmsg.DecryptionKeyShares); ok {
			hadShare = true
		}
	}
	if !hadShare {
		return fmt.Sprintf("triggered node %d published no key shares message", i)
	}
	s.dbs[i] = n.Pool.DB()
	s.triggered[i] = true
	return net.publish(s, i, out)
}

// deliver hands flight f to its destination.
func (net *c03net) deliver(s *c03state, f flight) string {
	j := f.Dest
	n := kpx.NodeOnDB(net.spec, c03members[j], s.dbs[j].Clone())
	ids := net.ids
	had, _ := net.hasAllKeys(n.Pool.DB(), ids)
	d, out := n.Receive(f.Topic, f.Data)
	if d.Panic != "" {
		return fmt.Sprintf("node %d panics on a %s message of node %d: %s", j, f.Kind, f.From, d.Panic)
	}
	if d.Verdict != 0 {
		return fmt.Sprintf("honest %s message of node %d is not accepted by node %d (%s)", f.Kind, f.From, j, d.VerdictString())
	}
	if d.Err != nil {
		return fmt.Sprintf("node %d fails to handle the honest %s message of node %d: %v", j, f.Kind, f.From, d.Err)
	}
	has, bad := net.hasAllKeys(n.Pool.DB(), ids)
	if bad != "" {
		return fmt.Sprintf("node %d: %s", j, bad)
	}
	emitted := false
	for _, m := range out {
		if _, ok := m.(*p2pmsg.DecryptionKeys); ok {
			emitted = true
		}
	}
	if f.Kind == "shares" && !had && has && !emitted {
		// completed aggregation from shares in this step
		if net.cfg.Flavour == "core" || s.triggered[j] {
			return fmt.Sprintf("node %d completed the keys from shares in this step but published no keys message", j)
		}
	}
	s.dbs[j] = n.Pool.DB()
	return net.publish(s, j, out)
}

type c03Replay struct {
	Cfg  c03cfg   `json:"cfg"`
	Path []string `json:"path"`
}

func (net *c03net) quiescent(s *c03state) string {
	// every node that could have obtained the keys holds them, all identical and correct
	ids := net.ids
	for j := 0; j < c03N; j++ {
		has, bad := net.hasAllKeys(s.dbs[j], ids)
		if bad != "" {
			return fmt.Sprintf("node %d: %s", j, bad)
		}
		if !has {
			return fmt.Sprintf("at quiescence node %d does not hold the decryption keys (triggered %v, drops %v)", j, s.triggered, s.drops)
		}
	}
	if s.keysSent == 0 {
		return "no keys message was published by anybody"
	}
	return ""
}

func (net *c03net) run(c *report.Ctx, label string) {
	cfg := net.cfg
	init := net.initial()
	for _, i := range cfg.Pre {
		if msg := net.trigger(init, i); msg != "" {
			c.Violation("C03/"+cfg.Flavour+"/other", label+": pre-trigger: "+msg, c03Replay{cfg, nil})
			return
		}
	}
	for cfg.R1 != "" {
		var next *flight
		for k := range init.inflight {
			f := init.inflight[k]
			if cfg.R1 == "all" || cfg.R1 == fmt.Sprintf("dest%d", f.Dest) {
				next = &f
				init.inflight = append(append([]flight{}, init.inflight[:k]...), init.inflight[k+1:]...)
				break
			}
		}
		if next == nil {
			break
		}
		init.delivered[next.id()] = true
		init.path = append(init.path, "deliver("+next.id()+")")
		if msg := net.deliver(init, *next); msg != "" {
			c.Violation("C03/"+cfg.Flavour+"/other", fmt.Sprintf("%s: first round, %v: %s", label, init.path, msg), c03Replay{cfg, init.path})
			return
		}
	}
	inS := map[int]bool{}
	for _, i := range cfg.Triggered {
		inS[i] = true
	}
	fail := func(s *c03state, step, msg string) {
		sig := "C03/" + cfg.Flavour + "/"
		switch {
		case strings.Contains(msg, "not accepted"):
			sig += "honest-message-rejected"
		case strings.Contains(msg, "at quiescence"):
			sig += "node-without-keys-at-quiescence"
		case strings.Contains(msg, "panics"):
			sig += "panic"
		default:
			sig += "other"
		}
		c.Violation(sig, fmt.Sprintf("%s, after %v then %s: %s", label, s.path, step, msg), c03Replay{cfg, append(append([]string{}, s.path...), step)})
	}
	var b *explore.BFS[*c03state]
	par := 2
	if len(cfg.Triggered) == 3 {
		par = 12
		runtime.GOMAXPROCS(12)
	}
	b = &explore.BFS[*c03state]{
		MaxDepth: 200, Deadline: c.Deadline, Parallel: par,
		Key: func(s *c03state) string { return net.key(s) },
		Expand: func(s *c03state, depth int, _ []string, emit func(string, *c03state)) {
			enabled := 0
			step := func(name string, f func(ns *c03state) string) {
				enabled++
				ns := s.clone()
				c.Stats.Add(1, 1)
				msg := ""
				func() {
					defer func() {
						if p := recover(); p != nil {
							msg = fmt.Sprintf("panics: %v\n%s", p, debug.Stack())
						}
					}()
					msg = f(ns)
				}()
				if msg != "" {
					fail(s, name, msg)
					b.Stop = true
					return
				}
				ns.path = append(ns.path, name)
				emit(name, ns)
			}
			for i := 0; i < c03N && !b.Stop; i++ {
				if inS[i] && (!s.triggered[i] || cfg.Rounds == 2 && !s.round2[i]) {
					i := i
					step(fmt.Sprintf("trigger(%d)", i), func(ns *c03state) string { return net.trigger(ns, i) })
				}
			}
			for fi, f := range s.inflight {
				if b.Stop {
					return
				}
				fi, f := fi, f
				remove := func(ns *c03state) {
					ns.inflight = append(append([]flight{}, ns.inflight[:fi]...), ns.inflight[fi+1:]...)
				}
				step("deliver("+f.id()+")", func(ns *c03state) string {
					remove(ns)
					ns.delivered[f.id()] = true
					c.Stats.Class(cfg.Flavour + ": " + f.Kind + " delivered")
					return net.deliver(ns, f)
				})
				if s.dups < cfg.Dups && !b.Stop {
					step("duplicate("+f.id()+")", func(ns *c03state) string {
						ns.dups++
						c.Stats.Class(cfg.Flavour + ": " + f.Kind + " delivered and kept in flight (duplicate)")
						return net.deliver(ns, f) // stays in flight: will be delivered again
					})
				}
				if f.Kind == "shares" && s.drops[f.Dest] < cfg.Drops && !b.Stop {
					step("drop("+f.id()+")", func(ns *c03state) string {
						remove(ns)
						ns.delivered[f.id()] = true
						ns.drops[f.Dest]++
						c.Stats.Class(cfg.Flavour + ": shares message lost")
						return ""
					})
				}
			}
			if enabled == 0 {
				c.Stats.Count("quiescent_states", 1)
				if msg := net.quiescent(s); msg != "" {
					fail(s, "(quiescent)", msg)
					b.Stop = true
					return
				}
				c.Stats.Class(fmt.Sprintf("%s: quiescent with all keys everywhere (%d keys messages published)", cfg.Flavour, minI(s.keysSent, 3)))
			}
		},
	}
	b.Run([]*c03state{init})
	c.Stats.States += int64(b.States)
	c.Stats.Transitions += int64(b.Transitions)
	if b.Capped != "" {
		c.Stats.Cap(fmt.Sprintf("%s: %s at depth %d", label, b.Capped, b.DepthDone))
	}
	c.Stats.SetExtra(label, map[string]any{"states": b.States, "transitions": b.Transitions, "depth": b.DepthDone})
}

func c03() *report.Check {
	return &report.Check{
		Level: "model_checking",
		Rule:  "explicit-state BFS over a network of 3 real nodes (t=2) per flavour (core, Gnosis, Shutter service): state = three node databases + in-flight (message, receiver) set; transitions Trigger(i) for every chosen subset of >= t nodes, Deliver, Duplicate (bounded), Drop of share messages (bounded per receiver so that every receiver keeps >= t shares); configurations with two trigger rounds per node and overlapping identity lists ({A} then {A,B}); every transition runs the real validators / handlers / middleware / KeyShareHandler; oracles: honest messages accepted, every published key correct and accepted by the access node (Gnosis), a triggered node that completes the keys from shares publishes them, at quiescence every node holds all correct keys and at least one keys message was published. Classes = kinds of transition and quiescent outcomes per flavour",
		Assumptions: []string{
			"gossip is modelled as a set of (content, receiver) pairs: a re-emitted identical message is a duplicate of the first (libp2p's seen-cache); real mesh behaviour (scoring, fan-out) is outside",
			"share messages may be lost only as long as every receiver still obtains t shares (own included); keys messages are not lost",
			"PostgreSQL semantics as implemented by minipg; handlers of one node run one at a time (A-ISO)",
		},
		Shards: func(bool) int { return 16 },
		Budget: minutes(3, 25),
		Run: func(c *report.Ctx) {
			var cfgs []c03cfg
			subsets := [][]int{{0, 1, 2}, {0, 1}, {0, 2}, {1, 2}}
			for _, fl := range []string{"core", "gnosis", "service"} {
				for _, sub := range subsets {
					drops := 0
					if len(sub) == 3 {
						drops = 1
					}
					if c.Thorough {
						for _, nid := range []int{1, 2} {
							cfgs = append(cfgs, c03cfg{fl, nid, sub, 1, drops, nil, false, 0, "", 0, ""})
						}
					} else {
						nid := 1
						if fl == "gnosis" {
							nid = 2
						}
						switch {
						case len(sub) < 3:
							cfgs = append(cfgs, c03cfg{fl, nid, sub, 0, 0, nil, false, 0, "", 0, ""})
							if fl == "core" {
								cfgs = append(cfgs, c03cfg{fl, 1, sub, 1, 0, nil, false, 0, "", 0, ""})
							}
						case fl == "core":
							cfgs = append(cfgs, c03cfg{fl, nid, sub, 0, 0, nil, false, 0, "", 0, ""})
						default:
							// quick: two triggers happen before any delivery, the third at any time
							pre := []int{0, 1}
							if fl == "service" {
								pre = []int{0, 1, 2} // the late-trigger schedules of this flavour are left to the thorough tier
							}
							cfgs = append(cfgs, c03cfg{fl, nid, sub, 0, 0, pre, false, 0, "", 0, ""})
						}
					}
				}
			}
			// Gnosis: one sender submitted the same identity prefix twice (legal): honest
			// shares / keys messages then carry equal neighbouring identities
			cfgs = append(cfgs, c03cfg{Flavour: "gnosis", NumIDs: 3, Triggered: []int{0, 1}, DupTx: true}, c03cfg{Flavour: "gnosis", NumIDs: 3, Triggered: []int{1, 2}, DupTx: true})
			// Gnosis: queued transactions whose identities are not ascending in queue order
			// (the trigger's identity list has to be sorted by the keyper)
			cfgs = append(cfgs, c03cfg{Flavour: "gnosis", NumIDs: 3, Triggered: []int{0, 1}, TxOrder: "desc"}, c03cfg{Flavour: "gnosis", NumIDs: 4, Triggered: []int{0, 2}, TxOrder: "mid"})
			if c.Thorough {
				cfgs = append(cfgs, c03cfg{Flavour: "gnosis", NumIDs: 3, Triggered: []int{0, 1, 2}, Drops: 1, TxOrder: "desc"}, c03cfg{Flavour: "gnosis", NumIDs: 4, Triggered: []int{1, 2}, TxOrder: "desc"})
			}
			// keyper set index equal to the index of one of the keypers (1): every flavour,
			// every pair of triggered nodes
			for _, fl := range []string{"core", "gnosis", "service"} {
				nid := 1
				if fl == "gnosis" {
					nid = 2
				}
				for _, sub := range subsets[1:] {
					cfgs = append(cfgs, c03cfg{Flavour: fl, NumIDs: nid, Triggered: sub, Set: 1})
				}
			}
			// overlapping identity lists: trigger for {A}, then for {A,B}
			for _, fl := range []string{"core", "service"} {
				// quick: the first round's triggers happen before any delivery
				for _, r1 := range []string{"all", "dest2", "dest0", "dest1"} {
					if !c.Thorough && (r1 == "dest0" || r1 == "dest1") {
						continue // the two largest families are left to the thorough tier
					}
					cfgs = append(cfgs, c03cfg{Flavour: fl, NumIDs: 2, Triggered: []int{0, 1}, Rounds: 2, Pre: []int{0, 1}, R1: r1})
					if c.Thorough {
						cfgs = append(cfgs, c03cfg{Flavour: fl, NumIDs: 3, Triggered: []int{1, 2}, Rounds: 2, Pre: []int{1, 2}, R1: r1})
					}
				}
				if c.Thorough {
					cfgs = append(cfgs, c03cfg{Flavour: fl, NumIDs: 2, Triggered: []int{0, 1}, Rounds: 2, Pre: []int{0, 1}}, c03cfg{Flavour: fl, NumIDs: 2, Triggered: []int{1, 2}, Rounds: 2, Pre: []int{1, 2}})
					cfgs = append(cfgs, c03cfg{Flavour: fl, NumIDs: 2, Triggered: []int{0, 1}, Rounds: 2}, c03cfg{Flavour: fl, NumIDs: 2, Triggered: []int{1, 2}, Rounds: 2},
						c03cfg{Flavour: fl, NumIDs: 3, Triggered: []int{0, 2}, Rounds: 2}, c03cfg{Flavour: fl, NumIDs: 2, Triggered: []int{0, 1, 2}, Rounds: 2, Pre: []int{0, 1}})
				}
			}
			for i, cfg := range cfgs {
				if i%c.NShards != c.Shard {
					continue
				}
				b, _ := json.Marshal(cfg)
				if only := os.Getenv("VERIF_C03_ONLY"); only != "" && !strings.Contains(string(b), only) {
					continue // development aid: run one family of configurations
				}
				net := newC03net(cfg)
				net.run(c, string(b))
				if i == 0 {
					c.Stats.Sample(map[string]any{"config": cfg, "identities": fmt.Sprintf("%x", net.ids)})
				}
			}
		},
		Replay: func(c *report.Ctx, raw json.RawMessage) string {
			var rp c03Replay
			if err := json.Unmarshal(raw, &rp); err != nil {
				return err.Error()
			}
			net := newC03net(rp.Cfg)
			s := net.initial()
			for _, i := range rp.Cfg.Pre {
				if msg := net.trigger(s, i); msg != "" {
					return msg
				}
			}
			for _, step := range rp.Path {
				var msg string
				switch {
				case strings.HasPrefix(step, "trigger("):
					var i int
					fmt.Sscanf(step, "trigger(%d)", &i)
					msg = net.trigger(s, i)
				case step == "(quiescent)":
					msg = net.quiescent(s)
				default:
					op := step[:strings.Index(step, "(")]
					id := step[strings.Index(step, "(")+1 : len(step)-1]
					found := false
					for fi, f := range s.inflight {
						if f.id() != id {
							continue
						}
						found = true
						switch op {
						case "deliver":
							s.inflight = append(append([]flight{}, s.inflight[:fi]...), s.inflight[fi+1:]...)
							s.delivered[id] = true
							msg = net.deliver(s, f)
						case "duplicate":
							s.dups++
							msg = net.deliver(s, f)
						case "drop":
							s.inflight = append(append([]flight{}, s.inflight[:fi]...), s.inflight[fi+1:]...)
							s.delivered[id] = true
							s.drops[f.Dest]++
						}
						break
					}
					if !found {
						return "replay: flight " + id + " not in flight (nondeterministic message bytes?)"
					}
				}
				if msg != "" {
					return msg
				}
			}
			return ""
		},
	}
}
