// Command netcheck holds the multi-node / all-flavour gossip checks:
// C03 (delivery orders in a 3-node network) and C05 (hostile bytes on every topic).
package main

import (
	"time"

	"verif/report"
)

func main() {
	report.Main(map[string]*report.Check{
		"C03": c03(),
		"C05": c05(),
	})
}

func minutes(quick, thorough float64) func(bool) time.Duration {
	return func(t bool) time.Duration {
		if t {
			return time.Duration(thorough * float64(time.Minute))
		}
		return time.Duration(quick * float64(time.Minute))
	}
}
