// Command apicheck holds the check of the keyper's HTTP API read-only mode
// (C18). Every evaluation is a request served by the real router of
// rolling-shutter/keyper/kprapi.
package main

import (
	"verif/report"
)

func main() {
	report.Main(map[string]*report.Check{
		"C18": c18(),
	})
}
