package main

import (
	"encoding/json"
	"fmt"
	"github.com/jackc/pgx/v4/minipg"
	"regexp"
	"strings"
	"time"

	"github.com/getkin/kin-openapi/openapi3"

	"verif/explore"
	"verif/harness/apix"
	"verif/maporder"
	"verif/report"
)

// C18 — read-only mode blocks every state-changing HTTP endpoint.
//
// Bounded-exhaustive request enumeration against the real router
// (kprapi.NewHTTPService + VerifRouter) under httptest, once with write
// operations off and once on, every request built by net/http's own request
// parser from its wire form:
//
//	methods {GET,POST,PUT,DELETE,PATCH,HEAD,OPTIONS}
//	x paths generated from every template of the embedded OpenAPI document
//	  (parameter substitution, spelling mutations, prefix variants, dot
//	  segments, %-encodings, query strings) plus URL objects whose RawPath
//	  disagrees with Path
//	x bodies {none, minimal valid JSON of an operation, garbage}
//	x every iteration order of every map range in keyper/kproapi met while
//	  serving the request (stateless DFS over the map-order seam).
//
// "Reached operation X" is decided by either of two observations: (1) the
// effect only X has (a receive on the shutdown / trigger channel, a database
// write, a p2p send); (2) the routing context of the inner chi router, which
// records the pattern of the endpoint whose handler it invoked (the context is
// pre-allocated by the harness so that it can be read afterwards; chi uses a
// caller-supplied context instead of a pooled one, the request is otherwise
// served identically, and every request is additionally served without it and
// the two answers are compared).

type c18Replay struct {
	Request apix.Request `json:"request"`
	Choices []int        `json:"maporder_choices,omitempty"`
	Oracle  string       `json:"oracle"`
	// Then: a second request served after Request on the same servers (oracle "history")
	Then *apix.Request `json:"then,omitempty"`
	// oracle "handler-fault": the database fails at this round trip of the request
	FaultAt   int    `json:"fault_at_round_trip,omitempty"`
	FaultMode string `json:"fault_mode,omitempty"`
	// document variant (x-read-only mark of one operation changed)
	IsVariant   bool   `json:"is_variant,omitempty"`
	VarTemplate string `json:"var_template,omitempty"`
	VarMethod   string `json:"var_method,omitempty"`
	VarMark     int    `json:"var_mark,omitempty"`
	// OnFirst: the server with write operations enabled was set up before the
	// read-only one in the process (filled in from c18OnFirst when the file is written)
	OnFirst bool `json:"writable_server_set_up_first,omitempty"`
}

// c18OnFirst: order in which this process sets up its two servers. Half of the
// workers use either order, so that configuration leaking from one server of a
// process to another (first wins / last wins) shows in the read-only one.
var c18OnFirst bool

type c18ReplayPlain c18Replay

func (r c18Replay) MarshalJSON() ([]byte, error) {
	p := c18ReplayPlain(r)
	p.OnFirst = p.OnFirst || c18OnFirst
	return json.Marshal(p)
}

type c18World struct {
	spec      *openapi3.T
	templates []string
	ops       []apix.Op
	opOf      map[string]apix.Op // "METHOD template" -> op
	off, on   *apix.Env
	// base: the canonical request of every operation and how the freshly built
	// servers answered it (recorded by sanity, before any other request)
	base map[string]c18Base
}

type c18Base struct {
	Req     apix.Request
	Off, On apix.Obs
}

// history re-serves, on the servers that have just served r, the canonical
// request of every operation of the template r was generated from and compares
// the decision with the one the fresh servers took: the decision for a method
// and path must not depend on what was asked before. State-changing operations
// are only re-served with write operations disabled (where they are refused).
func (w *c18World) history(r apix.Request, template string) (sig, msg string, then apix.Request) {
	for _, op := range w.ops {
		if op.Template != template {
			continue
		}
		b, ok := w.base[op.OperationID]
		if !ok {
			continue
		}
		off := w.off.DoTraced(b.Req)
		if off.Reached != b.Off.Reached || off.Status != b.Off.Status {
			return "C18/decision-depends-on-earlier-requests/" + op.OperationID,
				fmt.Sprintf("write operations disabled; fresh server: %s -> %d reached=%q\nafter serving %s the same request -> %d reached=%q %q", b.Req, b.Off.Status, b.Off.Reached, r, off.Status, off.Reached, off.Body), b.Req
		}
		if !op.ReadOnly {
			continue
		}
		on := w.on.DoTraced(b.Req)
		if on.Reached != b.On.Reached || on.Status != b.On.Status {
			return "C18/decision-depends-on-earlier-requests/" + op.OperationID,
				fmt.Sprintf("write operations enabled; fresh server: %s -> %d reached=%q\nafter serving %s the same request -> %d reached=%q %q", b.Req, b.On.Status, b.On.Reached, r, on.Status, on.Reached, on.Body), b.Req
		}
	}
	return "", "", apix.Request{}
}

func newC18World() *c18World {
	spec, templates, ops := apix.Spec()
	w := &c18World{spec: spec, templates: templates, ops: ops, opOf: map[string]apix.Op{}}
	for _, o := range ops {
		w.opOf[o.Method+" "+o.Template] = o
	}
	maporder.Chooser = nil
	if c18OnFirst {
		w.on = apix.NewEnv(true)
		w.off = apix.NewEnv(false)
	} else {
		w.off = apix.NewEnv(false)
		w.on = apix.NewEnv(true)
	}
	return w
}

// newC18Variant is the world for a document variant (marks of one operation changed).
func newC18Variant(template, method string, mark int) *c18World {
	spec := apix.Variant(template, method, mark)
	templates, ops := apix.Ops(spec)
	w := &c18World{spec: spec, templates: templates, ops: ops, opOf: map[string]apix.Op{}}
	for _, o := range ops {
		w.opOf[o.Method+" "+o.Template] = o
	}
	maporder.Chooser = nil
	w.off = apix.NewEnvWithSpec(false, spec)
	w.on = apix.NewEnvWithSpec(true, apix.Variant(template, method, mark))
	return w
}

// c18HeaderSets are extra request headers tried on every operation.
var c18HeaderSets = [][]string{
	{"Accept: */*"},
	{"Accept: application/json"},
	{"Accept: application/json, text/plain, */*"},
	{"Accept: text/html,application/xhtml+xml;q=0.9"},
	{"Accept: text/plain"},
	{"X-HTTP-Method-Override: POST"},
	{"X-HTTP-Method-Override: GET"},
	{"X-Forwarded-For: 127.0.0.1", "X-Real-IP: 127.0.0.1"},
	{"Authorization: Bearer admin"},
	{"Origin: http://localhost", "Access-Control-Request-Method: POST"},
	{"Connection: Upgrade", "Upgrade: websocket"},
	{"X-Read-Only: false", "X-Enable-Write-Operations: true"},
	{"Accept: application/json", "X-Requested-With: XMLHttpRequest"},
}

var c18Methods = []string{"GET", "POST", "PUT", "DELETE", "PATCH", "HEAD", "OPTIONS"}

type c18Body struct{ name, body, ctype string }

func (w *c18World) bodies() []c18Body {
	out := []c18Body{{"none", "", ""}}
	seen := map[string]bool{}
	for _, o := range w.ops {
		b := apix.MinimalBody(w.spec.Paths[o.Template].GetOperation(o.Method))
		if b != "" && !seen[b] {
			seen[b] = true
			out = append(out, c18Body{"minimal valid JSON of " + o.OperationID, b, "application/json"})
		}
	}
	out = append(out, c18Body{"garbage", "\x00{]garbage", "application/json"})
	return out
}

// requests enumerates the whole request space in a fixed order.
func (w *c18World) requests(thorough bool, yield func(r apix.Request, p apix.Path, body string)) {
	var paths []apix.Path
	for _, t := range w.templates {
		paths = append(paths, apix.Spellings(t, apix.Canonical(w.spec, t), apix.LiteralSegs(t))...)
		subs := apix.Substitutions(w.spec, w.templates, t, thorough)
		paths = append(paths, subs...)
		if thorough {
			// spelling mutations of further instances of parameterised templates
			for i, s := range subs {
				if i%17 == 3 {
					p := strings.TrimPrefix(s.Target, apix.Prefix)
					for _, sp := range apix.Spellings(t, p, apix.LiteralSegs(t)) {
						sp.How = s.How + ", " + sp.How
						paths = append(paths, sp)
					}
				}
			}
		}
	}
	bodies := w.bodies()
	seen := map[string]bool{}
	for _, p := range paths {
		if seen[p.Target] {
			continue
		}
		seen[p.Target] = true
		for _, m := range c18Methods {
			for _, b := range bodies {
				yield(apix.Request{Method: m, Target: p.Target, Body: b.body, CType: b.ctype}, p, b.name)
			}
		}
	}
	// URL objects with RawPath != Path (not producible by the parser)
	var canon []string
	for _, t := range w.templates {
		canon = append(canon, apix.Prefix+apix.Canonical(w.spec, t))
	}
	// request headers: the decision must not depend on them either. Every header
	// set x every method x every body on the canonical spelling of every template.
	for ti, target := range canon {
		for _, hs := range c18HeaderSets {
			for _, m := range c18Methods {
				for _, b := range bodies {
					yield(apix.Request{Method: m, Target: target, Body: b.body, CType: b.ctype, Headers: hs},
						apix.Path{Template: w.templates[ti], How: fmt.Sprintf("canonical, headers %q", hs), Target: target}, b.name)
				}
			}
		}
	}
	for _, a := range canon {
		for _, b := range canon {
			if a == b {
				continue
			}
			for _, m := range c18Methods {
				for _, bd := range bodies {
					yield(apix.Request{Method: m, Target: b, SynthPath: a, SynthRawPath: b, Body: bd.body, CType: bd.ctype},
						apix.Path{Template: "(synthetic)", How: "URL.Path=" + a + " URL.RawPath=" + b, Target: b}, bd.name)
				}
			}
		}
	}
}

var numRe = regexp.MustCompile(`[0-9]+`)

// outcome renders a coarse class of one observation.
func (w *c18World) outcome(r apix.Request, o apix.Obs) string {
	if !o.Parsed {
		return "request line refused by net/http's parser (router never called)"
	}
	how := ""
	switch {
	case o.Reached != "":
		op, ok := w.opOf[r.Method+" "+o.Reached]
		kind := "UNKNOWN operation"
		if ok {
			kind = "state-changing operation " + op.OperationID
			if op.ReadOnly {
				kind = "read-only operation " + op.OperationID
			}
		}
		how = "handler of " + kind
	case strings.HasPrefix(o.Body, "Endpoint not enabled"):
		how = "refused by the read-only middleware (not enabled)"
	case strings.HasPrefix(o.Body, "Endpoint not found"):
		how = "refused by the read-only middleware (no such operation)"
	case o.Status == 404 && strings.HasPrefix(o.Body, "404 page not found"):
		how = "router: not found"
	case o.Status == 405:
		how = "router: method not allowed"
	case o.Status == 400:
		words := strings.Fields(numRe.ReplaceAllString(o.Body, "N"))
		if len(words) > 4 {
			words = words[:4]
		}
		how = "refused by the request validator: " + strings.Join(words, " ")
	case o.Status == 301 || o.Status == 302 || o.Status == 307 || o.Status == 308:
		how = "redirect"
	default:
		how = "other"
	}
	eff := ""
	if o.Shutdowns > 0 {
		eff += ", shutdown signalled"
	}
	if len(o.Triggers) > 0 {
		eff += ", decryption trigger sent"
	}
	if o.DBChanged {
		eff += ", database written"
	}
	if o.Panic != "" {
		eff += ", panic escaped the router"
	}
	return fmt.Sprintf("%d %s%s", o.Status, how, eff)
}

// judge evaluates the statement's oracles on one request served in both modes.
// It returns "" or (signature, message).
func (w *c18World) judge(r apix.Request, off, on apix.Obs) (string, string) {
	if !off.Parsed {
		return "", ""
	}
	// with writes off: no handler of an operation not marked read-only is
	// reached, and nothing but a read-only operation has an effect
	reachedReadOnly := false
	if off.Reached != "" {
		op, ok := w.opOf[r.Method+" "+off.Reached]
		if !ok {
			return "C18/undocumented-handler-reached-in-read-only-mode", fmt.Sprintf("%s\nwrite operations are disabled; the router dispatched to endpoint %s %s, which is no operation of the OpenAPI document (so it is not marked read-only)", r, r.Method, off.Reached)
		}
		if !op.ReadOnly {
			eff := ""
			if off.Shutdowns > 0 {
				eff = fmt.Sprintf("; the shutdown channel received %d signal(s)", off.Shutdowns)
			}
			if len(off.Triggers) > 0 {
				eff += fmt.Sprintf("; the trigger channel received %v", off.Triggers)
			}
			return "C18/write-operation-reached-in-read-only-mode/" + op.OperationID, fmt.Sprintf("%s\nwrite operations are disabled; the router dispatched to the handler of %s (%s), which is not marked x-read-only: true; answer: %d %q%s", r, op.OperationID, op, off.Status, off.Body, eff)
		}
		reachedReadOnly = true
	}
	if !reachedReadOnly {
		if off.Shutdowns > 0 {
			return "C18/shutdown-signalled-in-read-only-mode", fmt.Sprintf("%s\nwrite operations are disabled, yet the shutdown channel received %d signal(s); answer: %d %q", r, off.Shutdowns, off.Status, off.Body)
		}
		if len(off.Triggers) > 0 {
			return "C18/decryption-trigger-sent-in-read-only-mode", fmt.Sprintf("%s\nwrite operations are disabled, yet the trigger channel received %v; answer: %d %q", r, off.Triggers, off.Status, off.Body)
		}
		if off.DBChanged || off.P2PSent > 0 {
			return "C18/state-changed-in-read-only-mode", fmt.Sprintf("%s\nwrite operations are disabled, yet the request changed state (database changed: %v, p2p messages: %d); answer: %d %q", r, off.DBChanged, off.P2PSent, off.Status, off.Body)
		}
	}
	// read-only operations answer exactly as with writes on
	if on.Reached != "" {
		if op, ok := w.opOf[r.Method+" "+on.Reached]; ok && op.ReadOnly {
			if off.Reached != on.Reached || off.Status != on.Status || off.Body != on.Body {
				return "C18/read-only-operation-answers-differently-in-read-only-mode/" + op.OperationID,
					fmt.Sprintf("%s\nwith write operations enabled the request is answered by the read-only operation %s: %d %q\nwith write operations disabled: reached %q, %d %q", r, op.OperationID, on.Status, on.Body, off.Reached, off.Status, off.Body)
			}
		}
	}
	return "", ""
}

// serve runs one request in both modes (plain and traced) under the current
// map-order chooser and returns the traced observations plus a determinism
// complaint.
func (w *c18World) serve(r apix.Request) (off, on apix.Obs, nondet string) {
	for _, e := range []*apix.Env{w.off, w.on} {
		plain := e.Do(r)
		traced := e.DoTraced(r)
		if plain.Key() != traced.Key() {
			nondet = fmt.Sprintf("%s (writes=%v)\nfirst run:  %s\nsecond run: %s", r, e.Writes, plain.Key(), traced.Key())
		}
		if e.Writes {
			on = traced
		} else {
			off = traced
		}
	}
	return off, on, nondet
}

// handlerFaults: with write operations disabled, the canonical request of every
// operation is served on a fresh server whose database fails at round trip k of
// the request, once by panicking inside the driver and once by returning an error,
// for every k. Whatever the handler and the router's recovery do with the failure,
// nothing a state-changing operation does may happen.
func (w *c18World) handlerFaults(c *report.Ctx) {
	var n int64
	for _, op := range w.ops {
		b, ok := w.base[op.OperationID]
		if !ok {
			continue
		}
		// number of round trips of the undisturbed request
		probe := apix.NewEnv(false)
		rt0 := probe.Pool.DB().RoundTrips()
		probe.Serve(b.Req)
		trips := probe.Pool.DB().RoundTrips() - rt0
		probe.Close()
		for k := 0; k < trips; k++ {
			for _, mode := range []string{"panic", "error"} {
				env := apix.NewEnv(false)
				db := env.Pool.DB()
				start := db.RoundTrips()
				seen := 0
				db.SetHooks(&minipg.Hooks{Before: func(rt minipg.RoundTrip) error {
					_ = start
					seen++
					if seen-1 == k {
						if mode == "panic" {
							panic("verif: database driver panics")
						}
						return fmt.Errorf("verif: connection reset")
					}
					return nil
				}})
				o := env.Serve(b.Req)
				db.SetHooks(nil)
				sh, tr, dbc, p2p := env.Effects()
				env.Close()
				n++
				c.Stats.Evaluations++
				c.Stats.Class(fmt.Sprintf("writes off, database %s at round trip %d of %s: status %d", mode, k, op.OperationID, o.Status))
				if sh > 0 || len(tr) > 0 || dbc || p2p > 0 {
					c.Violation("C18/state-changing-effect-in-read-only-mode/failing-handler/"+op.OperationID,
						fmt.Sprintf("write operations disabled; %s while the database %ss at round trip %d: answered %d %q, and shutdown signals=%d, decryption triggers=%v, database changed=%v, p2p messages=%d", b.Req, mode, k, o.Status, o.Body, sh, tr, dbc, p2p),
						c18Replay{Request: b.Req, Oracle: "handler-fault", FaultAt: k, FaultMode: mode})
				}
			}
		}
	}
	c.Stats.Count("requests_with_a_failing_database_round_trip", n)
}

// sanity makes sure the check is not vacuous and that read-only operations
// stay reachable.
func (w *c18World) sanity(c *report.Ctx) {
	for _, op := range w.ops {
		body, ctype := apix.MinimalBody(w.spec.Paths[op.Template].GetOperation(op.Method)), ""
		if body != "" {
			ctype = "application/json"
		}
		r := apix.Request{Method: op.Method, Target: apix.Prefix + apix.Canonical(w.spec, op.Template), Body: body, CType: ctype}
		on := w.on.DoTraced(r)
		off := w.off.DoTraced(r)
		if w.base == nil {
			w.base = map[string]c18Base{}
		}
		if _, seen := w.base[op.OperationID]; !seen {
			w.base[op.OperationID] = c18Base{Req: r, Off: off, On: on}
		}
		if sig, msg := w.judge(r, off, on); sig != "" {
			c.Violation(sig, "[canonical request of "+op.OperationID+"]\n"+msg, c18Replay{Request: r, Oracle: "judge"})
			continue
		}
		if on.Reached != op.Template {
			if op.ReadOnly {
				c.Violation("C18/read-only-operation-unreachable/"+op.OperationID, fmt.Sprintf("%s: the canonical request does not reach the read-only operation %s even with write operations enabled: %d %q", r, op.OperationID, on.Status, on.Body), c18Replay{Request: r, Oracle: "sanity"})
				continue
			}
			panic(fmt.Sprintf("C18 cannot judge read-only mode: with write operations ENABLED the canonical request %s does not reach operation %s (answer %d %q); the enumeration would be vacuous", r, op.OperationID, on.Status, on.Body))
		}
		if op.ReadOnly && off.Reached != op.Template {
			c.Violation("C18/read-only-operation-unreachable/"+op.OperationID, fmt.Sprintf("%s: with write operations disabled the canonical request no longer reaches the read-only operation %s: %d %q", r, op.OperationID, off.Status, off.Body), c18Replay{Request: r, Oracle: "sanity"})
		}
		if !op.ReadOnly {
			effect := on.Shutdowns > 0 || len(on.Triggers) > 0 || on.DBChanged || on.P2PSent > 0
			if c.Shard == 0 {
				c.Stats.Class(fmt.Sprintf("sanity, writes on: %s -> %s", op, w.outcome(r, on)))
			}
			if !effect {
				c.Stats.SetExtra("note_"+op.OperationID, "state-changing operation without an effect observable by the harness; reach is decided by the routing context only")
			}
			if c.Shard == 0 {
				c.Stats.Sample(map[string]any{"request": r.String(), "writes_on": on, "writes_off": off})
			}
		}
	}
}

func c18() *report.Check {
	return &report.Check{
		Level: "exploration",
		Rule: "every request of the generated space (7 methods x paths from every OpenAPI template by parameter substitution and spelling mutation x 3 bodies, built by net/http's request parser; plus URL objects with RawPath != Path) served by the real router with writes off and on, twice each (half of the worker processes set up the writable server first, half the read-only one), and under every iteration order of every kproapi map range met; after each request the canonical requests of its template are served again on the same servers (two-request histories) and the decision compared with the fresh servers' one; the same after requests to paths of the service outside the document (/api.json, /metrics, /); with writes off the canonical request of every operation with the database panicking / failing at every round trip; two requests in flight with writes off: every pair of {canonical request of each operation, one undefined-method request per template} under every interleaving of the two handler threads with at most 2 (thorough 3) preemptions at statement granularity of keyper/kproapi and keyper/kprapi (cooperative scheduler over sources instrumented with yield points); " +
			"oracles: writes off => no receive on trigger/shutdown channel, no DB change, no handler of an operation not marked x-read-only reached; read-only operations answer identically in both modes; a request with a query component is answered like the same method and path without it; same verdict under every map order and on repetition; classes = status + who answered + effects, per mode",
		Assumptions: []string{
			"the request reaches the router as net/http's ReadRequest parses it (the server's own parser); request lines it refuses never reach the router and are counted as a class",
			"'reached an operation' = its effect was observed (channel receive, database change, p2p send) or the inner chi router recorded the operation's endpoint pattern for the request method in the routing context supplied by the harness",
			"map iteration order in keyper/kproapi is owned through a source rewrite (cmd/rewrite) and every permutation is explored; map ranges inside third-party packages (kin-openapi Paths.Find, gorilla/mux) keep Go's runtime order and are covered only by serving every request twice",
			"the set of operations and their x-read-only marks are read from the embedded document (kproapi.GetSwagger), independently of the middleware's own reading",
			"PostgreSQL semantics as implemented by minipg; single-session serial execution",
			"concurrency: scheduling points are the statements of keyper/kproapi and keyper/kprapi (including the generated server wrapper); third-party and standard-library code runs atomically between two points; sync.Mutex/RWMutex/Once of those two packages are modelled by a scheduler-aware shim; memory-model effects below statement granularity are outside",
			"/api.json and /metrics are not operations of the OpenAPI document and are outside the statement",
		},
		Shards: func(bool) int { return 16 },
		Budget: func(t bool) time.Duration {
			if t {
				return 8 * time.Minute
			}
			return 150 * time.Second
		},
		Trivial: func(cl string) bool { return false },
		Run: func(c *report.Ctx) {
			c18OnFirst = c.Shard%2 == 1
			w := newC18World()
			w.sanity(c)
			// requests to what the same HTTP service offers outside the document (the
			// published document itself, metrics, the root): they are no operations, but
			// serving them must not change any later decision either
			if c.Shard < 2 {
				for _, target := range []string{"/api.json", "/api.json?pretty=1", "/metrics", "/", "/v1", "/v1/", "/favicon.ico", "/debug/pprof/"} {
					for _, m := range []string{"GET", "HEAD", "POST", "OPTIONS"} {
						r := apix.Request{Method: m, Target: target}
						off, on, _ := w.serve(r)
						c.Stats.Evaluations++
						if sig, msg := w.judge(r, off, on); sig != "" {
							c.Violation(sig, "[outside the document]\n"+msg, c18Replay{Request: r, Oracle: "judge"})
						}
						for _, t := range w.templates {
							if sig, msg, then := w.history(r, t); sig != "" {
								c.Violation(sig, fmt.Sprintf("[request outside the document, then %s]\n%s", t, msg), c18Replay{Request: r, Then: &then, Oracle: "history"})
								c.Stats.Class("VIOLATION " + sig)
								break
							}
						}
						c.Stats.Class("outside the document, writes off: " + w.outcome(r, off))
					}
				}
			}
			if c.Shard == 0 {
				var ops []string
				for _, o := range w.ops {
					ops = append(ops, fmt.Sprintf("%s %s read_only=%v", o, o.OperationID, o.ReadOnly))
				}
				c.Stats.SetExtra("operations_of_the_document", ops)
			}
			unit := 0
			var nReq, nMapRuns, nWithMap, nHist int64
			maxPerm := 0
			capped := false
			w.requests(c.Thorough, func(r apix.Request, p apix.Path, bodyName string) {
				unit++
				if unit%c.NShards != c.Shard || capped {
					return
				}
				if c.Expired() {
					c.Stats.Cap(fmt.Sprintf("budget reached after %d requests in this worker", nReq))
					capped = true
					return
				}
				nReq++
				c.Stats.Evaluations++
				maporder.Chooser = nil
				before := maporder.Ranges
				off, on, nondet := w.serve(r)
				if nondet != "" {
					c.Violation("C18/verdict-differs-between-repeated-runs", nondet, c18Replay{Request: r, Oracle: "repeat"})
				}
				if sig, msg := w.judge(r, off, on); sig != "" {
					c.Violation(sig, fmt.Sprintf("[%s; %s; body %s]\n%s", p.Template, p.How, bodyName, msg), c18Replay{Request: r, Oracle: "judge"})
					c.Stats.Class("VIOLATION " + sig)
				}
				c.Stats.Class("writes off: " + w.outcome(r, off))
				c.Stats.Class("writes on:  " + w.outcome(r, on))
				// the decision belongs to the method and the path: the same request without
				// its query component is answered the same way, in both modes
				if i := strings.IndexByte(r.Target, '?'); i >= 0 && r.SynthPath == "" && off.Parsed {
					base := r
					base.Target = r.Target[:i]
					boff, bon, _ := w.serve(base)
					for _, x := range []struct {
						mode   string
						with, without apix.Obs
					}{{"disabled", off, boff}, {"enabled", on, bon}} {
						if x.without.Parsed && (x.with.Reached != x.without.Reached || x.with.Status != x.without.Status || x.with.Body != x.without.Body) {
							c.Violation("C18/decision-depends-on-the-query-component", fmt.Sprintf("[%s; %s; body %s]\n%s\nwrite operations %s: answered %d %q (route %q), but the same method and path without the query component: %d %q (route %q)", p.Template, p.How, bodyName, r, x.mode, x.with.Status, x.with.Body, x.with.Reached, x.without.Status, x.without.Body, x.without.Reached), c18Replay{Request: r, Oracle: "query"})
							c.Stats.Class("VIOLATION C18/decision-depends-on-the-query-component")
							break
						}
					}
					c.Stats.Count("requests_compared_with_their_query_less_form", 1)
				}
				rangesNow := maporder.Ranges
				if sig, msg, then := w.history(r, p.Template); sig != "" {
					c.Violation(sig, fmt.Sprintf("[%s; %s; body %s]\n%s", p.Template, p.How, bodyName, msg), c18Replay{Request: r, Then: &then, Oracle: "history"})
					c.Stats.Class("VIOLATION " + sig)
				}
				nHist++
				if rangesNow == before {
					return
				}
				// every map iteration order, per mode: one serving per execution
				nWithMap++
				var execs int64
				for _, e := range []*apix.Env{w.off, w.on} {
					e := e
					ref := off
					if e.Writes {
						ref = on
					}
					d := &explore.DFS{Bound: -1, Deadline: c.Deadline, Body: func(run *explore.Run) {
						maporder.Chooser = func(n int, label string) int { return run.Choose(n, label) }
						o2 := e.DoTraced(r)
						maporder.Chooser = nil
						if o2.Key() != ref.Key() || o2.Reached != ref.Reached {
							run.Failf("C18/verdict-depends-on-map-order", "%s (writes=%v)\nsorted map order:   %s reached=%q\npermuted map order: %s reached=%q", r, e.Writes, ref.Key(), ref.Reached, o2.Key(), o2.Reached)
							return
						}
						var sig, msg string
						if e.Writes {
							sig, msg = w.judge(r, off, o2)
						} else {
							sig, msg = w.judge(r, o2, on)
						}
						if sig != "" {
							run.Failf(sig, "%s", msg)
						}
					}}
					d.Explore()
					maporder.Chooser = nil
					execs += d.Execs
					if d.Capped != "" {
						c.Stats.Cap("map-order exploration: " + d.Capped)
					}
					for _, f := range d.Failures {
						c.Violation(f.Signature, fmt.Sprintf("[%s; %s; body %s] writes=%v, under map order choices %v\n%s", p.Template, p.How, bodyName, e.Writes, f.Choices, f.Message), c18Replay{Request: r, Choices: f.Choices, Oracle: "maporder"})
					}
				}
				nMapRuns += execs
				c.Stats.Evaluations += execs
				if int(execs) > maxPerm {
					maxPerm = int(execs)
				}
				d := struct{ Execs int64 }{execs}
				if nWithMap == 1 {
					c.Stats.Sample(map[string]any{"request": r.String(), "how": p.How, "map_orders_explored": d.Execs, "writes_off": off, "writes_on": on})
				}
			})
			// document variants: the x-read-only mark of each operation absent /
			// false / true, in both representations the extension can have
			var nVar int64
			for _, op := range w.ops {
				for mark := range apix.MarkVariants {
					unit++
					if unit%c.NShards != c.Shard {
						continue
					}
					if c.Expired() {
						c.Stats.Cap("budget reached in the document variants")
						break
					}
					v := newC18Variant(op.Template, op.Method, mark)
					name := fmt.Sprintf("document variant: x-read-only of %s %s", op.OperationID, apix.MarkVariants[mark])
					for _, t := range v.templates {
						for _, sp := range apix.Spellings(t, apix.Canonical(v.spec, t), apix.LiteralSegs(t)) {
							switch sp.How {
							case "canonical", "query", "trailing slash", "everything %-encoded", "/v1/./…":
							default:
								continue
							}
							for _, m := range c18Methods {
								for _, b := range v.bodies() {
									r := apix.Request{Method: m, Target: sp.Target, Body: b.body, CType: b.ctype}
									nVar++
									c.Stats.Evaluations++
									maporder.Chooser = nil
									off, on, nondet := v.serve(r)
									if nondet != "" {
										c.Violation("C18/verdict-differs-between-repeated-runs", name+"\n"+nondet, c18Replay{Request: r, Oracle: "repeat", VarTemplate: op.Template, VarMethod: op.Method, VarMark: mark, IsVariant: true})
									}
									if sig, msg := v.judge(r, off, on); sig != "" {
										c.Violation(sig+"/document-variant", fmt.Sprintf("[%s; %s %s; body %s]\n%s", name, sp.Template, sp.How, b.name, msg), c18Replay{Request: r, Oracle: "judge", VarTemplate: op.Template, VarMethod: op.Method, VarMark: mark, IsVariant: true})
										c.Stats.Class("VIOLATION " + sig + " (document variant)")
									}
									if sp.How == "canonical" && sp.Template == op.Template && m == op.Method && (b.body != "") == op.NeedsBody && b.name != "garbage" {
										kind := "state-changing"
										if w.opOf[op.Method+" "+op.Template].ReadOnly {
											kind = "read-only"
										}
										c.Stats.Class(fmt.Sprintf("document variant, mark of a %s operation set to %s; its canonical request with writes off: %s", kind, apix.MarkVariants[mark], numRe.ReplaceAllString(v.outcome(r, off), "N")))
									}
								}
							}
						}
					}
				}
			}
			// handlers that fail: the database panics / returns an error at every round trip
			// of every read-only operation's canonical request
			if c.Shard == 1%c.NShards {
				w.handlerFaults(c)
			}
			// two requests in flight (cooperative scheduler over the instrumented sources)
			w.concurrent(c)
			c.Stats.Count("document_variant_requests", nVar)
			c.Stats.Count("requests", nReq)
			c.Stats.Count("two_request_histories_request_then_canonical_requests_of_its_template", nHist)
			c.Stats.Count("requests_meeting_a_multi_key_map_range", nWithMap)
			c.Stats.Count("map_order_executions", nMapRuns)
			c.Stats.SetExtra("max_map_orders_for_one_request", maxPerm)
		},
		Replay: func(c *report.Ctx, raw json.RawMessage) string {
			var rp c18Replay
			if err := json.Unmarshal(raw, &rp); err != nil {
				return "bad replay: " + err.Error()
			}
			c18OnFirst = rp.OnFirst
			w := newC18World()
			if rp.IsVariant {
				w = newC18Variant(rp.VarTemplate, rp.VarMethod, rp.VarMark)
			}
			if rp.Oracle == "sanity" {
				cc := &report.Ctx{Property: c.Property, Stats: &report.Stats{}, NShards: 1}
				w.sanity(cc)
				if cc.Violations() > 0 {
					return "a read-only operation is unreachable (see the run's message)"
				}
				return ""
			}
			maporder.Chooser = nil
			if rp.Oracle == "handler-fault" {
				env := apix.NewEnv(false)
				defer env.Close()
				seen := 0
				env.Pool.DB().SetHooks(&minipg.Hooks{Before: func(minipg.RoundTrip) error {
					seen++
					if seen-1 == rp.FaultAt {
						if rp.FaultMode == "panic" {
							panic("verif: database driver panics")
						}
						return fmt.Errorf("verif: connection reset")
					}
					return nil
				}})
				o := env.Serve(rp.Request)
				env.Pool.DB().SetHooks(nil)
				if sh, tr, dbc, p2p := env.Effects(); sh > 0 || len(tr) > 0 || dbc || p2p > 0 {
					return fmt.Sprintf("answered %d %q; shutdown signals=%d, decryption triggers=%v, database changed=%v, p2p messages=%d", o.Status, o.Body, sh, tr, dbc, p2p)
				}
				return ""
			}
			if rp.Oracle == "concurrent" {
				cc := &report.Ctx{Property: c.Property, Stats: &report.Stats{}, NShards: 1}
				w.sanity(cc)
				return w.concReplay(rp)
			}
			if rp.Oracle == "history" {
				cc := &report.Ctx{Property: c.Property, Stats: &report.Stats{}, NShards: 1}
				w.sanity(cc)
				w.serve(rp.Request)
				for _, t := range w.templates {
					if sig, msg, _ := w.history(rp.Request, t); sig != "" {
						return sig + "\n" + msg
					}
				}
				return ""
			}
			off0, on0, nd := w.serve(rp.Request)
			if nd != "" {
				return "verdict differs between repeated runs:\n" + nd
			}
			if sig, msg := w.judge(rp.Request, off0, on0); sig != "" {
				return sig + "\n" + msg
			}
			if i := strings.IndexByte(rp.Request.Target, '?'); rp.Oracle == "query" && i >= 0 {
				base := rp.Request
				base.Target = base.Target[:i]
				boff, bon, _ := w.serve(base)
				if off0.Reached != boff.Reached || off0.Status != boff.Status || off0.Body != boff.Body || on0.Reached != bon.Reached || on0.Status != bon.Status || on0.Body != bon.Body {
					return fmt.Sprintf("C18/decision-depends-on-the-query-component\nwith query: writes off %d %q (route %q), writes on %d %q (route %q)\nwithout:    writes off %d %q (route %q), writes on %d %q (route %q)", off0.Status, off0.Body, off0.Reached, on0.Status, on0.Body, on0.Reached, boff.Status, boff.Body, boff.Reached, bon.Status, bon.Body, bon.Reached)
				}
			}
			if len(rp.Choices) > 0 {
				for _, e := range []*apix.Env{w.off, w.on} {
					i := 0
					maporder.Chooser = func(n int, label string) int {
						if i < len(rp.Choices) {
							i++
							if rp.Choices[i-1] < n {
								return rp.Choices[i-1]
							}
						}
						return 0
					}
					o2 := e.DoTraced(rp.Request)
					maporder.Chooser = nil
					ref, off, on := off0, o2, on0
					if e.Writes {
						ref, off, on = on0, off0, o2
					}
					if o2.Key() != ref.Key() || o2.Reached != ref.Reached {
						return fmt.Sprintf("verdict depends on map order (writes=%v)\nsorted:   %s reached=%q\npermuted: %s reached=%q", e.Writes, ref.Key(), ref.Reached, o2.Key(), o2.Reached)
					}
					if sig, msg := w.judge(rp.Request, off, on); sig != "" {
						return sig + "\n" + msg
					}
				}
			}
			return ""
		},
	}
}
