package main

import (
	"fmt"

	"verif/explore"
	"verif/harness/apix"
	"verif/report"
	"verif/sched"
)

// Concurrent part of C18: two requests in flight on one server with write
// operations disabled. The sources of keyper/kproapi and keyper/kprapi are
// instrumented with a scheduling point before every statement (cmd/rewrite
// -yield, their "sync" import replaced by the scheduler-aware shim); each
// request is a thread of the cooperative scheduler (verif/sched) and the
// explorer enumerates every interleaving of the two threads with at most
// `bound` preemptions (stateless DFS, a fresh server per execution). Code that
// is not instrumented (chi, the OpenAPI validator, net/http, the handlers'
// database calls) runs atomically between two points.
//
// Oracles per execution: no effect of a state-changing operation (shutdown
// signal, decryption trigger, database change, p2p message), no request routed
// to an operation that is not marked read-only, no panic or deadlock, and each
// request is answered (status, body, route) exactly as when it is alone.

type c18ConcReplay struct {
	A       apix.Request `json:"request_a"`
	B       apix.Request `json:"request_b"`
	Choices []int        `json:"schedule"`
}

// c18ConcRequests: the canonical request of every operation, and for every
// template one request with a method the template does not define.
func (w *c18World) concRequests() []apix.Request {
	var out []apix.Request
	for _, op := range w.ops {
		if b, ok := w.base[op.OperationID]; ok {
			out = append(out, b.Req)
		}
	}
	for _, t := range w.templates {
		for _, m := range []string{"DELETE", "PUT", "POST", "GET"} {
			if _, defined := w.opOf[m+" "+t]; !defined {
				out = append(out, apix.Request{Method: m, Target: apix.Prefix + apix.Canonical(w.spec, t)})
				break
			}
		}
	}
	return out
}

// c18ConcExec runs one execution of the pair under the given chooser and
// returns a violation (signature, message) or "".
func (w *c18World) concExec(a, b apix.Request, soloA, soloB apix.Obs, choose sched.Chooser) (sig, msg string, points int) {
	env := apix.NewEnv(false)
	defer env.Close()
	var oa, ob apix.Obs
	pm := sched.Run(choose, func() { oa = env.Serve(a) }, func() { ob = env.Serve(b) })
	if pm != "" {
		return "C18/concurrent-requests-panic-or-deadlock", pm, 0
	}
	sh, tr, db, p2p := env.Effects()
	if sh > 0 || len(tr) > 0 || db || p2p > 0 {
		return "C18/state-changing-operation-reached-in-read-only-mode/concurrent-requests",
			fmt.Sprintf("with write operations disabled the two requests together caused: shutdown signals=%d, decryption triggers=%v, database changed=%v, p2p messages=%d\n%s -> %d %q (route %q)\n%s -> %d %q (route %q)", sh, tr, db, p2p, a, oa.Status, oa.Body, oa.Reached, b, ob.Status, ob.Body, ob.Reached), 0
	}
	for _, x := range []struct {
		r apix.Request
		o apix.Obs
	}{{a, oa}, {b, ob}} {
		if x.o.Reached == "" {
			continue
		}
		if op, ok := w.opOf[x.r.Method+" "+x.o.Reached]; ok && !op.ReadOnly {
			return "C18/state-changing-operation-reached-in-read-only-mode/concurrent-requests",
				fmt.Sprintf("with write operations disabled %s was routed to the state-changing operation %s (%d %q)", x.r, op.OperationID, x.o.Status, x.o.Body), 0
		}
	}
	for _, x := range []struct {
		r    apix.Request
		o, s apix.Obs
	}{{a, oa, soloA}, {b, ob, soloB}} {
		if x.o.Status != x.s.Status || x.o.Reached != x.s.Reached || x.o.Body != x.s.Body || x.o.Panic != x.s.Panic {
			return "C18/decision-depends-on-a-concurrent-request",
				fmt.Sprintf("%s alone: %d %q route %q panic %q\nwhile the other request is in flight: %d %q route %q panic %q", x.r, x.s.Status, x.s.Body, x.s.Reached, x.s.Panic, x.o.Status, x.o.Body, x.o.Reached, x.o.Panic), 0
		}
	}
	return "", "", 0
}

func schedChooser(run *explore.Run) sched.Chooser {
	return func(n int, runningStillEnabled bool, label string) int {
		if runningStillEnabled {
			return run.Choose(n, label) // leaving a runnable thread is a preemption
		}
		return run.ChooseFree(n, label)
	}
}

func (w *c18World) concurrent(c *report.Ctx) {
	reqs := w.concRequests()
	solo := make([]apix.Obs, len(reqs))
	for i, r := range reqs {
		env := apix.NewEnv(false)
		solo[i] = env.Serve(r)
		env.Close()
	}
	bound := 2
	if c.Thorough {
		bound = 3
	}
	var pairs, execs int64
	maxExecs := int64(0)
	for i := range reqs {
		for j := i; j < len(reqs); j++ {
			// every worker takes its share of every pair's schedule tree (the subtrees
			// below the first-level alternatives are dealt out round-robin)
			if c.Expired() {
				c.Stats.Cap("budget reached in the concurrent part")
				return
			}
			for _, first := range []int{0, 1} {
				if first == 1 && i == j {
					continue
				}
				// which of the two requests starts is enumerated here (two searches), every
				// later switch by the explorer
				a, b, i, j := reqs[i], reqs[j], i, j
				if first == 1 {
					a, b, i, j = b, a, j, i
				}
				d := &explore.DFS{Bound: bound, Deadline: c.Deadline, Shard: c.Shard, NShards: c.NShards, Body: func(run *explore.Run) {
					if sig, msg, _ := w.concExec(a, b, solo[i], solo[j], schedChooser(run)); sig != "" {
						run.Failf(sig, "%s", msg)
					}
				}}
				d.Explore()
				pairs++
				execs += d.Execs
				if c.Shard == 0 {
					c.Stats.SetExtra(fmt.Sprintf("concurrent_pair_%d_then_%d", i, j), map[string]any{"schedules_in_worker_0": d.Execs, "choice_points_max": d.MaxDepth})
				}
				if d.Execs > maxExecs {
					maxExecs = d.Execs
				}
				if d.Capped != "" {
					c.Stats.Cap(fmt.Sprintf("concurrent pair (%s | %s): %s", a, b, d.Capped))
				}
				for _, f := range d.Failures {
					c.Violation(f.Signature, fmt.Sprintf("[two requests in flight, schedule %v]\n%s", f.Choices, f.Message), c18Replay{Oracle: "concurrent", Request: a, Then: &b, Choices: f.Choices})
					c.Stats.Class("VIOLATION " + f.Signature)
				}
				if c.Shard == 0 {
					c.Stats.Class(fmt.Sprintf("two requests in flight, writes off: %s | %s", w.outcome(a, solo[i]), w.outcome(b, solo[j])))
				}
			}
		}
	}
	c.Stats.Evaluations += execs
	if c.Shard == 0 {
		c.Stats.Count("concurrent_request_pairs", pairs)
	}
	c.Stats.Count("concurrent_schedules_explored", execs)
	c.Stats.SetExtra("concurrent_preemption_bound", bound)
	if c.Shard == 0 {
		c.Stats.SetExtra("concurrent_requests", fmt.Sprint(reqs))
	}
	_ = maxExecs
}

// concReplay re-runs one recorded schedule.
func (w *c18World) concReplay(rp c18Replay) string {
	a, b := rp.Request, *rp.Then
	solo := func(r apix.Request) apix.Obs {
		env := apix.NewEnv(false)
		defer env.Close()
		return env.Serve(r)
	}
	sa, sb := solo(a), solo(b)
	d := &explore.DFS{Bound: -1, Body: func(run *explore.Run) {
		if sig, msg, _ := w.concExec(a, b, sa, sb, schedChooser(run)); sig != "" {
			run.Failf(sig, "%s", msg)
		}
	}}
	r := d.Replay(rp.Choices)
	if f := r.Failure(); f != nil {
		return f.Signature + "\n" + f.Message
	}
	return ""
}
