# source me: Go toolchain env for building /repo/rolling-shutter offline
export PATH=/root/go/pkg/mod/golang.org/toolchain@v0.0.1-go1.23.8.linux-amd64/bin:$PATH
export GOTOOLCHAIN=local GOFLAGS=-mod=mod GOPROXY=off GOSUMDB=off GONOSUMDB=* GONOSUMCHECK=1 GOFLAGS=-mod=mod
export CGO_ENABLED=${CGO_ENABLED:-1}
