#!/bin/bash
# usage: check.sh <ID> [quick|thorough] [--replay path]
# Rebuilds the property's harness from the repository's CURRENT working tree
# (hooks on, seams regenerated) and runs it.
# Exit 0 = held, 1 = VIOLATION, 2 = harness/build error.
#
# Optional environment (used for trying deliberate property-breaking changes
# without touching /repo or /verif/evidence):
#   VERIF_REPO=<dir>  a checkout/worktree of the repository to build against (default /repo)
#   VERIF_OUT=<dir>   where evidence/, replays/, logs/ are written (default /verif)
set -u
cd /verif
. scripts/env.sh
ID=$1; shift
TIER=${VERIF_TIER:-quick}
if [ $# -gt 0 ] && [ "${1#--}" = "$1" ]; then TIER=$1; shift; fi
MAPORDER=""; VOS=""; YIELD=""
# scripts/groups.txt: <ID> <cmd dir under /verif/cmd> [<maporder pkgs>|-] [<vos files>|-] [<yield pkgs>|-]
LINE=$(grep -E "^$ID[[:space:]]" scripts/groups.txt | head -1)
if [ -n "${VERIF_GROUP:-}" ]; then
  GROUP=$VERIF_GROUP; MAPORDER=${VERIF_MAPORDER:-}; VOS=${VERIF_VOS:-}; YIELD=${VERIF_YIELD:-}
elif [ -n "$LINE" ]; then
  read -r _ GROUP MAPORDER VOS YIELD <<< "$LINE"
  MAPORDER=${MAPORDER:--}; VOS=${VOS:--}; YIELD=${YIELD:--}
  [ "$MAPORDER" = "-" ] && MAPORDER=""; [ "$VOS" = "-" ] && VOS=""; [ "$YIELD" = "-" ] && YIELD=""
else
  echo "unknown property $ID" >&2; exit 2
fi
REPO=${VERIF_REPO:-/repo}
OUT=${VERIF_OUT:-/verif}
TAG=$(echo -n "$REPO" | md5sum | cut -c1-8)
mkdir -p .bin .gen "$OUT/logs" "$OUT/evidence" "$OUT/replays"
exec 9>".gen/$GROUP-$TAG.lock"; flock 9
MODFLAG=""
if [ "$REPO" != "/repo" ]; then
  MF=.gen/mod-$TAG
  mkdir -p $MF
  sed "s|=> /repo/rolling-shutter|=> $REPO/rolling-shutter|" go.mod > $MF/go.mod
  cp go.sum $MF/go.sum
  MODFLAG="-modfile=$PWD/$MF/go.mod"
fi
OV=.gen/overlay-$GROUP-$TAG
OVFLAG=""
if [ -n "${MAPORDER}${VOS}${YIELD}" ]; then
  [ -x .bin/rewrite ] && [ .bin/rewrite -nt cmd/rewrite/main.go ] || go build -o .bin/rewrite ./cmd/rewrite || { echo "HARNESS-ERROR: cannot build rewrite" >&2; exit 2; }
  .bin/rewrite -repo "$REPO/rolling-shutter" -maporder "$MAPORDER" -vos "$VOS" -yield "$YIELD" -out "$OV" > "$OUT/logs/$ID-rewrite.log" 2>&1 || { cat "$OUT/logs/$ID-rewrite.log" >&2; echo "HARNESS-ERROR: seam generation failed (does the repository compile?)" >&2; exit 2; }
  OVFLAG="-overlay $OV/overlay.json"
fi
BIN=.bin/$GROUP-$ID-$TAG
go build $MODFLAG -tags verif $OVFLAG -o $BIN ./cmd/$GROUP > "$OUT/logs/$ID-build.log" 2>&1 || { tail -30 "$OUT/logs/$ID-build.log" >&2; echo "HARNESS-ERROR: build of $GROUP failed" >&2; exit 2; }
flock -u 9
VERIF_DIR="$OUT" VERIF_HOME=/verif exec $BIN "$ID" --tier "$TIER" "$@"
