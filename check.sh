#!/bin/bash
# usage: check.sh <ID> [quick|thorough] [--replay path]
# Rebuilds the property's harness from /repo's CURRENT working tree (hooks on,
# seams regenerated) and runs it. Exit 0 = held, 1 = VIOLATION, 2 = harness/build error.
set -u
cd /verif
. scripts/env.sh
ID=$1; shift
TIER=${VERIF_TIER:-quick}
if [ $# -gt 0 ] && [ "${1#--}" = "$1" ]; then TIER=$1; shift; fi
case "$ID" in
  C09|C10|C11|C12|C13) GROUP=appcheck; MAPORDER=app,keyper/shutterevents; VOS=app/app.go ;;
  *) echo "unknown property $ID" >&2; exit 2 ;;
esac
mkdir -p .bin .gen logs evidence replays
LOCK=.gen/$GROUP.lock
exec 9>"$LOCK"; flock 9
OV=.gen/overlay-$GROUP
OVFLAG=""
if [ -n "${MAPORDER}${VOS}" ]; then
  [ -x .bin/rewrite ] || go build -o .bin/rewrite ./cmd/rewrite || { echo "HARNESS-ERROR: cannot build rewrite" >&2; exit 2; }
  .bin/rewrite -maporder "$MAPORDER" -vos "$VOS" -out "$OV" > logs/$ID-rewrite.log 2>&1 || { cat logs/$ID-rewrite.log >&2; echo "HARNESS-ERROR: seam generation failed (does /repo compile?)" >&2; exit 2; }
  OVFLAG="-overlay $OV/overlay.json"
fi
go build -tags verif $OVFLAG -o .bin/$GROUP-$ID ./cmd/$GROUP > logs/$ID-build.log 2>&1 || { tail -30 logs/$ID-build.log >&2; echo "HARNESS-ERROR: build of $GROUP failed" >&2; exit 2; }
flock -u 9
exec .bin/$GROUP-$ID "$ID" --tier "$TIER" "$@"
