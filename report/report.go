// Package report is the driver/worker runtime shared by all check binaries:
// argument parsing, sharding over worker subprocesses, merging of coverage
// statistics, evidence files, replay files, known findings and the
// VIOLATION / KNOWN-FINDING output contract.
package report

import (
	"bufio"
	"crypto/sha256"
	"encoding/json"
	"fmt"
	"io"
	"os"
	"os/exec"
	"path/filepath"
	"runtime"
	"runtime/debug"
	"runtime/pprof"
	"sort"
	"strconv"
	"strings"
	"sync"
	"syscall"
	"time"
	"verif/explore"
)

// VerifDir is where evidence, replays and logs go.
var VerifDir = func() string {
	if d := os.Getenv("VERIF_DIR"); d != "" {
		return d
	}
	return "/verif"
}()

// Stats is what a worker measured. All counters are measured, never constants.
type Stats struct {
	Evaluations int64            `json:"evaluations"`
	States      int64            `json:"states"`
	Transitions int64            `json:"transitions"`
	Traces      int64            `json:"traces"`
	Classes     map[string]int64 `json:"classes"` // outcome class -> count (distinct_nontrivial = number of non-trivial classes)
	Samples     []any            `json:"samples"`
	Caps        []string         `json:"caps"`
	Extra       map[string]any   `json:"extra"`
	Counters    map[string]int64 `json:"counters"`
}

var statsMu sync.Mutex

// Add adds to the plain counters under the stats lock (for checks that expand
// states on several goroutines).
func (s *Stats) Add(evaluations, traces int64) {
	statsMu.Lock()
	s.Evaluations += evaluations
	s.Traces += traces
	statsMu.Unlock()
}

func (s *Stats) Class(c string) {
	statsMu.Lock()
	defer statsMu.Unlock()
	if s.Classes == nil {
		s.Classes = map[string]int64{}
	}
	s.Classes[c]++
}

func (s *Stats) Count(c string, n int64) {
	statsMu.Lock()
	defer statsMu.Unlock()
	if s.Counters == nil {
		s.Counters = map[string]int64{}
	}
	s.Counters[c] += n
}

func (s *Stats) Sample(v any) {
	statsMu.Lock()
	defer statsMu.Unlock()
	if len(s.Samples) < 4 {
		s.Samples = append(s.Samples, v)
	}
}

func (s *Stats) Cap(c string) {
	for _, x := range s.Caps {
		if x == c {
			return
		}
	}
	s.Caps = append(s.Caps, c)
}

func (s *Stats) SetExtra(k string, v any) {
	if s.Extra == nil {
		s.Extra = map[string]any{}
	}
	s.Extra[k] = v
}

func (s *Stats) merge(o *Stats) {
	s.Evaluations += o.Evaluations
	s.States += o.States
	s.Transitions += o.Transitions
	s.Traces += o.Traces
	for k, v := range o.Classes {
		if s.Classes == nil {
			s.Classes = map[string]int64{}
		}
		s.Classes[k] += v
	}
	for k, v := range o.Counters {
		if s.Counters == nil {
			s.Counters = map[string]int64{}
		}
		s.Counters[k] += v
	}
	for _, x := range o.Samples {
		if len(s.Samples) < 6 {
			s.Samples = append(s.Samples, x)
		}
	}
	for _, c := range o.Caps {
		s.Cap(c)
	}
	for k, v := range o.Extra {
		if s.Extra == nil {
			s.Extra = map[string]any{}
		}
		if _, ok := s.Extra[k]; !ok {
			s.Extra[k] = v
		}
	}
}

// Violation is one failing case.
type Violation struct {
	Property  string `json:"property"`
	Signature string `json:"signature"` // stable class, matched against known findings
	Message   string `json:"message"`
	Replay    any    `json:"replay"` // whatever the check's Replay function needs
}

// Ctx is handed to a check's Run function inside a worker.
type Ctx struct {
	Property string
	Tier     string // quick | thorough
	Thorough bool
	Shard    int
	NShards  int
	Seed     int64
	Deadline time.Time
	Stats    *Stats

	mu         sync.Mutex
	violations []Violation
}

// Violation records a violation found by this worker.
func (c *Ctx) Violation(signature, message string, replay any) {
	c.mu.Lock()
	defer c.mu.Unlock()
	for _, v := range c.violations {
		if v.Signature == signature {
			return // one representative per class per worker
		}
	}
	c.violations = append(c.violations, Violation{Property: c.Property, Signature: signature, Message: message, Replay: replay})
}

func (c *Ctx) Violations() int { return len(c.violations) }

// Expired reports whether the worker's internal deadline has passed.
func (c *Ctx) Expired() bool { return explore.Expired(c.Deadline) != "" }

// Check describes one property check.
type Check struct {
	Level       string // exploration | fault_enumeration | model_checking
	Rule        string
	Assumptions []string
	// Shards returns how many worker processes to use.
	Shards func(thorough bool) int
	// Budget is the internal time budget of one worker; when it is reached the
	// worker stops with exhaustive:false (never a failure).
	Budget func(thorough bool) time.Duration
	Run    func(c *Ctx)
	// Replay re-executes one recorded case without the explorer and returns a
	// non-empty message if the violation reproduces.
	Replay func(c *Ctx, replay json.RawMessage) string
	// Trivial reports classes that do not count as non-trivial.
	Trivial func(class string) bool
}

type workerOut struct {
	Stats      *Stats      `json:"stats"`
	Violations []Violation `json:"violations"`
	Fatal      string      `json:"fatal,omitempty"`
}

// KnownFindings is the committed file /verif/known_findings.json.
type KnownFindings struct {
	Findings []struct {
		Property    string `json:"property"`
		Signature   string `json:"signature"`
		Description string `json:"description"`
	} `json:"findings"`
	Fixed []string `json:"fixed"`
}

func loadKnown() KnownFindings {
	var k KnownFindings
	home := os.Getenv("VERIF_HOME")
	if home == "" {
		home = "/verif"
	}
	b, err := os.ReadFile(filepath.Join(home, "known_findings.json"))
	if err == nil {
		_ = json.Unmarshal(b, &k)
	}
	return k
}

// Main is the entry point of every check binary.
func Main(checks map[string]*Check) {
	args := os.Args[1:]
	if len(args) == 0 {
		fmt.Fprintln(os.Stderr, "usage: <bin> <ID> [--tier quick|thorough] [--replay path]")
		os.Exit(2)
	}
	id := args[0]
	chk, ok := checks[id]
	if !ok {
		fmt.Fprintf(os.Stderr, "unknown check %s\n", id)
		os.Exit(2)
	}
	tier := os.Getenv("VERIF_TIER")
	if tier == "" {
		tier = "quick"
	}
	worker := ""
	replay := ""
	for i := 1; i < len(args); i++ {
		switch args[i] {
		case "--tier":
			i++
			tier = args[i]
		case "--worker":
			i++
			worker = args[i]
		case "--replay":
			i++
			replay = args[i]
		}
	}
	seed, _ := strconv.ParseInt(os.Getenv("VERIF_SEED"), 10, 64)
	thorough := tier == "thorough"
	if replay != "" {
		os.Exit(runReplay(id, chk, tier, seed, replay))
	}
	if worker != "" {
		runWorker(id, chk, tier, seed, worker)
		return
	}
	os.Exit(runDriver(id, chk, tier, thorough, seed))
}

func runReplay(id string, chk *Check, tier string, seed int64, path string) int {
	b, err := os.ReadFile(path)
	if err != nil {
		fmt.Fprintln(os.Stderr, err)
		return 2
	}
	var v Violation
	if err := json.Unmarshal(b, &v); err != nil {
		fmt.Fprintln(os.Stderr, err)
		return 2
	}
	if chk.Replay == nil {
		fmt.Fprintln(os.Stderr, "check has no replay function")
		return 2
	}
	raw, _ := json.Marshal(v.Replay)
	c := &Ctx{Property: id, Tier: tier, Thorough: tier == "thorough", NShards: 1, Seed: seed, Stats: &Stats{}}
	msg := chk.Replay(c, raw)
	if msg != "" {
		fmt.Printf("REPRODUCED property=%s signature=%s\n%s\n", id, v.Signature, msg)
		return 1
	}
	fmt.Printf("NOT-REPRODUCED property=%s signature=%s\n", id, v.Signature)
	return 0
}

func runWorker(id string, chk *Check, tier string, seed int64, spec string) {
	// protocol goes to a dup of fd 1; fd 1 and 2 are pointed at the log so that
	// prints from the code under test cannot corrupt the protocol.
	protoFd, err := syscall.Dup(1)
	if err != nil {
		panic(err)
	}
	proto := os.NewFile(uintptr(protoFd), "proto")
	logPath := os.Getenv("VERIF_WORKER_LOG")
	if logPath == "" {
		logPath = os.DevNull
	}
	lf, err := os.OpenFile(logPath, os.O_CREATE|os.O_WRONLY|os.O_TRUNC, 0o644)
	if err == nil {
		_ = syscall.Dup2(int(lf.Fd()), 1)
		_ = syscall.Dup2(int(lf.Fd()), 2)
	}
	parts := strings.Split(spec, "/")
	shard, _ := strconv.Atoi(parts[0])
	n, _ := strconv.Atoi(parts[1])
	thorough := tier == "thorough"
	c := &Ctx{Property: id, Tier: tier, Thorough: thorough, Shard: shard, NShards: n, Seed: seed, Stats: &Stats{}}
	if chk.Budget != nil {
		c.Deadline = time.Now().Add(chk.Budget(thorough))
	}
	out := workerOut{}
	go memoryWatchdog(n)
	if pf := os.Getenv("VERIF_PROF"); pf != "" {
		f, _ := os.Create(fmt.Sprintf("%s.%d", pf, shard))
		_ = pprof.StartCPUProfile(f)
		defer pprof.StopCPUProfile()
	}
	func() {
		defer func() {
			if p := recover(); p != nil {
				out.Fatal = fmt.Sprintf("worker panic: %v\n%s", p, debug.Stack())
			}
		}()
		chk.Run(c)
	}()
	out.Stats = c.Stats
	out.Violations = c.violations
	enc := json.NewEncoder(proto)
	if err := enc.Encode(out); err != nil {
		fmt.Fprintln(os.Stderr, "encode:", err)
		os.Exit(3)
	}
	proto.Close()
	if out.Fatal != "" {
		os.Exit(3)
	}
}

func runDriver(id string, chk *Check, tier string, thorough bool, seed int64) int {
	start := time.Now()
	n := 1
	if chk.Shards != nil {
		n = chk.Shards(thorough)
	}
	if n < 1 {
		n = 1
	}
	logDir := filepath.Join(VerifDir, "logs")
	_ = os.MkdirAll(logDir, 0o755)
	_ = os.MkdirAll(filepath.Join(VerifDir, "evidence"), 0o755)
	outs := make([]workerOut, n)
	errs := make([]string, n)
	var wg sync.WaitGroup
	for i := 0; i < n; i++ {
		wg.Add(1)
		go func(i int) {
			defer wg.Done()
			cmd := exec.Command(os.Args[0], id, "--tier", tier, "--worker", fmt.Sprintf("%d/%d", i, n))
			logPath := filepath.Join(logDir, fmt.Sprintf("%s-%s-w%d.log", id, tier, i))
			cmd.Env = append(os.Environ(), "GOMAXPROCS=2", "VERIF_WORKER_LOG="+logPath)
			stdout, _ := cmd.StdoutPipe()
			cmd.Stderr = io.Discard
			if err := cmd.Start(); err != nil {
				errs[i] = err.Error()
				return
			}
			rd := bufio.NewReaderSize(stdout, 1<<20)
			data, _ := io.ReadAll(rd)
			werr := cmd.Wait()
			if len(data) > 0 {
				if err := json.Unmarshal(lastLine(data), &outs[i]); err != nil {
					errs[i] = fmt.Sprintf("bad worker output: %v", err)
				}
			} else if werr != nil {
				errs[i] = fmt.Sprintf("worker %d died without output: %v (log %s)", i, werr, logPath)
			}
			if outs[i].Fatal != "" {
				errs[i] = outs[i].Fatal
			}
		}(i)
	}
	wg.Wait()
	total := &Stats{}
	var viols []Violation
	fatal := []string{}
	for i := range outs {
		if errs[i] != "" {
			fatal = append(fatal, errs[i])
		}
		if outs[i].Stats != nil {
			total.merge(outs[i].Stats)
		}
		viols = append(viols, outs[i].Violations...)
	}
	// classify violations against known findings
	known := loadKnown()
	exit := 0
	seenSig := map[string]bool{}
	var knownLines, violLines []string
	for _, v := range viols {
		if seenSig[v.Signature] {
			continue
		}
		seenSig[v.Signature] = true
		isKnown := false
		for _, k := range known.Findings {
			if k.Property == id && k.Signature == v.Signature {
				knownLines = append(knownLines, fmt.Sprintf("KNOWN-FINDING: property=%s %s (%s)", id, v.Signature, k.Description))
				isKnown = true
			}
		}
		if isKnown {
			continue
		}
		h := sha256.Sum256([]byte(v.Signature + v.Message))
		rp := filepath.Join(VerifDir, "replays", fmt.Sprintf("%s-%x.json", id, h[:6]))
		_ = os.MkdirAll(filepath.Dir(rp), 0o755)
		b, _ := json.MarshalIndent(v, "", " ")
		_ = os.WriteFile(rp, b, 0o644)
		violLines = append(violLines, fmt.Sprintf("VIOLATION property=%s replay=%s", id, rp))
		fmt.Fprintf(os.Stderr, "--- %s [%s]\n%s\n", id, v.Signature, v.Message)
		exit = 1
	}
	// evidence
	nontrivial := 0
	classNames := make([]string, 0, len(total.Classes))
	for k := range total.Classes {
		classNames = append(classNames, k)
		if chk.Trivial == nil || !chk.Trivial(k) {
			nontrivial++
		}
	}
	sort.Strings(classNames)
	exhaustive := len(total.Caps) == 0 && len(fatal) == 0
	cov := map[string]any{
		"evaluations":         total.Evaluations,
		"distinct_nontrivial": nontrivial,
		"rule":                chk.Rule,
		"samples":             total.Samples,
		"exhaustive":          exhaustive,
		"caps_hit":            total.Caps,
		"outcome_classes":     total.Classes,
		"workers":             n,
	}
	if total.States > 0 && total.Transitions > 0 {
		cov["states"] = total.States
		cov["transitions"] = total.Transitions
		cov["traces_validated_against_impl"] = total.Traces
	}
	for k, v := range total.Counters {
		cov[k] = v
	}
	for k, v := range total.Extra {
		cov[k] = v
	}
	if len(knownLines) > 0 {
		cov["known_findings_emitted"] = knownLines
	}
	if len(total.Samples) == 0 {
		cov["samples"] = []any{"(no sample recorded)"}
	}
	ev := map[string]any{
		"property_id": id,
		"tier":        tier,
		"seed":        seed,
		"level":       chk.Level,
		"coverage":    cov,
		"assumptions": chk.Assumptions,
		"wall_s":      time.Since(start).Seconds(),
		"violations":  len(violLines),
	}
	b, _ := json.MarshalIndent(ev, "", " ")
	_ = os.WriteFile(filepath.Join(VerifDir, "evidence", id+".json"), b, 0o644)

	for _, l := range knownLines {
		fmt.Println(l)
	}
	for _, l := range violLines {
		fmt.Println(l)
	}
	fmt.Printf("%s tier=%s evaluations=%d states=%d transitions=%d classes=%d exhaustive=%v wall=%.1fs\n",
		id, tier, total.Evaluations, total.States, total.Transitions, len(total.Classes), exhaustive, time.Since(start).Seconds())
	if len(fatal) > 0 {
		for _, f := range fatal {
			fmt.Fprintln(os.Stderr, "HARNESS-ERROR:", f)
		}
		if exit == 0 {
			exit = 2
		}
	}
	return exit
}

func lastLine(b []byte) []byte {
	b = []byte(strings.TrimRight(string(b), "\n"))
	if i := strings.LastIndexByte(string(b), '\n'); i >= 0 {
		return b[i+1:]
	}
	return b
}

// memoryWatchdog keeps one worker inside its share of the machine's memory
// (55% of MemTotal divided by the number of workers, or VERIF_WORKER_MEM_MB):
// above it, explore.MemoryPressure makes every search stop and report the cap
// ("memory limit", exhaustive:false) instead of the kernel killing the worker.
func memoryWatchdog(workers int) {
	limit := uint64(0)
	if v, err := strconv.Atoi(os.Getenv("VERIF_WORKER_MEM_MB")); err == nil && v > 0 {
		limit = uint64(v) << 20
	} else if b, err := os.ReadFile("/proc/meminfo"); err == nil {
		var kb uint64
		for _, l := range strings.Split(string(b), "\n") {
			if strings.HasPrefix(l, "MemTotal:") {
				fmt.Sscanf(strings.TrimSpace(strings.TrimPrefix(l, "MemTotal:")), "%d", &kb)
			}
		}
		limit = kb * 1024 * 55 / 100 / uint64(workers)
	}
	if limit == 0 {
		return
	}
	debug.SetMemoryLimit(int64(limit + limit/3))
	var ms runtime.MemStats
	for {
		time.Sleep(500 * time.Millisecond)
		runtime.ReadMemStats(&ms)
		switch {
		case ms.HeapAlloc > limit:
			explore.MemoryPressure.Store(true)
		case ms.HeapAlloc < limit/2:
			explore.MemoryPressure.Store(false)
		}
	}
}
