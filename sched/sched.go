// Package sched is a cooperative scheduler for exploring the interleavings of a
// few goroutines at statement granularity. The code under test is instrumented
// by source rewriting (cmd/rewrite -yield): a call to Yield() is inserted
// before every statement of the chosen packages. Outside an exploration Yield
// is a no-op.
//
// Exactly one registered thread runs at a time; at every Yield the running
// thread hands control back to the controller, which asks the explorer which
// thread continues. Choice 0 is always "the thread that was running goes on"
// (if it is still there), so every non-zero choice at such a point is a
// preemption and costs one deviation; when the running thread has finished, the
// choice of the next one is free. Code that is not instrumented (third-party
// packages, the standard library) runs atomically between two yield points.
package sched

import (
	"fmt"
	"runtime/debug"
	"sync/atomic"
)

type event struct {
	done  bool
	panic string
}

type thread struct {
	id      int
	resume  chan struct{}
	done    bool
	waitFor func() bool // non-nil: blocked until it returns true
}

// S is one controlled execution.
type S struct {
	threads []*thread
	running *thread
	events  chan event
	Points  int // yield points passed
}

var cur atomic.Pointer[S]

// Yield is what the instrumented code calls before every statement.
func Yield() {
	s := cur.Load()
	if s == nil {
		return
	}
	t := s.running
	if t == nil {
		return // a goroutine the scheduler does not know (not started through Run)
	}
	s.Points++
	s.events <- event{}
	<-t.resume
}

// Active tells whether the calling code runs under an exploration.
func Active() bool {
	s := cur.Load()
	return s != nil && s.running != nil
}

// Block is a yield point at which the calling thread is not enabled again
// before cond() holds (used by the lock shims; cond is evaluated by the
// controller while no thread runs).
func Block(cond func() bool) {
	s := cur.Load()
	if s == nil || s.running == nil {
		panic("sched.Block outside an exploration")
	}
	t := s.running
	t.waitFor = cond
	s.Points++
	s.events <- event{}
	<-t.resume
}

// Deadlock is the panic message prefix Run reports when unfinished threads
// are all blocked.
const Deadlock = "deadlock: every unfinished thread waits for a lock"

// Chooser decides which of n enabled threads runs next. runningStillEnabled
// tells whether option 0 is the thread that was running (a non-zero answer is
// then a preemption).
type Chooser func(n int, runningStillEnabled bool, label string) int

// Run executes the bodies as threads under the scheduler until all have
// finished and returns the panic message of a body, if any ("" otherwise).
// Bodies must not block on anything but each other's progress through Yield
// (locks held across a yield point by instrumented code would deadlock; the
// instrumented packages here hold none).
func Run(choose Chooser, bodies ...func()) (panicMsg string) {
	s := &S{events: make(chan event)}
	for i, b := range bodies {
		t := &thread{id: i, resume: make(chan struct{})}
		s.threads = append(s.threads, t)
		b := b
		go func() {
			<-t.resume
			ev := event{done: true}
			defer func() {
				if p := recover(); p != nil {
					ev.panic = fmt.Sprintf("%v\n%s", p, debug.Stack())
				}
				s.events <- ev
			}()
			b()
		}()
	}
	cur.Store(s)
	defer cur.Store(nil)
	var last *thread
	for {
		var enabled []*thread
		ready := func(t *thread) bool { return !t.done && (t.waitFor == nil || t.waitFor()) }
		if last != nil && ready(last) {
			enabled = append(enabled, last)
		}
		unfinished := 0
		for _, t := range s.threads {
			if !t.done {
				unfinished++
			}
			if t != last && ready(t) {
				enabled = append(enabled, t)
			}
		}
		if len(enabled) == 0 {
			if unfinished > 0 && panicMsg == "" {
				panicMsg = Deadlock // the blocked goroutines are abandoned
			}
			return panicMsg
		}
		pick := 0
		if len(enabled) > 1 && last != nil { // the first thread to run is thread 0 (callers permute the bodies)
			still := enabled[0] == last
			pick = choose(len(enabled), still, fmt.Sprintf("thread at point %d", s.Points))
		}
		t := enabled[pick]
		t.waitFor = nil
		s.running = t
		last = t
		t.resume <- struct{}{}
		ev := <-s.events
		if ev.done {
			t.done = true
			if ev.panic != "" && panicMsg == "" {
				panicMsg = fmt.Sprintf("thread %d panics: %s", t.id, ev.panic)
			}
		}
	}
}
